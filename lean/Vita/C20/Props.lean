/-
  C20 — the inline-storage vector behaves like a standard vector.

  Model: Vita/C20/Model.lean (small_vector.tcc with explicit storage and object lifetimes,
  parameters: inline capacity `S`, `trivial`, the growth policy, the value of `T()`).
  Reference: Vita/C20/Spec.lean (`std::vector<T>` as `List α`).
  The theorems quantify over EVERY sequence of operations on two vectors that is valid for
  `std::vector` (positions in range, no use of a moved-from vector other than assigning to it,
  clearing, re-constructing or destroying it), every `S`, both kinds of element type and every
  growth policy with `n < growth n`; they are proved by the simulation invariant of Sim.lean.
-/
import Vita.C20.Sim
import Vita.C20.Legacy
import Vita.C20.Denote
import Vita.C20.Gen

namespace Vita.C20

variable {α : Type}

/-- For every operation sequence the small_vector machine runs without any fault, produces the
    observations of the list machine (`operator[]`, comparisons), and every vector whose contents
    the reference specifies holds exactly those elements. -/
theorem sv_refines_list (c : Cfg α) (hg : ∀ n, n < c.growth n) (eq lt : α → α → Bool)
    (ops : List (Bool × Op α)) (sp : SpecM α) (os : List (Obs α))
    (hs : specRun c eq lt SpecM.init ops = some (sp, os)) :
    ∃ m, run c eq lt (Mach.init c) ops = .ok (m, os) ∧
      (∀ l, sp.a = some l → contents m.a = .ok l) ∧ (∀ l, sp.b = some l → contents m.b = .ok l) := by
  obtain ⟨m, h1, h2⟩ := run_sim hg eq lt ops (sim_init c) sp os hs
  exact ⟨m, h1, fun l e => contents_ok (h2.1.2 l e), fun l e => contents_ok (h2.2.2 l e)⟩

/-- No lifetime fault: no assignment to raw storage, no construction over a live object, no
    destruction of a non-object / double destruction, no read of an unconstructed or moved-from
    element, no out-of-bounds write, no block freed with live objects, no dangling reference. -/
theorem sv_no_lifetime_fault (c : Cfg α) (hg : ∀ n, n < c.growth n) (eq lt : α → α → Bool)
    (ops : List (Bool × Op α)) (hs : (specRun c eq lt SpecM.init ops).isSome = true) (f : Fault) :
    run c eq lt (Mach.init c) ops ≠ .error f := by
  cases h : specRun c eq lt SpecM.init ops with
  | none => rw [h] at hs; cases hs
  | some q =>
    obtain ⟨sp, os⟩ := q
    obtain ⟨m, h1, _⟩ := run_sim hg eq lt ops (sim_init c) sp os h
    rw [h1]; intro e; cases e

/-- Destroying both vectors after any operation sequence releases every block and destroys every
    object exactly once (also for moved-from vectors). -/
theorem sv_no_leak_at_end (c : Cfg α) (hg : ∀ n, n < c.growth n) (eq lt : α → α → Bool)
    (ops : List (Bool × Op α)) (hs : (specRun c eq lt SpecM.init ops).isSome = true) :
    ∃ m os, run c eq lt (Mach.init c) ops = .ok (m, os) ∧ finish c m = .ok () := by
  cases h : specRun c eq lt SpecM.init ops with
  | none => rw [h] at hs; cases hs
  | some q =>
    obtain ⟨sp, os⟩ := q
    obtain ⟨m, h1, h2⟩ := run_sim hg eq lt ops (sim_init c) sp os h
    refine ⟨m, os, h1, ?_⟩
    simp only [finish, dtor_spec h2.1.1, dtor_spec h2.2.1, bind, Except.bind]

/-- A moved-from vector stays well formed (it can be assigned to, cleared, destroyed). -/
theorem sv_moved_from_wf (c : Cfg α) (hg : ∀ n, n < c.growth n) (eq lt : α → α → Bool)
    (ops : List (Bool × Op α)) (sp : SpecM α) (os : List (Obs α))
    (hs : specRun c eq lt SpecM.init ops = some (sp, os)) :
    ∃ m, run c eq lt (Mach.init c) ops = .ok (m, os) ∧ WF c m.a ∧ WF c m.b := by
  obtain ⟨m, h1, h2⟩ := run_sim hg eq lt ops (sim_init c) sp os hs
  exact ⟨m, h1, h2.1.1, h2.2.1⟩

/-- the growth policy of the code satisfies the only hypothesis about it -/
theorem growth_15_ok (n : Nat) : n < (if n > 1 then 3 * n / 2 else n + 1) := by
  split <;> omega

/-- The reference `==` IS the element-wise `T::operator==` (never a comparison of representations):
    `vecEq eq la lb` holds exactly when the sizes agree and `eq` holds at every index. -/
theorem vecEq_elementwise (eq : α → α → Bool) (la lb : List α) :
    vecEq eq la lb = true ↔
      la.length = lb.length ∧ ∀ i (h1 : i < la.length) (h2 : i < lb.length), eq la[i] lb[i] = true := by
  unfold vecEq
  induction la generalizing lb with
  | nil => cases lb <;> simp [allEq]
  | cons a as ih =>
    cases lb with
    | nil => simp [allEq]
    | cons b bs =>
      have ih' := ih bs
      simp only [List.length_cons, allEq, Bool.and_eq_true, beq_iff_eq, Nat.add_right_cancel_iff] at ih' ⊢
      constructor
      · rintro ⟨hl, he, ha⟩
        have := ih'.1 ⟨hl, ha⟩
        refine ⟨hl, ?_⟩
        intro i h1 h2
        cases i with
        | zero => simpa using he
        | succ i => simpa using this.2 i (by omega) (by omega)
      · rintro ⟨hl, hall⟩
        refine ⟨hl, by simpa using hall 0 (by omega) (by omega), ?_⟩
        refine (ih'.2 ⟨hl, fun i h1 h2 => ?_⟩).2
        have := hall (i + 1) (by omega) (by omega)
        simpa only [List.getElem_cons_succ] using this

/-- The element equality really is a parameter: for an element type whose `operator==` is not the
    identity of representations (here `x == y ⇔ x ≡ y mod 10`, and an "unordered" value 7 that is not
    even equal to itself, like a NaN) the operators differ from a comparison of the stored
    representations in both directions. -/
theorem operator_eq_is_not_representation_eq :
    let eq : Nat → Nat → Bool := fun x y => x != 7 && y != 7 && x % 10 == y % 10
    vecEq eq [1, 12] [11, 2] = true ∧ ([1, 12] : List Nat) ≠ [11, 2] ∧
    vecEq eq [7] [7] = false ∧ vecCmp eq (fun a b => decide (a < b)) .ne [7] [7] = true := by
  decide

/-! ### tie to the source: the skeletons extracted from the clang AST (Gen.lean, regenerated on every run)
    are the skeletons the hand model implements (Skeleton.lean), function by function -/

/-- no function was added to / removed from small_vector.{h,tcc} -/
theorem functions_known : Gen.functions = Skeleton.functions := by rfl

/-- constructors, destructor, `clear`, `free_heap_memory` -/
theorem skeleton_ctor_dtor :
    Gen.ctorNSk = Skeleton.ctorNSk ∧ Gen.ctorNXSk = Skeleton.ctorNXSk ∧
    Gen.ctorListSk = Skeleton.ctorListSk ∧ Gen.ctorCopySk = Skeleton.ctorCopySk ∧
    Gen.ctorMoveSk = Skeleton.ctorMoveSk ∧ Gen.dtorSk = Skeleton.dtorSk ∧
    Gen.clearSk = Skeleton.clearSk ∧
    Gen.free_heap_memorySk = Skeleton.free_heap_memorySk := by
  repeat' constructor

/-- both assignment operators: conditions (`this != &rhs`, `needs_memory`, `is_trivially…`,
    `local_storage_used()`, `n <= S`) and the primitive calls of every branch -/
theorem skeleton_assign :
    Gen.assignCopySk = Skeleton.assignCopySk ∧
    Gen.assignMoveSk = Skeleton.assignMoveSk := by
  repeat' constructor

/-- `push_back`, `emplace_back`, `append`, `insert` (append case, empty range, shift / overwrite strategy) -/
theorem skeleton_insert :
    Gen.push_backSk = Skeleton.push_backSk ∧ Gen.emplace_backSk = Skeleton.emplace_backSk ∧
    Gen.appendSk = Skeleton.appendSk ∧ Gen.insertSk = Skeleton.insertSk := by
  repeat' constructor

/-- `resize`, `reserve`, `grow(n)`, `grow()` -/
theorem skeleton_resize :
    Gen.resizeSk = Skeleton.resizeSk ∧ Gen.reserveSk = Skeleton.reserveSk ∧
    Gen.growNSk = Skeleton.growNSk ∧ Gen.growSk = Skeleton.growSk := by
  repeat' constructor

/-- the inline accessors of the header -/
theorem skeleton_accessors :
    Gen.indexConstSk = Skeleton.indexConstSk ∧ Gen.indexSk = Skeleton.indexSk ∧
    Gen.dataSk = Skeleton.dataSk ∧ Gen.dataConstSk = Skeleton.dataConstSk ∧
    Gen.beginSk = Skeleton.beginSk ∧ Gen.endSk = Skeleton.endSk ∧
    Gen.cbeginSk = Skeleton.cbeginSk ∧ Gen.cendSk = Skeleton.cendSk ∧
    Gen.beginConstSk = Skeleton.beginConstSk ∧ Gen.endConstSk = Skeleton.endConstSk ∧
    Gen.rbeginSk = Skeleton.rbeginSk ∧ Gen.rendSk = Skeleton.rendSk ∧
    Gen.rbeginConstSk = Skeleton.rbeginConstSk ∧ Gen.rendConstSk = Skeleton.rendConstSk ∧
    Gen.sizeSk = Skeleton.sizeSk ∧ Gen.capacitySk = Skeleton.capacitySk ∧
    Gen.max_sizeSk = Skeleton.max_sizeSk ∧ Gen.emptySk = Skeleton.emptySk ∧
    Gen.frontSk = Skeleton.frontSk ∧ Gen.frontConstSk = Skeleton.frontConstSk ∧
    Gen.backSk = Skeleton.backSk ∧ Gen.backConstSk = Skeleton.backConstSk ∧
    Gen.local_storage_usedSk = Skeleton.local_storage_usedSk := by
  repeat' constructor

/-- the free functions: `destroy_range`, `uninitialized_copy/move` and the six relational operators
    (`==` is `size() == size() && std::equal`, i.e. the element-wise `T::operator==`) -/
theorem skeleton_free_functions :
    Gen.destroy_rangeSk = Skeleton.destroy_rangeSk ∧
    Gen.uninitialized_copySk = Skeleton.uninitialized_copySk ∧
    Gen.uninitialized_moveSk = Skeleton.uninitialized_moveSk ∧
    Gen.opEqSk = Skeleton.opEqSk ∧ Gen.opNeSk = Skeleton.opNeSk ∧
    Gen.opLtSk = Skeleton.opLtSk ∧ Gen.opGtSk = Skeleton.opGtSk ∧
    Gen.opGeSk = Skeleton.opGeSk ∧ Gen.opLeSk = Skeleton.opLeSk := by
  repeat' constructor

/-- For `resize` the link between the extracted skeleton and the model is semantic: the skeleton
    read from the AST, executed with the statement meanings `resizeSem` (each condition / call mapped
    to a storage primitive), IS the model's `resize` — for every state and every `n`. -/
theorem resize_skeleton_denotes_model (c : Cfg α) (n : Nat) (s : SV α) :
    execL (resizeSem c n) Gen.resizeSk s = resize c s n := by
  have h : Gen.resizeSk = Skeleton.resizeSk := by rfl
  rw [h]; exact resize_denotes_aux c n s

/-- The same for `operator=(const small_vector &rhs)` (`this != &rhs`): the extracted skeleton, executed on
    the local state (`*this`, `n`, `needs_memory`, `assigned`) with the meanings `assignSem`, is the
    model's `assignCopy` for every well-formed destination and every readable source. -/
theorem assign_skeleton_denotes_model (c : Cfg α) {dst src : SV α} {els : List (Slot α)} (hd : Rep c dst els)
    {vals : List α} (hv : readRange src.buf 0 src.size = .ok vals) :
    (execL (assignSem c vals) Gen.assignCopySk ⟨dst, 0, false, 0⟩ >>= fun st => pure st.d)
      = assignCopy c dst src := by
  have h : Gen.assignCopySk = Skeleton.assignCopySk := by rfl
  rw [h]; exact assignCopy_denotes_aux c hd hv

/-- call-site layer: every small_vector member (constructor, operator) that some translation unit of
    the library uses — through fitness_t (`small_vector<double,1>`), the gene argument vectors
    (`small_vector<locus,K>`, `small_vector<packed_index_t,K>`) or the offspring vectors of
    evolution_recombination.h (`small_vector<T,1>`) — is covered by the model -/
theorem users_covered : ∀ m ∈ Gen.usedKeys, m ∈ Skeleton.covered.map Prod.fst := by decide

/-! ### the statements are not vacuous -/

def cfgS (t : Bool) : Cfg Nat := { S := 2, trivial := t, growth := fun n => if n > 1 then 3 * n / 2 else n + 1, dflt := 0 }

/-- an element equality that is not structural: equal modulo 10, and 7 is "NaN" -/
def eqMod : Nat → Nat → Bool := fun x y => x != 7 && y != 7 && x % 10 == y % 10

def demoOps : List (Bool × Op Nat) :=
  [(false, .pushBack (.val 5)), (false, .pushBack (.val 6)), (false, .pushBack (.self 0)),
   (false, .insert 1 [7, 8, 9]), (false, .insert 2 []), (true, .ctorList [1]), (true, .insert 0 [2, 3]),
   (false, .reserve 9), (false, .assignCopy), (true, .assignMove), (false, .assignCopy), (false, .resize 5),
   (true, .getAt 2),
   (true, .cmp .lt), (false, .setBack 11), (true, .ctorList [12, 13, 1, 10, 21]), (false, .cmp .eq),
   (false, .cmpMixed 7 .ne true),
   (true, .ctorList [7]), (false, .ctorCopy), (false, .cmp .eq), (false, .cmpMixed 1 .ge false),
   (true, .front), (true, .iterRev), (false, .iterFwd), (false, .empty), (false, .size), (false, .capOk),
   (false, .setData 0 4), (false, .dataAt 0), (false, .back), (false, .setFront 3), (false, .maxSize),
   (false, .clear)]

example : specRun (cfgS false) eqMod (fun a b => decide (a < b)) SpecM.init demoOps =
    some (⟨some [], some [7]⟩,
      [.none, .none, .none, .nat 1, .nat 2, .none, .nat 0, .none, .none, .none, .none, .none, .val 1,
       .bool true, .none, .none, .bool true, .bool false,       -- [2,3,1,0,11] == [12,13,1,10,21]
       .none, .none, .bool false, .bool true,                   -- [7] == [7] is false
       .val 7, .list [7], .list [7], .bool false, .nat 1, .bool true,
       .none, .val 4, .val 4, .none, .nat 18446744073709551615,
       .none]) := by
  rfl

/-- the hypotheses of `assign_skeleton_denotes_model` are inhabited (two freshly constructed vectors) -/
example : ∃ els vals, Rep (cfgS false) (Mach.init (cfgS false)).a els ∧
    readRange (Mach.init (cfgS false)).b.buf 0 (Mach.init (cfgS false)).b.size = .ok vals :=
  ⟨_, [], (sim_init (cfgS false)).1.2 [] rfl, rfl⟩

/-! ### legacy: the defects of the pinned tree (b4a6232), as witnesses against the old code paths -/

/-- (1) copy assignment into a heap vector with `size < n ≤ capacity` destroys raw memory -/
theorem legacy_copy_assign_fault :
    (do let d ← pushBack (cfgS false) (Mach.init (cfgS false)).a (.val 5)
        let d ← reserve (cfgS false) d 4
        let s ← ctorList (cfgS false) [1, 2, 3]
        Legacy.assignCopy (cfgS false) d s) = .error .oob := by rfl

/-- (2) inserting an empty range in the middle leaves the following elements moved-from -/
theorem legacy_empty_insert_fault :
    (do let s ← ctorList (cfgS false) [1, 2]
        let s ← Legacy.insert (cfgS false) s 1 []
        contents s) = .error .readMoved := by rfl

/-- (3) inserting more elements than follow the position constructs over live inline objects -/
theorem legacy_insert_leak :
    (do let s ← ctorList ({ cfgS false with S := 4 }) [1]
        Legacy.insert ({ cfgS false with S := 4 }) s 0 [7, 8]) = .error .constructOverAlive := by rfl

/-- (4) sized construction leaves trivially constructible elements uninitialised -/
theorem legacy_uninitialised :
    (do let s ← Legacy.ctorN (cfgS true) 2
        contents s) = .error .readRaw := by rfl

/-- (5) `push_back(v[0])` at full capacity reads a moved-from (inline) or freed (heap) element -/
theorem legacy_push_back_alias :
    (do let s ← ctorList (cfgS false) [1, 2]
        Legacy.pushBack (cfgS false) s (.self 0)) = .error .readMoved ∧
    (do let s ← ctorList (cfgS true) [1, 2, 3]
        Legacy.pushBack (cfgS true) s (.self 0)) = .error .danglingRef := ⟨rfl, rfl⟩

/-- the same inputs on the current code -/
theorem fixed_witnesses :
    (do let d ← pushBack (cfgS false) (Mach.init (cfgS false)).a (.val 5)
        let d ← reserve (cfgS false) d 4
        let s ← ctorList (cfgS false) [1, 2, 3]
        let d ← assignCopy (cfgS false) d s
        contents d) = .ok [1, 2, 3] ∧
    (do let s ← ctorList (cfgS false) [1, 2]
        let s ← insert (cfgS false) s 1 []
        contents s) = .ok [1, 2] ∧
    (do let s ← ctorList ({ cfgS false with S := 4 }) [1]
        let s ← insert ({ cfgS false with S := 4 }) s 0 [7, 8]
        contents s) = .ok [7, 8, 1] ∧
    (do let s ← ctorN (cfgS true) 2
        contents s) = .ok [0, 0] ∧
    (do let s ← ctorList (cfgS false) [1, 2]
        let s ← pushBack (cfgS false) s (.self 0)
        contents s) = .ok [1, 2, 1] := ⟨rfl, rfl, rfl, rfl, rfl⟩

end Vita.C20
