import Vita.C20.Model
namespace Vita.C20
theorem init_empty (c : Cfg Nat) : contents (Mach.init c).a = .ok [] := by
  simp [contents, Mach.init, readRange, SV.buf, seg]; rfl
end Vita.C20
