/-
  C20 — simulation: every step of the two-vector machine on `small_vector` states matches the
  step of the reference machine on lists, and keeps both vectors well formed.
-/
import Vita.C20.Spec
set_option linter.unusedSimpArgs false
set_option linter.unusedVariables false
namespace Vita.C20

variable {α : Type}

/-- register invariant: well formed; if the reference says `some l`, it holds exactly `l` -/
def SimReg (c : Cfg α) (s : SV α) (o : Option (List α)) : Prop :=
  WF c s ∧ ∀ l, o = some l → Abs c s l

def Sim (c : Cfg α) (m : Mach α) (sp : SpecM α) : Prop :=
  SimReg c m.a sp.a ∧ SimReg c m.b sp.b

theorem Sim.get {c : Cfg α} {m : Mach α} {sp : SpecM α} (h : Sim c m sp) (r : Bool) :
    SimReg c (m.get r) (sp.get r) := by
  cases r
  · exact h.1
  · exact h.2

theorem Sim.put {c : Cfg α} {m : Mach α} {sp : SpecM α} (h : Sim c m sp) (r : Bool) {s : SV α}
    {o : Option (List α)} (hs : SimReg c s o) : Sim c (m.put r s) (sp.put r o) := by
  cases r
  · exact ⟨hs, h.2⟩
  · exact ⟨h.1, hs⟩

theorem simReg_some {c : Cfg α} {s : SV α} {l : List α} (h : Abs c s l) : SimReg c s (some l) :=
  ⟨h.wf, fun l' e => by cases e; exact h⟩

theorem simReg_none {c : Cfg α} {s : SV α} (h : WF c s) : SimReg c s none :=
  ⟨h, fun _ e => by cases e⟩

theorem sim_init (c : Cfg α) : Sim c (Mach.init c) SpecM.init := by
  have h : Abs c { loc := freshLoc c, heap := none, size := 0 } [] :=
    ⟨freshLoc_length c, freshLoc_noRaw c, rfl, fun _ => NoRaw.nil,
      ⟨freshLoc c, by simp [SV.buf], fun htv => by simpa [SV.isLocal] using freshLoc_noRaw c htv⟩,
      by simp [SV.cap]⟩
  exact ⟨simReg_some h, simReg_some h⟩

@[simp] theorem mach_get_put_same (m : Mach α) (r : Bool) (s : SV α) : (m.put r s).get r = s := by
  cases r <;> rfl
@[simp] theorem mach_get_put_other (m : Mach α) (r : Bool) (s : SV α) : (m.put r s).get (!r) = m.get (!r) := by
  cases r <;> rfl

/-- the step lemma -/
theorem step_sim {c : Cfg α} (hg : ∀ n, n < c.growth n) (eq lt : α → α → Bool) {m : Mach α}
    {sp : SpecM α} (h : Sim c m sp) (r : Bool) (op : Op α) (sp' : SpecM α) (o : Obs α)
    (hs : specStep c eq lt sp r op = some (sp', o)) :
    ∃ m', step c eq lt m r op = .ok (m', o) ∧ Sim c m' sp' := by
  have hx := h.get r
  have hy := h.get (!r)
  have hdx := dtor_spec hx.1
  cases op with
  | ctorN n =>
    simp only [specStep, Option.some.injEq, Prod.mk.injEq] at hs
    obtain ⟨rfl, rfl⟩ := hs
    obtain ⟨s', h1, h2⟩ := build_spec c (List.replicate n c.dflt)
    exact ⟨m.put r s', by simp only [step, hdx, ctorN, h1, bind, Except.bind, pure, Except.pure],
      h.put r (simReg_some h2)⟩
  | ctorNX n v =>
    simp only [specStep, Option.some.injEq, Prod.mk.injEq] at hs
    obtain ⟨rfl, rfl⟩ := hs
    obtain ⟨s', h1, h2⟩ := build_spec c (List.replicate n v)
    exact ⟨m.put r s', by simp only [step, hdx, ctorNX, h1, bind, Except.bind, pure, Except.pure],
      h.put r (simReg_some h2)⟩
  | ctorList xs =>
    simp only [specStep, Option.some.injEq, Prod.mk.injEq] at hs
    obtain ⟨rfl, rfl⟩ := hs
    obtain ⟨s', h1, h2⟩ := build_spec c xs
    exact ⟨m.put r s', by simp only [step, hdx, ctorList, h1, bind, Except.bind, pure, Except.pure],
      h.put r (simReg_some h2)⟩
  | ctorCopy =>
    simp only [specStep] at hs
    cases hl : sp.get (!r) with
    | none => rw [hl] at hs; cases hs
    | some l =>
      rw [hl] at hs
      simp only [Option.some.injEq, Prod.mk.injEq] at hs
      obtain ⟨rfl, rfl⟩ := hs
      obtain ⟨s', h1, h2⟩ := ctorCopy_spec (hy.2 l hl)
      exact ⟨m.put r s', by simp only [step, hdx, h1, bind, Except.bind, pure, Except.pure],
        h.put r (simReg_some h2)⟩
  | ctorMove =>
    simp only [specStep] at hs
    cases hl : sp.get (!r) with
    | none => rw [hl] at hs; cases hs
    | some l =>
      rw [hl] at hs
      simp only [Option.some.injEq, Prod.mk.injEq] at hs
      obtain ⟨rfl, rfl⟩ := hs
      obtain ⟨d, y', h1, h2, h3⟩ := ctorMove_spec (hy.2 l hl)
      exact ⟨(m.put r d).put (!r) y', by simp only [step, hdx, h1, bind, Except.bind, pure, Except.pure],
        (h.put r (simReg_some h2)).put (!r) (simReg_none h3)⟩
  | assignCopy =>
    simp only [specStep] at hs
    cases hl : sp.get (!r) with
    | none => rw [hl] at hs; cases hs
    | some l =>
      rw [hl] at hs
      simp only [Option.some.injEq, Prod.mk.injEq] at hs
      obtain ⟨rfl, rfl⟩ := hs
      obtain ⟨s', h1, h2⟩ := assignCopy_spec hx.1 (hy.2 l hl)
      exact ⟨m.put r s', by simp only [step, h1, bind, Except.bind, pure, Except.pure],
        h.put r (simReg_some h2)⟩
  | assignMove =>
    simp only [specStep] at hs
    cases hl : sp.get (!r) with
    | none => rw [hl] at hs; cases hs
    | some l =>
      rw [hl] at hs
      simp only [Option.some.injEq, Prod.mk.injEq] at hs
      obtain ⟨rfl, rfl⟩ := hs
      obtain ⟨d, y', h1, h2, h3⟩ := assignMove_spec hx.1 (hy.2 l hl)
      exact ⟨(m.put r d).put (!r) y', by simp only [step, h1, bind, Except.bind, pure, Except.pure],
        (h.put r (simReg_some h2)).put (!r) (simReg_none h3)⟩
  | assignSelf =>
    simp only [specStep, Option.some.injEq, Prod.mk.injEq] at hs
    obtain ⟨rfl, rfl⟩ := hs
    exact ⟨m, by simp only [step, bind, Except.bind, pure, Except.pure], h⟩
  | clear =>
    simp only [specStep, Option.some.injEq, Prod.mk.injEq] at hs
    obtain ⟨rfl, rfl⟩ := hs
    obtain ⟨s', h1, h2⟩ := clear_spec hx.1
    exact ⟨m.put r s', by simp only [step, h1, bind, Except.bind, pure, Except.pure], h.put r (simReg_some h2)⟩
  | pushBack x =>
    simp only [specStep] at hs
    cases hl : sp.get r with
    | none => rw [hl] at hs; cases hs
    | some l =>
      rw [hl] at hs
      cases hv : srcVal l x with
      | none => simp [hv] at hs
      | some v =>
        simp only [hv, Option.some.injEq, Prod.mk.injEq] at hs
        obtain ⟨rfl, rfl⟩ := hs
        obtain ⟨s', h1, h2⟩ := pushBack_spec hg (hx.2 l hl) x v hv
        exact ⟨m.put r s', by simp only [step, h1, bind, Except.bind, pure, Except.pure],
          h.put r (simReg_some h2)⟩
  | emplaceBack x =>
    simp only [specStep] at hs
    cases hl : sp.get r with
    | none => rw [hl] at hs; cases hs
    | some l =>
      rw [hl] at hs
      cases hv : srcVal l x with
      | none => simp [hv] at hs
      | some v =>
        simp only [hv, Option.some.injEq, Prod.mk.injEq] at hs
        obtain ⟨rfl, rfl⟩ := hs
        obtain ⟨s', h1, h2⟩ := pushBack_spec hg (hx.2 l hl) x v hv
        rw [← emplaceBack_eq] at h1
        exact ⟨m.put r s', by simp only [step, h1, bind, Except.bind, pure, Except.pure],
          h.put r (simReg_some h2)⟩
  | insert pos xs =>
    simp only [specStep] at hs
    cases hl : sp.get r with
    | none => rw [hl] at hs; cases hs
    | some l =>
      rw [hl] at hs
      by_cases hp : pos ≤ l.length
      · simp only [hp, if_true, Option.some.injEq, Prod.mk.injEq] at hs
        obtain ⟨rfl, rfl⟩ := hs
        obtain ⟨s', h1, h2⟩ := insertR_spec (hx.2 l hl) pos xs hp
        exact ⟨m.put r s', by simp only [step, h1, bind, Except.bind, pure, Except.pure],
          h.put r (simReg_some h2)⟩
      · simp [hp] at hs
  | resize n =>
    simp only [specStep] at hs
    cases hl : sp.get r with
    | none => rw [hl] at hs; cases hs
    | some l =>
      rw [hl] at hs
      simp only [Option.some.injEq, Prod.mk.injEq] at hs
      obtain ⟨rfl, rfl⟩ := hs
      obtain ⟨s', h1, h2⟩ := resize_spec (hx.2 l hl) n
      exact ⟨m.put r s', by simp only [step, h1, bind, Except.bind, pure, Except.pure],
        h.put r (simReg_some h2)⟩
  | reserve n =>
    simp only [specStep] at hs
    cases hl : sp.get r with
    | none => rw [hl] at hs; cases hs
    | some l =>
      rw [hl] at hs
      simp only [Option.some.injEq, Prod.mk.injEq] at hs
      obtain ⟨rfl, rfl⟩ := hs
      obtain ⟨s', h1, h2, _, _⟩ := reserve_spec (hx.2 l hl) n
      refine ⟨m.put r s', by simp only [step, h1, bind, Except.bind, pure, Except.pure], ?_⟩
      have := h.put r (simReg_some h2)
      have e : sp.put r (some l) = sp := by
        cases r <;> simp [SpecM.put, SpecM.get] at hl ⊢ <;> cases sp <;> simp_all
      rwa [e] at this
  | setAt i v =>
    simp only [specStep] at hs
    cases hl : sp.get r with
    | none => rw [hl] at hs; cases hs
    | some l =>
      rw [hl] at hs
      by_cases hp : i < l.length
      · simp only [hp, if_true, Option.some.injEq, Prod.mk.injEq] at hs
        obtain ⟨rfl, rfl⟩ := hs
        obtain ⟨s', h1, h2⟩ := setAt_spec (hx.2 l hl) i v hp
        exact ⟨m.put r s', by simp only [step, h1, bind, Except.bind, pure, Except.pure],
          h.put r (simReg_some h2)⟩
      · simp [hp] at hs
  | getAt i =>
    simp only [specStep] at hs
    cases hl : sp.get r with
    | none => rw [hl] at hs; cases hs
    | some l =>
      rw [hl] at hs
      cases hv : l[i]? with
      | none => simp [hv] at hs
      | some v =>
        simp only [hv, Option.some.injEq, Prod.mk.injEq] at hs
        obtain ⟨rfl, rfl⟩ := hs
        have h1 := getAt_spec (hx.2 l hl) i v hv
        exact ⟨m, by simp only [step, h1, bind, Except.bind, pure, Except.pure], h⟩
  | cmp k =>
    simp only [specStep] at hs
    cases hl : sp.get r with
    | none => rw [hl] at hs; simp at hs
    | some lx =>
      cases hl2 : sp.get (!r) with
      | none => rw [hl, hl2] at hs; simp at hs
      | some ly =>
        rw [hl, hl2] at hs
        simp only [Option.some.injEq, Prod.mk.injEq] at hs
        obtain ⟨rfl, rfl⟩ := hs
        have h1 := svCmp_spec eq lt k (hx.2 lx hl) (hy.2 ly hl2)
        exact ⟨m, by simp only [step, h1, bind, Except.bind, pure, Except.pure], h⟩
  | cmpMixed S2 k flip =>
    simp only [specStep] at hs
    cases hl : sp.get r with
    | none => rw [hl] at hs; simp at hs
    | some lx =>
      cases hl2 : sp.get (!r) with
      | none => rw [hl, hl2] at hs; simp at hs
      | some ly =>
        rw [hl, hl2] at hs
        simp only [Option.some.injEq, Prod.mk.injEq] at hs
        obtain ⟨rfl, rfl⟩ := hs
        -- the temporary small_vector<T, S2>
        obtain ⟨t0, ht0, ha0⟩ := build_spec ({ c with S := S2 } : Cfg α) (List.replicate 0 c.dflt)
        obtain ⟨t, ht, hat⟩ := insert_spec ha0 0 ly (by simp)
        have hat' : Abs ({ c with S := S2 } : Cfg α) t ly := by simpa using hat
        have hd := dtor_spec hat'.wf
        have hc := contents_ok (hy.2 ly hl2)
        refine ⟨m, ?_, h⟩
        cases flip with
        | true =>
          have h1 := svCmp_spec eq lt k hat' (hx.2 lx hl)
          simp only [step, hc, ctorN, ht0, ht, h1, hd, if_true, bind, Except.bind, pure, Except.pure]
        | false =>
          have h1 := svCmp_spec eq lt k (hx.2 lx hl) hat'
          simp only [step, hc, ctorN, ht0, ht, h1, hd, if_false, Bool.false_eq_true, bind, Except.bind, pure,
            Except.pure]
  | front =>
    simp only [specStep] at hs
    cases hl : sp.get r with
    | none => rw [hl] at hs; cases hs
    | some l =>
      rw [hl] at hs
      cases hv : l[0]? with
      | none => simp [hv] at hs
      | some v =>
        simp only [hv, Option.some.injEq, Prod.mk.injEq] at hs
        obtain ⟨rfl, rfl⟩ := hs
        have h1 := frontAt_spec (hx.2 l hl) v hv
        exact ⟨m, by simp only [step, h1, bind, Except.bind, pure, Except.pure], h⟩
  | back =>
    simp only [specStep] at hs
    cases hl : sp.get r with
    | none => rw [hl] at hs; cases hs
    | some l =>
      rw [hl] at hs
      cases hv : l[l.length - 1]? with
      | none => simp [hv] at hs
      | some v =>
        simp only [hv, Option.some.injEq, Prod.mk.injEq] at hs
        obtain ⟨rfl, rfl⟩ := hs
        have h1 := backAt_spec (hx.2 l hl) v hv
        exact ⟨m, by simp only [step, h1, bind, Except.bind, pure, Except.pure], h⟩
  | setFront v =>
    simp only [specStep] at hs
    cases hl : sp.get r with
    | none => rw [hl] at hs; cases hs
    | some l =>
      rw [hl] at hs
      by_cases hp : 0 < l.length
      · simp only [hp, if_true, Option.some.injEq, Prod.mk.injEq] at hs
        obtain ⟨rfl, rfl⟩ := hs
        obtain ⟨s', h1, h2⟩ := setFront_spec (hx.2 l hl) v hp
        exact ⟨m.put r s', by simp only [step, h1, bind, Except.bind, pure, Except.pure],
          h.put r (simReg_some h2)⟩
      · simp [hp] at hs
  | setBack v =>
    simp only [specStep] at hs
    cases hl : sp.get r with
    | none => rw [hl] at hs; cases hs
    | some l =>
      rw [hl] at hs
      by_cases hp : 0 < l.length
      · simp only [hp, if_true, Option.some.injEq, Prod.mk.injEq] at hs
        obtain ⟨rfl, rfl⟩ := hs
        obtain ⟨s', h1, h2⟩ := setBack_spec (hx.2 l hl) v hp
        exact ⟨m.put r s', by simp only [step, h1, bind, Except.bind, pure, Except.pure],
          h.put r (simReg_some h2)⟩
      · simp [hp] at hs
  | dataAt i =>
    simp only [specStep] at hs
    cases hl : sp.get r with
    | none => rw [hl] at hs; cases hs
    | some l =>
      rw [hl] at hs
      cases hv : l[i]? with
      | none => simp [hv] at hs
      | some v =>
        simp only [hv, Option.some.injEq, Prod.mk.injEq] at hs
        obtain ⟨rfl, rfl⟩ := hs
        have h1 := dataAt_spec (hx.2 l hl) i v hv
        exact ⟨m, by simp only [step, h1, bind, Except.bind, pure, Except.pure], h⟩
  | setData i v =>
    simp only [specStep] at hs
    cases hl : sp.get r with
    | none => rw [hl] at hs; cases hs
    | some l =>
      rw [hl] at hs
      by_cases hp : i < l.length
      · simp only [hp, if_true, Option.some.injEq, Prod.mk.injEq] at hs
        obtain ⟨rfl, rfl⟩ := hs
        obtain ⟨s', h1, h2⟩ := setData_spec (hx.2 l hl) i v hp
        exact ⟨m.put r s', by simp only [step, h1, bind, Except.bind, pure, Except.pure],
          h.put r (simReg_some h2)⟩
      · simp [hp] at hs
  | iterFwd =>
    simp only [specStep] at hs
    cases hl : sp.get r with
    | none => rw [hl] at hs; cases hs
    | some l =>
      rw [hl] at hs
      simp only [Option.some.injEq, Prod.mk.injEq] at hs
      obtain ⟨rfl, rfl⟩ := hs
      have h1 := iterFwd_spec (hx.2 l hl)
      exact ⟨m, by simp only [step, h1, bind, Except.bind, pure, Except.pure], h⟩
  | iterRev =>
    simp only [specStep] at hs
    cases hl : sp.get r with
    | none => rw [hl] at hs; cases hs
    | some l =>
      rw [hl] at hs
      simp only [Option.some.injEq, Prod.mk.injEq] at hs
      obtain ⟨rfl, rfl⟩ := hs
      have h1 := iterRev_spec (hx.2 l hl)
      exact ⟨m, by simp only [step, h1, bind, Except.bind, pure, Except.pure], h⟩
  | empty =>
    simp only [specStep] at hs
    cases hl : sp.get r with
    | none => rw [hl] at hs; cases hs
    | some l =>
      rw [hl] at hs
      simp only [Option.some.injEq, Prod.mk.injEq] at hs
      obtain ⟨rfl, rfl⟩ := hs
      have hsz : l.length = (m.get r).size := by simpa using (hx.2 l hl).size_eq
      exact ⟨m, by simp only [step, hsz, bind, Except.bind, pure, Except.pure], h⟩
  | size =>
    simp only [specStep] at hs
    cases hl : sp.get r with
    | none => rw [hl] at hs; cases hs
    | some l =>
      rw [hl] at hs
      simp only [Option.some.injEq, Prod.mk.injEq] at hs
      obtain ⟨rfl, rfl⟩ := hs
      have hsz : l.length = (m.get r).size := by simpa using (hx.2 l hl).size_eq
      exact ⟨m, by simp only [step, hsz, bind, Except.bind, pure, Except.pure], h⟩
  | capOk =>
    simp only [specStep] at hs
    cases hl : sp.get r with
    | none => rw [hl] at hs; cases hs
    | some l =>
      rw [hl] at hs
      simp only [Option.some.injEq, Prod.mk.injEq] at hs
      obtain ⟨rfl, rfl⟩ := hs
      have h1 := capOk_spec (hx.2 l hl)
      exact ⟨m, by simp only [step, h1, bind, Except.bind, pure, Except.pure], h⟩
  | maxSize =>
    simp only [specStep, Option.some.injEq, Prod.mk.injEq] at hs
    obtain ⟨rfl, rfl⟩ := hs
    exact ⟨m, by simp only [step, bind, Except.bind, pure, Except.pure], h⟩

theorem run_sim {c : Cfg α} (hg : ∀ n, n < c.growth n) (eq lt : α → α → Bool)
    (ops : List (Bool × Op α)) {m : Mach α} {sp : SpecM α} (h : Sim c m sp) (sp' : SpecM α) (os : List (Obs α))
    (hs : specRun c eq lt sp ops = some (sp', os)) :
    ∃ m', run c eq lt m ops = .ok (m', os) ∧ Sim c m' sp' := by
  induction ops generalizing m sp sp' os with
  | nil =>
    simp only [specRun, Option.some.injEq, Prod.mk.injEq] at hs
    obtain ⟨rfl, rfl⟩ := hs
    exact ⟨m, rfl, h⟩
  | cons p rest ih =>
    obtain ⟨r, op⟩ := p
    simp only [specRun] at hs
    cases h1 : specStep c eq lt sp r op with
    | none => rw [h1] at hs; cases hs
    | some q =>
      obtain ⟨sp1, o⟩ := q
      simp only [h1] at hs
      cases h2 : specRun c eq lt sp1 rest with
      | none => simp [h2] at hs
      | some q2 =>
        obtain ⟨sp2, os2⟩ := q2
        simp only [h2, Option.some.injEq, Prod.mk.injEq] at hs
        obtain ⟨rfl, rfl⟩ := hs
        obtain ⟨m1, hm1, hsim1⟩ := step_sim hg eq lt h r op sp1 o h1
        obtain ⟨m2, hm2, hsim2⟩ := ih hsim1 sp2 os2 h2
        exact ⟨m2, by simp only [run, hm1, hm2, bind, Except.bind, pure, Except.pure], hsim2⟩

end Vita.C20
