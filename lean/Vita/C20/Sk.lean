/-
  C20 — the statement skeleton of a C++ function body: what tools/translate_smallvec.py extracts
  from the clang AST (Gen.lean) and what Skeleton.lean states about the hand-written model.
  Conditions and statements are normalised source text (no comments, no white space except between
  two identifier characters).
-/
namespace Vita.C20

inductive Sk
  | stmt (text : String)                                 -- an expression statement (call, assignment, new, …)
  | decl (text : String)                                 -- a declaration statement
  | ret (text : String)                                  -- `return e`
  | ite (cond : String) (thn els : List Sk)              -- `if (cond) thn else els`
  | loop (header : String) (body : List Sk)              -- `for (init; cond; inc) body`, header = "init;cond;inc"

mutual
  def Sk.beq : Sk → Sk → Bool
    | .stmt a, .stmt b => a == b
    | .decl a, .decl b => a == b
    | .ret a, .ret b => a == b
    | .ite c t e, .ite c' t' e' => c == c' && Sk.beqL t t' && Sk.beqL e e'
    | .loop h b, .loop h' b' => h == h' && Sk.beqL b b'
    | _, _ => false
  def Sk.beqL : List Sk → List Sk → Bool
    | [], [] => true
    | a :: as, b :: bs => Sk.beq a b && Sk.beqL as bs
    | _, _ => false
end

end Vita.C20
