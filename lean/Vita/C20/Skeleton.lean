/-
  C20 — the statement skeleton of every function of src/utility/small_vector.{h,tcc} AS THE HAND-WRITTEN
  MODEL IMPLEMENTS IT (reviewed function by function against Model.lean; each definition names the model
  definition it corresponds to), and the table of small_vector members the model covers.

  tools/translate_smallvec.py extracts the same skeletons from the clang AST of the working tree into
  Gen.lean on every run; Props.lean proves `Gen.<f>Sk = Skeleton.<f>Sk` for every function (a changed
  branch condition, a changed primitive call, a new or removed statement breaks the obligation even when
  no sampled script reaches it) and that every member the library uses is covered.
-/
import Vita.C20.Sk
namespace Vita.C20.Skeleton
open Vita.C20 (Sk)

/-- `operator[](pos) const` — Model `getAt` (read of slot `pos` of the buffer) -/
def indexConstSk : List Sk := [
  .ret "cbegin()[pos]"]

/-- `operator[](pos)` — Model `setAt` (assignment through the reference) / `getAt` -/
def indexSk : List Sk := [
  .ret "begin()[pos]"]

/-- `data()` — Model `dataAt` / `setData`: the buffer itself, index 0 = `data_` -/
def dataSk : List Sk := [
  .ret "data_"]

/-- `data() const` — Model `dataAt` -/
def dataConstSk : List Sk := [
  .ret "data_"]

/-- `begin()` — Model: iterator index 0 (`iterGo … 0`, positions of `insert`) -/
def beginSk : List Sk := [
  .ret "data_"]

/-- `end()` — Model: iterator index `size` -/
def endSk : List Sk := [
  .ret "size_"]

/-- `cbegin() const` — index 0 -/
def cbeginSk : List Sk := [
  .ret "data_"]

/-- `cend() const` — index `size` -/
def cendSk : List Sk := [
  .ret "size_"]

/-- `begin() const` -/
def beginConstSk : List Sk := [
  .ret "cbegin()"]

/-- `end() const` -/
def endConstSk : List Sk := [
  .ret "cend()"]

/-- `rbegin()` — Model `riterGo`: base = `end()` -/
def rbeginSk : List Sk := [
  .ret "reverse_iterator(end())"]

/-- `rend()` — Model `riterGo`: stops at base = `begin()` (0) -/
def rendSk : List Sk := [
  .ret "reverse_iterator(begin())"]

/-- `rbegin() const` -/
def rbeginConstSk : List Sk := [
  .ret "const_reverse_iterator(end())"]

/-- `rend() const` -/
def rendConstSk : List Sk := [
  .ret "const_reverse_iterator(begin())"]

/-- `size() const` — Model `SV.size` -/
def sizeSk : List Sk := [
  .ret "static_cast<size_type>(end()-begin())"]

/-- `capacity() const` — Model `SV.cap` -/
def capacitySk : List Sk := [
  .ret "static_cast<size_type>(capacity_-begin())"]

/-- `max_size() const` — Model `maxSize` -/
def max_sizeSk : List Sk := [
  .ret "static_cast<size_type>(-1)"]

/-- `empty() const` — Model `size == 0` -/
def emptySk : List Sk := [
  .ret "end()==begin()"]

/-- `front()` — Model `frontAt` / `setFront` (index 0) -/
def frontSk : List Sk := [
  .ret "begin()[0]"]

/-- `front() const` — Model `frontAt` -/
def frontConstSk : List Sk := [
  .ret "cbegin()[0]"]

/-- `back()` — Model `backAt` / `setBack` (index `size - 1`) -/
def backSk : List Sk := [
  .ret "end()[-1]"]

/-- `back() const` — Model `backAt` -/
def backConstSk : List Sk := [
  .ret "end()[-1]"]

/-- `local_storage_used()` — Model `SV.isLocal` (`heap = none`) -/
def local_storage_usedSk : List Sk := [
  .ret "data_==local_storage_"]

/-- `small_vector(n)` — Model `ctorN` = `build (replicate n T())`: inline: `fill_n` = `assignRange` onto the live
    member array; heap: placement new in a loop = `constructRange` on a fresh block -/
def ctorNSk : List Sk := [
  .ite "n<=S" [
      .stmt "data_=local_storage_",
      .stmt "size_=data_+n",
      .stmt "capacity_=data_+S",
      .stmt "std::fill_n(begin(),n,T())"] [
      .stmt "data_=static_cast<T*>(::operator new(n*sizeof(T)))",
      .stmt "capacity_=size_=data_+n",
      .loop "size_type k(0);k<n;++k" [
          .stmt "new(data_+k)T()"]]]

/-- `small_vector(n, x)` — Model `ctorNX` = `build (replicate n x)` -/
def ctorNXSk : List Sk := [
  .ite "n<=S" [
      .stmt "data_=local_storage_",
      .stmt "size_=data_+n",
      .stmt "capacity_=data_+S",
      .stmt "std::fill_n(begin(),n,x)"] [
      .stmt "data_=static_cast<T*>(::operator new(n*sizeof(T)))",
      .stmt "capacity_=size_=data_+n",
      .loop "size_type k(0);k<n;++k" [
          .stmt "new(data_+k)T(x)"]]]

/-- `small_vector(initializer_list)` — Model `ctorList` = `build xs`: `std::copy` = `assignRange`,
    `uninitialized_copy` = `constructRange` -/
def ctorListSk : List Sk := [
  .decl "const auto n(list.size())",
  .ite "n<=S" [
      .stmt "data_=local_storage_",
      .stmt "size_=data_+n",
      .stmt "capacity_=data_+S",
      .stmt "std::copy(list.begin(),list.end(),begin())"] [
      .stmt "data_=static_cast<T*>(::operator new(n*sizeof(T)))",
      .stmt "capacity_=size_=data_+n",
      .stmt "vita::uninitialized_copy(list.begin(),list.end(),begin())"]]

/-- `small_vector(const small_vector &)` — Model `ctorCopy` (reads `v`, then `build`) -/
def ctorCopySk : List Sk := [
  .decl "const auto n(v.size())",
  .ite "n<=S" [
      .stmt "data_=local_storage_",
      .stmt "size_=data_+n",
      .stmt "capacity_=data_+S",
      .stmt "std::copy(v.begin(),v.end(),begin())"] [
      .stmt "data_=static_cast<T*>(::operator new(n*sizeof(T)))",
      .stmt "capacity_=size_=data_+n",
      .stmt "vita::uninitialized_copy(v.begin(),v.end(),data_)"]]

/-- `small_vector(small_vector &&)` — Model `ctorMove`: `n <= S`: `std::move` = `moveOutRange` + `assignRange`,
    the source keeps its size; else the block is stolen and the source becomes empty and inline -/
def ctorMoveSk : List Sk := [
  .decl "const auto n(rhs.size())",
  .ite "n<=S" [
      .stmt "data_=local_storage_",
      .stmt "size_=data_+n",
      .stmt "capacity_=data_+S",
      .stmt "std::move(rhs.begin(),rhs.end(),begin())"] [
      .stmt "data_=rhs.data_",
      .stmt "size_=rhs.size_",
      .stmt "capacity_=rhs.capacity_",
      .stmt "rhs.data_=rhs.local_storage_",
      .stmt "rhs.size_=rhs.local_storage_",
      .stmt "rhs.capacity_=rhs.local_storage_+S"]]

/-- `operator=(const small_vector &)` — Model `assignCopy` (and `Op.assignSelf` for `this == &rhs`).
    `needs_memory`: `freeHeap` if on the heap, fresh block, `constructRange`.  Otherwise `assigned` = n for
    trivial T or inline storage, `min(n, size())` on the heap: `destroyRange hb n (size - n)` when n < size (heap,
    non-trivial), `assignRange 0 (vals.take assigned)`, `constructRange assigned (vals.drop assigned)`.
    SEMANTIC link: `assign_skeleton_denotes_model` (Props) -/
def assignCopySk : List Sk := [
  .ite "this!=&rhs" [
      .decl "const auto n(rhs.size())",
      .decl "const bool needs_memory(capacity()<n)",
      .ite "needs_memory" [
          .ite "!local_storage_used()" [
              .stmt "free_heap_memory()"] [],
          .stmt "data_=static_cast<T*>(::operator new(n*sizeof(T)))",
          .stmt "capacity_=size_=data_+n",
          .stmt "vita::uninitialized_copy(rhs.begin(),rhs.end(),begin())"] [
          .decl "const auto assigned(std::is_trivially_default_constructible_v<T>||local_storage_used()?n:std::min(n,size()))",
          .ite "!std::is_trivially_default_constructible_v<T>" [
              .ite "!local_storage_used()" [
                  .stmt "destroy_range(begin()+assigned,end())"] []] [],
          .stmt "std::copy(rhs.begin(),rhs.begin()+assigned,begin())",
          .stmt "vita::uninitialized_copy(rhs.begin()+assigned,rhs.end(),begin()+assigned)",
          .stmt "size_=begin()+n"]] [],
  .ret "*this"]

/-- `operator=(small_vector &&)` — Model `assignMove`: `freeHeap` if on the heap; `n <= S`: element-wise
    move into the member array (`moveOutRange` + `assignRange`); else steal the block -/
def assignMoveSk : List Sk := [
  .ite "this!=&rhs" [
      .decl "const auto n(rhs.size())",
      .ite "!local_storage_used()" [
          .stmt "free_heap_memory()"] [],
      .ite "n<=S" [
          .stmt "data_=local_storage_",
          .stmt "size_=local_storage_+n",
          .stmt "capacity_=local_storage_+S",
          .stmt "std::move(rhs.begin(),rhs.end(),begin())"] [
          .stmt "data_=rhs.data_",
          .stmt "size_=rhs.size_",
          .stmt "capacity_=rhs.capacity_",
          .stmt "rhs.data_=rhs.local_storage_",
          .stmt "rhs.size_=rhs.local_storage_",
          .stmt "rhs.capacity_=rhs.local_storage_+S"]] [],
  .ret "*this"]

/-- `~small_vector()` — Model `dtor` (then the member array is destroyed) -/
def dtorSk : List Sk := [
  .ite "!local_storage_used()" [
      .stmt "free_heap_memory()"] []]

/-- `clear()` — Model `clear` -/
def clearSk : List Sk := [
  .ite "!local_storage_used()" [
      .stmt "free_heap_memory()"] [],
  .stmt "data_=local_storage_",
  .stmt "size_=data_",
  .stmt "capacity_=data_+S"]

/-- `push_back(const T &)` — Model `pushBack`: at capacity the argument is copied (`readSrc`) BEFORE `grow()`,
    then constructed on the heap; otherwise `putRange` (assign inline / construct on the heap) -/
def push_backSk : List Sk := [
  .ite "size_==capacity_" [
      .decl "T copy(x)",
      .stmt "grow()",
      .stmt "new(size_++)T(std::move(copy))",
      .ret ""] [],
  .ite "local_storage_used()" [
      .stmt "*size_=x"] [
      .stmt "new(size_)T(x)"],
  .stmt "++size_"]

/-- `emplace_back(args…)` — Model `emplaceBack` (same lifetime events as `push_back`) -/
def emplace_backSk : List Sk := [
  .ite "size_==capacity_" [
      .decl "T elem(std::forward<Args>(args)...)",
      .stmt "grow()",
      .stmt "new(size_++)T(std::move(elem))",
      .ret ""] [],
  .ite "local_storage_used()" [
      .stmt "*size_=T(std::forward<Args>(args)...)"] [
      .stmt "new(size_)T(std::forward<Args>(args)...)"],
  .stmt "++size_"]

/-- `append(b, e)` — Model `append`: `reserve`, `putRange` at `end()`, returns `end() - n` (`insertR`) -/
def appendSk : List Sk := [
  .decl "const auto n(static_cast<size_type>(std::distance(b,e)))",
  .stmt "reserve(size()+n)",
  .ite "local_storage_used()" [
      .stmt "std::copy(b,e,end())"] [
      .stmt "vita::uninitialized_copy(b,e,end())"],
  .stmt "size_+=n",
  .ret "end()-n"]

/-- `insert(i, b, e)` — Model `insert` / `insertR`: `append` case; empty range returns `i`; `reserve`; the SHIFT
    strategy (`i + n <= end()`): `append(move_iterator…)` = `moveOutRange` + `putRange`, `move_backward` =
    `moveOutRange` + `assignRange (pos + n)`, `std::copy` = `assignRange pos`; the OVERWRITE strategy: tail moved to
    `pos + n` with `putRange` (assign inline / construct on the heap), `*j = *b` loop = `assignRange pos (xs.take ow)`,
    rest `putRange sz (xs.drop ow)` -/
def insertSk : List Sk := [
  .ite "i==end()" [
      .ret "append(b,e)"] [],
  .ite "b==e" [
      .ret "i"] [],
  .decl "const auto insert_index(static_cast<size_type>(i-begin()))",
  .decl "const auto n(static_cast<size_type>(std::distance(b,e)))",
  .stmt "reserve(size()+n)",
  .stmt "i=begin()+insert_index",
  .ite "i+n<=end()" [
      .decl "const auto old_end(end())",
      .stmt "append(std::move_iterator<iterator>(end()-n),std::move_iterator<iterator>(end()))",
      .stmt "std::move_backward(i,old_end-n,old_end)",
      .stmt "std::copy(b,e,i)",
      .ret "i"] [],
  .decl "const auto old_end(end())",
  .stmt "size_+=n",
  .decl "auto overwritten(old_end-i)",
  .ite "local_storage_used()" [
      .stmt "std::move(i,old_end,end()-overwritten)"] [
      .stmt "vita::uninitialized_move(i,old_end,end()-overwritten)"],
  .loop "auto j(i);overwritten;--overwritten,++j,++b" [
      .stmt "*j=*b"],
  .ite "local_storage_used()" [
      .stmt "std::copy(b,e,old_end)"] [
      .stmt "vita::uninitialized_copy(b,e,old_end)"],
  .ret "i"]

/-- `resize(n)` — Model `resize`; the link to the model is SEMANTIC for this function: `resize_sk_denotes`
    (Props) proves that executing this skeleton with the statement meanings of `resizeSem` IS `resize` -/
def resizeSk : List Sk := [
  .ite "n<=capacity()" [
      .ite "!std::is_trivially_default_constructible_v<T>" [
          .ite "local_storage_used()" [
              .ite "n>=size()" [
                  .stmt "std::fill(end(),begin()+n,T())"] []] [
              .ite "n<size()" [
                  .stmt "destroy_range(begin()+n,end())"] [
                  .loop "auto k(size());k<n;++k" [
                      .stmt "new(data_+k)T()"]]]] [
          .ite "n>size()" [
              .stmt "std::fill(end(),begin()+n,T())"] []],
      .stmt "size_=data_+n"] [
      .stmt "grow(n)",
      .loop ";size_<capacity_;++size_" [
          .stmt "new(size_)T()"]]]

/-- `reserve(n)` — Model `reserve` -/
def reserveSk : List Sk := [
  .ite "n>capacity()" [
      .stmt "grow(n)"] []]

/-- `free_heap_memory()` — Model `freeHeap` -/
def free_heap_memorySk : List Sk := [
  .ite "!std::is_trivially_default_constructible_v<T>" [
      .stmt "destroy_range(begin(),end())"] [],
  .stmt "::operator delete(data_)"]

/-- `grow(n)` — Model `grow`: `uninitialized_move` = `moveOutRange` + `constructRange` on the new block, old heap
    block released through `freeHeap` -/
def growNSk : List Sk := [
  .decl "const auto n_old(size())",
  .decl "auto new_data(static_cast<T*>(::operator new(n*sizeof(T))))",
  .stmt "vita::uninitialized_move(begin(),end(),new_data)",
  .ite "!local_storage_used()" [
      .stmt "free_heap_memory()"] [],
  .stmt "data_=new_data",
  .stmt "capacity_=data_+n",
  .stmt "size_=data_+n_old"]

/-- `grow()` — Model: `grow c s (c.growth s.size)` with the policy `growth_15_ok` -/
def growSk : List Sk := [
  .decl "const auto n_old(size())",
  .decl "const auto n(n_old>1?(3*n_old)/2:n_old+1)",
  .stmt "grow(n)"]

/-- `destroy_range(b, e)` — Model `destroyRange` -/
def destroy_rangeSk : List Sk := [
  .loop ";b!=e;++b" [
      .stmt "b->~T()"]]

/-- `uninitialized_copy(b, e, d)` — Model `constructRange` of values read with `readRange` -/
def uninitialized_copySk : List Sk := [
  .decl "using T=typename std::iterator_traits<ForwardIt>::value_type",
  .loop ";b!=e;++b,(void)++d" [
      .stmt "::new(d)T(*b)"]]

/-- `uninitialized_move(b, e, d)` — Model `moveOutRange` + `constructRange` -/
def uninitialized_moveSk : List Sk := [
  .decl "using T=typename std::iterator_traits<ForwardIt>::value_type",
  .loop ";b!=e;++b,(void)++d" [
      .stmt "::new(d)T(std::move(*b))"]]

/-- `operator==` — Model `svEq` (`vecEq`: same size and element-wise `T::operator==`) -/
def opEqSk : List Sk := [
  .ret "lhs.size()==rhs.size()&&std::equal(std::begin(lhs),std::end(lhs),std::begin(rhs))"]

/-- `operator!=` — Model `svCmp .ne` -/
def opNeSk : List Sk := [
  .ret "!operator==(lhs,rhs)"]

/-- `operator<` — Model `svLt` (`lexLt` with `T::operator<`) -/
def opLtSk : List Sk := [
  .ret "std::lexicographical_compare(std::begin(lhs),std::end(lhs),std::begin(rhs),std::end(rhs))"]

/-- `operator>` — Model `svCmp .gt` -/
def opGtSk : List Sk := [
  .ret "operator<(rhs,lhs)"]

/-- `operator>=` — Model `svCmp .ge` -/
def opGeSk : List Sk := [
  .ret "!operator<(lhs,rhs)"]

/-- `operator<=` — Model `svCmp .le` -/
def opLeSk : List Sk := [
  .ret "!operator>(lhs,rhs)"]

/-- the functions of small_vector.{h,tcc}, in source order -/
def functions : List String := ["indexConstSk", "indexSk", "dataSk", "dataConstSk", "beginSk", "endSk", "cbeginSk", "cendSk", "beginConstSk", "endConstSk", "rbeginSk", "rendSk", "rbeginConstSk", "rendConstSk", "sizeSk", "capacitySk", "max_sizeSk", "emptySk", "frontSk", "frontConstSk", "backSk", "backConstSk", "local_storage_usedSk", "ctorNSk", "ctorNXSk", "ctorListSk", "ctorCopySk", "ctorMoveSk", "assignCopySk", "assignMoveSk", "dtorSk", "clearSk", "push_backSk", "emplace_backSk", "appendSk", "insertSk", "resizeSk", "reserveSk", "free_heap_memorySk", "growNSk", "growSk", "destroy_rangeSk", "uninitialized_copySk", "uninitialized_moveSk", "opEqSk", "opNeSk", "opLtSk", "opGtSk", "opGeSk", "opLeSk"]

/-- member signature (element type and instantiation abstracted) ↦ the model definition that covers it -/
def covered : List (String × String) := [
  ("begin()", "iterFwd (iterGo from index 0), positions of insert"),
  ("begin() const", "iterFwd"),
  ("end()", "iterFwd (index size), append position"),
  ("end() const", "iterFwd"),
  ("cbegin() const", "iterFwd"),
  ("cend() const", "iterFwd"),
  ("rbegin()", "iterRev"),
  ("rbegin() const", "iterRev"),
  ("rend()", "iterRev"),
  ("rend() const", "iterRev"),
  ("data()", "dataAt / setData"),
  ("data() const", "dataAt"),
  ("capacity() const", "SV.cap, capOk"),
  ("max_size() const", "maxSize"),
  ("empty() const", "Op.empty"),
  ("size() const", "Op.size"),
  ("front()", "frontAt / setFront"),
  ("front() const", "frontAt"),
  ("back()", "backAt / setBack"),
  ("back() const", "backAt"),
  ("operator[](size_type)", "setAt / getAt"),
  ("operator[](size_type) const", "getAt"),
  ("free_heap_memory()", "freeHeap"),
  ("grow()", "grow with Cfg.growth"),
  ("grow(size_type)", "grow"),
  ("local_storage_used() const", "SV.isLocal"),
  ("operator=(const small_vector &)", "assignCopy / Op.assignSelf"),
  ("operator=(small_vector &&)", "assignMove"),
  ("push_back(const T &)", "pushBack"),
  ("emplace_back(Args &&...)", "emplaceBack"),
  ("insert(iterator, IT, IT)", "insert / insertR"),
  ("append(IT, IT)", "append"),
  ("clear()", "clear"),
  ("resize(size_type)", "resize"),
  ("reserve(size_type)", "reserve"),
  ("small_vector(size_type)", "ctorN"),
  ("small_vector(size_type, const T &)", "ctorNX"),
  ("small_vector(initializer_list<T>)", "ctorList"),
  ("small_vector(const small_vector &)", "ctorCopy"),
  ("small_vector(small_vector &&)", "ctorMove"),
  ("~small_vector()", "dtor"),
  ("operator==(const small_vector &, const small_vector &)", "svCmp .eq"),
  ("operator!=(const small_vector &, const small_vector &)", "svCmp .ne"),
  ("operator<(const small_vector &, const small_vector &)", "svCmp .lt"),
  ("operator>(const small_vector &, const small_vector &)", "svCmp .gt"),
  ("operator<=(const small_vector &, const small_vector &)", "svCmp .le"),
  ("operator>=(const small_vector &, const small_vector &)", "svCmp .ge")
]

end Vita.C20.Skeleton
