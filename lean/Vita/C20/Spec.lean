/-
  C20 — the reference semantics: `std::vector<T>` as `List α`, a moved-from vector as `none`
  ("valid but unspecified": it may only be assigned to, cleared, re-constructed or destroyed).
-/
import Vita.C20.Lemmas
namespace Vita.C20

structure SpecM (α : Type) where
  a : Option (List α)
  b : Option (List α)

variable {α : Type}

def SpecM.get (m : SpecM α) (r : Bool) : Option (List α) := if r then m.b else m.a
def SpecM.put (m : SpecM α) (r : Bool) (l : Option (List α)) : SpecM α :=
  if r then { m with b := l } else { m with a := l }
def SpecM.init : SpecM α := ⟨some [], some []⟩

/-- one operation on `std::vector`s; `none` = the request violates a precondition
    (position / index out of range, use of a moved-from vector) -/
def specStep (c : Cfg α) (eq lt : α → α → Bool) (sp : SpecM α) (r : Bool) :
    Op α → Option (SpecM α × Obs α)
  | .ctorN n => some (sp.put r (some (List.replicate n c.dflt)), .none)
  | .ctorNX n v => some (sp.put r (some (List.replicate n v)), .none)
  | .ctorList xs => some (sp.put r (some xs), .none)
  | .ctorCopy | .assignCopy =>
    match sp.get (!r) with
    | some l => some (sp.put r (some l), .none)
    | none => none
  | .ctorMove | .assignMove =>
    match sp.get (!r) with
    | some l => some ((sp.put r (some l)).put (!r) none, .none)
    | none => none
  | .assignSelf => some (sp, .none)
  | .clear => some (sp.put r (some []), .none)
  | .pushBack x | .emplaceBack x =>
    match sp.get r with
    | some l =>
      match srcVal l x with
      | some v => some (sp.put r (some (l ++ [v])), .none)
      | none => none
    | none => none
  | .insert pos xs =>
    match sp.get r with
    | some l => if pos ≤ l.length then some (sp.put r (some (l.take pos ++ xs ++ l.drop pos)), .nat pos) else none
    | none => none
  | .resize n =>
    match sp.get r with
    | some l => some (sp.put r (some (l.take n ++ List.replicate (n - l.length) c.dflt)), .none)
    | none => none
  | .reserve _ =>
    match sp.get r with
    | some _ => some (sp, .none)
    | none => none
  | .setAt i v =>
    match sp.get r with
    | some l => if i < l.length then some (sp.put r (some (l.set i v)), .none) else none
    | none => none
  | .getAt i =>
    match sp.get r with
    | some l =>
      match l[i]? with
      | some v => some (sp, .val v)
      | none => none
    | none => none
  | .cmp k =>
    match sp.get r, sp.get (!r) with
    | some lx, some ly => some (sp, .bool (vecCmp eq lt k lx ly))
    | _, _ => none
  | .cmpMixed _ k flip =>
    match sp.get r, sp.get (!r) with
    | some lx, some ly => some (sp, .bool (if flip then vecCmp eq lt k ly lx else vecCmp eq lt k lx ly))
    | _, _ => none
  | .front =>
    match sp.get r with
    | some l =>
      match l[0]? with
      | some v => some (sp, .val v)
      | none => none
    | none => none
  | .back =>
    match sp.get r with
    | some l =>
      match l[l.length - 1]? with
      | some v => some (sp, .val v)
      | none => none
    | none => none
  | .setFront v =>
    match sp.get r with
    | some l => if 0 < l.length then some (sp.put r (some (l.set 0 v)), .none) else none
    | none => none
  | .setBack v =>
    match sp.get r with
    | some l => if 0 < l.length then some (sp.put r (some (l.set (l.length - 1) v)), .none) else none
    | none => none
  | .dataAt i =>
    match sp.get r with
    | some l =>
      match l[i]? with
      | some v => some (sp, .val v)
      | none => none
    | none => none
  | .setData i v =>
    match sp.get r with
    | some l => if i < l.length then some (sp.put r (some (l.set i v)), .none) else none
    | none => none
  | .iterFwd =>
    match sp.get r with
    | some l => some (sp, .list l)
    | none => none
  | .iterRev =>
    match sp.get r with
    | some l => some (sp, .list l.reverse)
    | none => none
  | .empty =>
    match sp.get r with
    | some l => some (sp, .bool (l.length == 0))
    | none => none
  | .size =>
    match sp.get r with
    | some l => some (sp, .nat l.length)
    | none => none
  | .capOk =>
    match sp.get r with
    | some _ => some (sp, .bool true)
    | none => none
  | .maxSize => some (sp, .nat maxSize)

def specRun (c : Cfg α) (eq lt : α → α → Bool) :
    SpecM α → List (Bool × Op α) → Option (SpecM α × List (Obs α))
  | sp, [] => some (sp, [])
  | sp, (r, op) :: rest =>
    match specStep c eq lt sp r op with
    | none => none
    | some (sp1, o) =>
      match specRun c eq lt sp1 rest with
      | none => none
      | some (sp2, os) => some (sp2, o :: os)

end Vita.C20
