/-
  Numbers and values shared by the numeric models.

  * `FloatOps F`  : the operations on C++ `double` that vita's primitives use, over an
                    abstract carrier `F`.  Theorems are proved for every `F`; execution
                    (compiled drivers) uses the hardware instance `FloatOps Float`, whose
                    operations are the very C functions g++ calls (`fmod`, `fmin`, `fmax`
                    are bound with `@[extern]`, the others are Lean's `Float` primitives,
                    i.e. the C operators / libm functions of the same name).
  * `Val F`       : mirror of `vita::value_t = std::variant<monostate,int,double,string>`.
  * `IEEELaws F`  : the IEEE-754 / libm facts the proofs cite, as a structure of
                    *hypotheses* (never axioms).  Lean's `Float` is opaque to the kernel, so
                    no theorem is about hardware doubles; each law is spot-checked on the
                    boundary table by the C13 driver (`lawcheck`), labelled a test.
-/
import Vita.Common.Prog
namespace Vita

class FloatOps (F : Type) where
  ofBits : UInt64 → F
  toBits : F → UInt64
  add : F → F → F
  sub : F → F → F
  mul : F → F → F
  div : F → F → F
  neg : F → F
  fabs : F → F
  floor : F → F
  sqrt : F → F
  log : F → F
  exp : F → F
  sin : F → F
  cos : F → F
  fmod : F → F → F
  fmin : F → F → F
  fmax : F → F → F
  /-- `std::isfinite` -/
  isFinite : F → Bool
  /-- `a < b` / `std::isless(a,b)` (same value; they differ only in the FP exception flags) -/
  lt : F → F → Bool
  /-- `a <= b` -/
  le : F → F → Bool
  /-- `a == b` (IEEE: `-0 == +0`, `NaN != NaN`) -/
  eq : F → F → Bool
  /-- conversion from an unsigned integer (`static_cast<double>(std::size_t)`) -/
  ofNat : Nat → F
  /-- conversion from `int` (`static_cast<double>(int)`), exact -/
  ofInt : Int → F
  /-- `static_cast<int>(double)`: truncation (defined in C++ only when the result fits) -/
  toInt : F → Int

namespace FloatOps
variable {F : Type} [FloatOps F]
/-- `a > b` / `std::isgreater(a,b)` -/
abbrev gt (a b : F) : Bool := lt b a
/-- `a >= b` -/
abbrev ge (a b : F) : Bool := le b a
/-- the literals that occur in the sources -/
abbrev zero : F := ofBits 0x0000000000000000
abbrev one : F := ofBits 0x3FF0000000000000
end FloatOps

/-! ### hardware instance -/

@[extern "fmod"] opaque cFmod : Float → Float → Float
@[extern "fmin"] opaque cFmin : Float → Float → Float
@[extern "fmax"] opaque cFmax : Float → Float → Float

instance : FloatOps Float where
  ofBits := Float.ofBits
  toBits := Float.toBits
  add a b := a + b
  sub a b := a - b
  mul a b := a * b
  div a b := a / b
  neg a := -a
  fabs := Float.abs
  floor := Float.floor
  sqrt := Float.sqrt
  log := Float.log
  exp := Float.exp
  sin := Float.sin
  cos := Float.cos
  fmod := cFmod
  fmin := cFmin
  fmax := cFmax
  isFinite := Float.isFinite
  lt a b := decide (a < b)
  le a b := decide (a ≤ b)
  eq a b := a == b
  ofNat := Float.ofNat
  ofInt := Float.ofInt
  toInt a := a.toInt32.toInt

/-! ### values -/

inductive Val (F : Type) where
  | void
  | int (n : Int)
  | dbl (x : F)
  | str (s : String)
  deriving DecidableEq

namespace Val
variable {F : Type}

/-- `has_value(v)` -/
def hasValue : Val F → Bool
  | .void => false
  | _ => true

/-- `value_t(bool)`: the converting constructor of the variant selects `int` -/
def ofBool (b : Bool) : Val F := .int (if b then 1 else 0)

/-- `v0 == v1` on the variant: same alternative and equal contents (doubles: IEEE `==`) -/
def eqv [FloatOps F] : Val F → Val F → Bool
  | .void, .void => true
  | .int a, .int b => decide (a = b)
  | .dbl a, .dbl b => FloatOps.eq a b
  | .str a, .str b => decide (a = b)
  | _, _ => false

/-- `std::get<double>(v)` / `real::base(v)`: the double inside, else `bad_variant_access` -/
def withDbl {P : Type} (v : Val F) (k : F → Prog P (Val F)) : Prog P (Val F) :=
  match v with
  | .dbl x => k x
  | _ => .throw

/-- `std::get<std::string>(v)` -/
def withStr {P : Type} (v : Val F) (k : String → Prog P (Val F)) : Prog P (Val F) :=
  match v with
  | .str s => k s
  | _ => .throw

/-- `std::get<int>(v)` / `integer::cast(v)` -/
def withInt {P : Type} (v : Val F) (k : Int → Prog P (Val F)) : Prog P (Val F) :=
  match v with
  | .int n => k n
  | _ => .throw

end Val

/-- A value that the real-valued primitives may be given / may return: a double is finite;
    a string has a length that fits `std::size_t`; `void` and integers pass. -/
def Good {F : Type} [FloatOps F] : Val F → Prop
  | .dbl x => FloatOps.isFinite x = true
  | .str s => s.utf8ByteSize < 2 ^ 64
  | _ => True

/-- `Good` lifted to outcomes (`none` = an exception left `eval`: neither NaN nor infinite). -/
def GoodO {F : Type} [FloatOps F] : Option (Val F) → Prop
  | none => True
  | some v => Good v

/-! ### IEEE-754 / libm laws (hypotheses) -/

open FloatOps in
structure IEEELaws (F : Type) [FloatOps F] : Prop where
  /-- |x| of a finite value is finite -/
  fabs_fin : ∀ x : F, isFinite x = true → isFinite (fabs x) = true
  sin_fin : ∀ x : F, isFinite x = true → isFinite (sin x) = true
  cos_fin : ∀ x : F, isFinite x = true → isFinite (cos x) = true
  /-- sqrt of a finite value that is not below zero (this includes -0) is finite -/
  sqrt_fin : ∀ x : F, isFinite x = true → lt x zero = false → isFinite (sqrt x) = true
  neg_fin : ∀ x : F, isFinite x = true → isFinite (neg x) = true
  /-- `0 ≤ x → -x ≤ 0` -/
  neg_nonpos : ∀ x : F, le zero x = true → le (neg x) zero = true
  /-- a finite value that is not `≥ 0` is `≤ 0` -/
  le_total_zero : ∀ x : F, isFinite x = true → le zero x = false → le x zero = true
  /-- `x ≤ 0 → 0 ≤ exp x ≤ 1` -/
  exp_unit : ∀ x : F, isFinite x = true → le x zero = true →
    le zero (exp x) = true ∧ le (exp x) one = true
  /-- values in [0,1] are finite -/
  unit_fin : ∀ y : F, le zero y = true → le y one = true → isFinite y = true
  /-- `0 ≤ y ≤ 1 → 1 + y` is finite and `≥ 1` (rounding is monotone) -/
  one_add_unit : ∀ y : F, le zero y = true → le y one = true →
    isFinite (add one y) = true ∧ le one (add one y) = true
  one_fin : isFinite (one : F) = true
  /-- a finite value divided by a finite value `≥ 1` is finite -/
  div_ge_one_fin : ∀ a d : F, isFinite a = true → isFinite d = true → le one d = true →
    isFinite (div a d) = true
  /-- a `std::size_t` converts to a finite double -/
  ofNat_fin : ∀ n : Nat, n < 2 ^ 64 → isFinite (ofNat n : F) = true

end Vita
