/-
  Deep embedding of the side-effect free C++ integer expressions that the
  translator `tools/translate_int.py` extracts from `src/kernel/gp/src/primitive/int.h`
  (and other integer code).  Only *syntax* is generated; every meaning below is
  written and proved here, once.

  * `evalZ`  : ideal (unbounded) value of an expression
  * `safe`   : the verification condition "no signed overflow, no division by
               zero, no INT_MIN / -1, no invalid shift, no lossy narrowing"
               following C++17's evaluation order (short-circuit `&&`, `||`, `?:`)
  * `evalC`  : executable checked evaluation, faults instead of wrapping
  * `safe_sound` : `safe ρ e → evalC ρ e = .ok (evalZ ρ e)`
-/
namespace Vita.IntE

inductive W | i32 | i64
  deriving DecidableEq, Repr

def W.lo : W → Int
  | .i32 => -2147483648
  | .i64 => -9223372036854775808

def W.hi : W → Int
  | .i32 => 2147483647
  | .i64 => 9223372036854775807

def W.bits : W → Int
  | .i32 => 32
  | .i64 => 64

def InW (w : W) (x : Int) : Prop := w.lo ≤ x ∧ x ≤ w.hi

instance (w : W) (x : Int) : Decidable (InW w x) := by unfold InW; exact inferInstance

abbrev In32 (x : Int) : Prop := InW .i32 x

@[simp] theorem lo_i32 : W.lo .i32 = -2147483648 := rfl
@[simp] theorem hi_i32 : W.hi .i32 = 2147483647 := rfl
@[simp] theorem lo_i64 : W.lo .i64 = -9223372036854775808 := rfl
@[simp] theorem hi_i64 : W.hi .i64 = 9223372036854775807 := rfl
@[simp] theorem bits_i32 : W.bits .i32 = 32 := rfl
@[simp] theorem bits_i64 : W.bits .i64 = 64 := rfl
theorem in32_iff (x : Int) : In32 x ↔ -2147483648 ≤ x ∧ x ≤ 2147483647 := Iff.rfl
theorem inW32_iff (x : Int) : InW .i32 x ↔ -2147483648 ≤ x ∧ x ≤ 2147483647 := Iff.rfl
theorem inW64_iff (x : Int) : InW .i64 x ↔ -9223372036854775808 ≤ x ∧ x ≤ 9223372036854775807 := Iff.rfl

inductive BinOp | add | sub | mul | div | mod | shl | shr
  deriving DecidableEq, Repr

inductive CmpOp | lt | gt | le | ge | eq | ne
  deriving DecidableEq, Repr

/-- Expressions.  `var i` is `integer::cast(args[i])`, `arg i` is the raw
    `args[i]` handed back by `return args[i]`. -/
inductive E
  | lit (n : Int)
  | var (i : Nat)
  | arg (i : Nat)
  | bin (op : BinOp) (w : W) (a b : E)
  | cmp (op : CmpOp) (a b : E)
  | not (a : E)
  | and (a b : E)
  | or (a b : E)
  | ite (c t e : E)
  | cast (w : W) (a : E)
  deriving Repr

structure Env where
  v : Nat → Int   -- integer::cast(args[i])
  a : Nat → Int   -- args[i] as returned unchanged

def b2i (b : Bool) : Int := if b then 1 else 0

def cmpZ : CmpOp → Int → Int → Bool
  | .lt, x, y => decide (x < y)
  | .gt, x, y => decide (x > y)
  | .le, x, y => decide (x ≤ y)
  | .ge, x, y => decide (x ≥ y)
  | .eq, x, y => decide (x = y)
  | .ne, x, y => decide (x ≠ y)

/-- Ideal value of a binary operator (C++ semantics where defined). -/
def binZ : BinOp → Int → Int → Int
  | .add, x, y => x + y
  | .sub, x, y => x - y
  | .mul, x, y => x * y
  | .div, x, y => Int.tdiv x y
  | .mod, x, y => Int.tmod x y
  | .shl, x, y => x * 2 ^ y.toNat
  | .shr, x, y => x / 2 ^ y.toNat

/-- C++17 definedness of a binary operator evaluated at width `w`. -/
def binOK : BinOp → W → Int → Int → Prop
  | .add, w, x, y => InW w (x + y)
  | .sub, w, x, y => InW w (x - y)
  | .mul, w, x, y => InW w (x * y)
  | .div, w, x, y => y ≠ 0 ∧ ¬ (x = w.lo ∧ y = -1)
  | .mod, w, x, y => y ≠ 0 ∧ ¬ (x = w.lo ∧ y = -1)
  | .shl, w, x, y => 0 ≤ x ∧ 0 ≤ y ∧ y < w.bits ∧ InW w (x * 2 ^ y.toNat)
  | .shr, w, _, y => 0 ≤ y ∧ y < w.bits

instance (op : BinOp) (w : W) (x y : Int) : Decidable (binOK op w x y) := by
  cases op <;> unfold binOK <;> exact inferInstance

def evalZ (ρ : Env) : E → Int
  | .lit n => n
  | .var i => ρ.v i
  | .arg i => ρ.a i
  | .bin op _ a b => binZ op (evalZ ρ a) (evalZ ρ b)
  | .cmp op a b => b2i (cmpZ op (evalZ ρ a) (evalZ ρ b))
  | .not a => b2i (evalZ ρ a == 0)
  | .and a b => if evalZ ρ a ≠ 0 then b2i (evalZ ρ b != 0) else 0
  | .or a b => if evalZ ρ a ≠ 0 then 1 else b2i (evalZ ρ b != 0)
  | .ite c t e => if evalZ ρ c ≠ 0 then evalZ ρ t else evalZ ρ e
  | .cast _ a => evalZ ρ a

/-- Verification condition, following C++ evaluation order. -/
def safe (ρ : Env) : E → Prop
  | .lit _ => True
  | .var _ => True
  | .arg _ => True
  | .bin op w a b => safe ρ a ∧ safe ρ b ∧ binOK op w (evalZ ρ a) (evalZ ρ b)
  | .cmp _ a b => safe ρ a ∧ safe ρ b
  | .not a => safe ρ a
  | .and a b => safe ρ a ∧ (evalZ ρ a ≠ 0 → safe ρ b)
  | .or a b => safe ρ a ∧ (evalZ ρ a = 0 → safe ρ b)
  | .ite c t e => safe ρ c ∧ (evalZ ρ c ≠ 0 → safe ρ t) ∧ (evalZ ρ c = 0 → safe ρ e)
  | .cast w a => safe ρ a ∧ InW w (evalZ ρ a)

inductive Fault | overflow | divzero | badshift | narrowing
  deriving DecidableEq, Repr

def binFault : BinOp → Fault
  | .add | .sub | .mul => .overflow
  | .div | .mod => .divzero
  | .shl | .shr => .badshift

/-- Checked, executable evaluation. -/
def evalC (ρ : Env) : E → Except Fault Int
  | .lit n => .ok n
  | .var i => .ok (ρ.v i)
  | .arg i => .ok (ρ.a i)
  | .bin op w a b =>
      match evalC ρ a with
      | .error f => .error f
      | .ok x =>
        match evalC ρ b with
        | .error f => .error f
        | .ok y => if binOK op w x y then .ok (binZ op x y) else .error (binFault op)
  | .cmp op a b =>
      match evalC ρ a with
      | .error f => .error f
      | .ok x =>
        match evalC ρ b with
        | .error f => .error f
        | .ok y => .ok (b2i (cmpZ op x y))
  | .not a =>
      match evalC ρ a with
      | .error f => .error f
      | .ok x => .ok (b2i (x == 0))
  | .and a b =>
      match evalC ρ a with
      | .error f => .error f
      | .ok x =>
        if x ≠ 0 then
          match evalC ρ b with
          | .error f => .error f
          | .ok y => .ok (b2i (y != 0))
        else .ok 0
  | .or a b =>
      match evalC ρ a with
      | .error f => .error f
      | .ok x =>
        if x ≠ 0 then .ok 1 else
          match evalC ρ b with
          | .error f => .error f
          | .ok y => .ok (b2i (y != 0))
  | .ite c t e =>
      match evalC ρ c with
      | .error f => .error f
      | .ok x => if x ≠ 0 then evalC ρ t else evalC ρ e
  | .cast w a =>
      match evalC ρ a with
      | .error f => .error f
      | .ok x => if InW w x then .ok x else .error .narrowing

theorem safe_sound (ρ : Env) : ∀ e, safe ρ e → evalC ρ e = .ok (evalZ ρ e) := by
  intro e
  induction e with
  | lit n => intro _; rfl
  | var i => intro _; rfl
  | arg i => intro _; rfl
  | bin op w a b iha ihb =>
    intro h
    obtain ⟨ha, hb, hok⟩ := h
    simp only [evalC, iha ha, ihb hb, evalZ]
    simp [hok]
  | cmp op a b iha ihb =>
    intro h
    obtain ⟨ha, hb⟩ := h
    simp only [evalC, iha ha, ihb hb, evalZ]
  | not a iha =>
    intro h
    simp only [evalC, iha h, evalZ]
  | and a b iha ihb =>
    intro h
    obtain ⟨ha, hb⟩ := h
    simp only [evalC, iha ha, evalZ]
    by_cases hz : evalZ ρ a ≠ 0
    · rw [if_pos hz, if_pos hz, ihb (hb hz)]
    · rw [if_neg hz, if_neg hz]
  | or a b iha ihb =>
    intro h
    obtain ⟨ha, hb⟩ := h
    simp only [evalC, iha ha, evalZ]
    by_cases hz : evalZ ρ a ≠ 0
    · rw [if_pos hz, if_pos hz]
    · have hz' : evalZ ρ a = 0 := by omega
      rw [if_neg hz, if_neg hz, ihb (hb hz')]
  | ite c t e ihc iht ihe =>
    intro h
    obtain ⟨hc, ht, he⟩ := h
    simp only [evalC, ihc hc, evalZ]
    by_cases hz : evalZ ρ c ≠ 0
    · rw [if_pos hz, if_pos hz, iht (ht hz)]
    · have hz' : evalZ ρ c = 0 := by omega
      rw [if_neg hz, if_neg hz, ihe (he hz')]
  | cast w a iha =>
    intro h
    obtain ⟨ha, hin⟩ := h
    simp only [evalC, iha ha, evalZ]
    simp [hin]

/-- The complete, checked behaviour of a primitive whose body is `e`. -/
def run (e : E) (ρ : Env) : Except Fault Int := evalC ρ e

def clamp32 (x : Int) : Int :=
  if x > 2147483647 then 2147483647 else if x < -2147483648 then -2147483648 else x

end Vita.IntE
