/-
  MurmurHash3 x64 128 (Austin Appleby) as written in src/kernel/cache_hash.h
  (`murmurhash3::hash128`, default seed 1973) and `hash_t::combine`, on `UInt64`.

  Self-contained and executable (no proofs depend on it): it is the model used to
  *execute* signatures (C03 informational tie, later C04/C11).  The C03 theorems are
  parametric in the hash function and never unfold these definitions.
-/
namespace Vita.Murmur

/-- `hash_t`: two 64-bit words; "128 zero bits means empty". -/
structure Hash where
  d0 : UInt64
  d1 : UInt64
deriving DecidableEq, Repr, Inhabited

def Hash.zero : Hash := ⟨0, 0⟩
def Hash.isEmpty (h : Hash) : Bool := h.d0 == 0 && h.d1 == 0

/-- `hash_t::combine`: `data[k] = data[k] * 37 + h.data[k]` (mod 2^64). -/
def Hash.combine (a h : Hash) : Hash := ⟨a.d0 * 37 + h.d0, a.d1 * 37 + h.d1⟩

def c1 : UInt64 := 0x87c37b91114253d5
def c2 : UInt64 := 0x4cf5ad432745937f

/-- `ROTL64(x, r)` for 0 < r < 64. -/
def rotl (x : UInt64) (r : UInt64) : UInt64 := (x <<< r) ||| (x >>> (64 - r))

def fmix (k : UInt64) : UInt64 :=
  let k := k ^^^ (k >>> 33)
  let k := k * 0xff51afd7ed558ccd
  let k := k ^^^ (k >>> 33)
  let k := k * 0xc4ceb9fe1a85ec53
  k ^^^ (k >>> 33)

/-- little-endian 64-bit word made of (at most) the first eight bytes of a list
    (`get_block` = memcpy on a little-endian machine; the tail `switch` builds the same
    value from fewer bytes). -/
def le64 : List UInt8 → UInt64
  | [] => 0
  | b :: bs => b.toUInt64 ||| (le64' 1 bs)
where
  le64' : Nat → List UInt8 → UInt64
    | _, [] => 0
    | n, b :: bs => if n ≥ 8 then 0 else (b.toUInt64 <<< (8 * n).toUInt64) ||| le64' (n + 1) bs

def mixK1 (k1 : UInt64) : UInt64 := (rotl (k1 * c1) 31) * c2
def mixK2 (k2 : UInt64) : UInt64 := (rotl (k2 * c2) 33) * c1

/-- one 16-byte block of the body loop -/
def bodyStep (h : Hash) (k1 k2 : UInt64) : Hash :=
  let h0 := h.d0 ^^^ mixK1 k1
  let h0 := rotl h0 27
  let h0 := h0 + h.d1
  let h0 := h0 * 5 + 0x52dce729
  let h1 := h.d1 ^^^ mixK2 k2
  let h1 := rotl h1 31
  let h1 := h1 + h0
  let h1 := h1 * 5 + 0x38495ab5
  ⟨h0, h1⟩

/-- body loop over the full 16-byte blocks; returns the state and the tail (< 16 bytes).
    `fuel` bounds the number of blocks (call with `bytes.length`). -/
def body : Nat → Hash → List UInt8 → Hash × List UInt8
  | 0, h, bs => (h, bs)
  | fuel + 1, h, bs =>
    if bs.length < 16 then (h, bs)
    else body fuel (bodyStep h (le64 (bs.take 8)) (le64 ((bs.drop 8).take 8))) (bs.drop 16)

/-- the tail `switch (len & 15)` with its fall-throughs -/
def tailStep (h : Hash) (tail : List UInt8) : Hash :=
  let n := tail.length
  let h1 := if n ≥ 9 then h.d1 ^^^ mixK2 (le64 (tail.drop 8)) else h.d1
  let h0 := if n ≥ 1 then h.d0 ^^^ mixK1 (le64 (tail.take 8)) else h.d0
  ⟨h0, h1⟩

def finish (h : Hash) (len : Nat) : Hash :=
  let l := len.toUInt64
  let h0 := h.d0 ^^^ l
  let h1 := h.d1 ^^^ l
  let h0 := h0 + h1
  let h1 := h1 + h0
  let h0 := fmix h0
  let h1 := fmix h1
  let h0 := h0 + h1
  let h1 := h1 + h0
  ⟨h0, h1⟩

/-- `murmurhash3::hash128(data, len, seed)` -/
def hash128 (bytes : List UInt8) (seed : UInt64 := 1973) : Hash :=
  let (h, tail) := body bytes.length ⟨seed, seed⟩ bytes
  finish (tailStep h tail) bytes.length

end Vita.Murmur
