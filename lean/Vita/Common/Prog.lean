/-
  Interaction trees for the `eval` bodies of vita's symbols.

  A symbol's `eval(symbol_params &)` talks to its caller only through the virtual
  functions of `symbol_params` (core_interpreter.h):
      fetch_arg(i) = args[i]   (lazy: the i-th argument is evaluated on demand)
      fetch_param()            (the numeric parameter stored in the gene)
      fetch_var(i)             (the i-th feature of the current example)
  and may leave by an exception (`std::get` on the wrong alternative).
  `Prog P V` is exactly that protocol, as data: laziness, early returns and the
  order of the requests are literally the C++ control flow.

  * `runPure`        : reference semantics, arguments given as a function
  * `asked`          : the argument positions requested on a given input
  * `Bounded n`      : only arguments `< n` are ever requested
  * `Tree`, `Tree.eval` : expression trees and their recursive evaluation
-/
namespace Vita

inductive Prog (P V : Type) where
  | ret   : V → Prog P V
  | throw : Prog P V
  | fetch : Nat → (V → Prog P V) → Prog P V
  | param : (P → Prog P V) → Prog P V
  | var   : Nat → (V → Prog P V) → Prog P V

namespace Prog
variable {P V : Type}

/-- Reference semantics.  `argv i = none` means: evaluating argument `i` raised an
    exception, which then propagates (nothing after it is executed). -/
def runPure (argv : Nat → Option V) (par : P) (vars : Nat → V) : Prog P V → Option V
  | .ret v => some v
  | .throw => none
  | .fetch i k =>
    match argv i with
    | none => none
    | some v => (k v).runPure argv par vars
  | .param k => (k par).runPure argv par vars
  | .var i k => (k (vars i)).runPure argv par vars

/-- Argument positions the body asks for on this input, in request order. -/
def asked (argv : Nat → Option V) (par : P) (vars : Nat → V) : Prog P V → List Nat
  | .ret _ => []
  | .throw => []
  | .fetch i k =>
    match argv i with
    | none => [i]
    | some v => i :: (k v).asked argv par vars
  | .param k => (k par).asked argv par vars
  | .var i k => (k (vars i)).asked argv par vars

/-- The body never asks for an argument `≥ n`, whatever it is given. -/
def Bounded (n : Nat) : Prog P V → Prop
  | .ret _ => True
  | .throw => True
  | .fetch i k => i < n ∧ ∀ v, (k v).Bounded n
  | .param k => ∀ p, (k p).Bounded n
  | .var _ k => ∀ v, (k v).Bounded n

/-- The result depends only on the arguments that are asked for. -/
theorem runPure_congr_asked (argv argv' : Nat → Option V) (par : P) (vars : Nat → V) :
    ∀ p : Prog P V, (∀ i ∈ p.asked argv par vars, argv i = argv' i) →
      p.runPure argv par vars = p.runPure argv' par vars := by
  intro p
  induction p with
  | ret v => intro _; rfl
  | throw => intro _; rfl
  | fetch i k ih =>
    intro h
    simp only [runPure]
    cases hi : argv i with
    | none =>
      have : argv i = argv' i := h i (by simp [asked, hi])
      rw [← this, hi]
    | some v =>
      have hi' : argv i = argv' i := h i (by simp [asked, hi])
      rw [← hi', hi]
      exact ih v (fun j hj => h j (by simp [asked, hi, hj]))
  | param k ih => intro h; exact ih par h
  | var i k ih => intro h; exact ih (vars i) h

/-- … in particular only on the arguments below the bound. -/
theorem runPure_congr_bounded (n : Nat) (argv argv' : Nat → Option V) (par : P) (vars : Nat → V) :
    ∀ p : Prog P V, p.Bounded n → (∀ i, i < n → argv i = argv' i) →
      p.runPure argv par vars = p.runPure argv' par vars := by
  intro p
  induction p with
  | ret v => intros; rfl
  | throw => intros; rfl
  | fetch i k ih =>
    intro hb ha
    simp only [runPure]
    rw [← ha i hb.1]
    cases argv i with
    | none => rfl
    | some v => exact ih v (hb.2 v) ha
  | param k ih => intro hb ha; exact ih par (hb par) ha
  | var i k ih => intro hb ha; exact ih (vars i) (hb _) ha

theorem asked_lt_of_bounded (n : Nat) (argv : Nat → Option V) (par : P) (vars : Nat → V) :
    ∀ p : Prog P V, p.Bounded n → ∀ i ∈ p.asked argv par vars, i < n := by
  intro p
  induction p with
  | ret v => intro _ i hi; simp [asked] at hi
  | throw => intro _ i hi; simp [asked] at hi
  | fetch j k ih =>
    intro hb i hi
    simp only [asked] at hi
    cases hj : argv j with
    | none => simp [hj] at hi; subst hi; exact hb.1
    | some v =>
      simp [hj] at hi
      rcases hi with hi | hi
      · subst hi; exact hb.1
      · exact ih v (hb.2 v) i hi
  | param k ih => intro hb i hi; exact ih par (hb par) i hi
  | var j k ih => intro hb i hi; exact ih (vars j) (hb _) i hi

end Prog

/-- Expression trees: a node carries the body of its symbol, the gene's parameter and
    one sub-tree per argument position (`nil` beyond the arity). -/
inductive Tree (P V : Type) where
  | nil  : Tree P V
  | node : Prog P V → P → (Nat → Tree P V) → Tree P V

namespace Tree
variable {P V : Type}

/-- Recursive evaluation of a tree: each symbol applied to the values of its sub-trees. -/
def eval (vars : Nat → V) : Tree P V → Option V
  | .nil => none
  | .node body par kids => body.runPure (fun i => (kids i).eval vars) par vars

/-- every node of the tree satisfies `q` -/
def All (q : Prog P V → P → Prop) : Tree P V → Prop
  | .nil => True
  | .node body par kids => q body par ∧ ∀ i, (kids i).All q

end Tree
end Vita
