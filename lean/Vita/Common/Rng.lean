/-
  Shared, executable model of vita's pseudo-random generator
  (src/utility/xoshiro256ss.{h,cc}): `splitmix64` (seeding) and `xoshiro256**` on `UInt64`
  (wrap-around arithmetic = C++ `std::uint64_t`), plus libstdc++ 12's
  `std::uniform_int_distribution` as instantiated by `vita::random::between / sup` on this engine
  (64-bit URNG range → Lemire's multiply-shift with rejection, `_S_nd<unsigned __int128>`).
-/
namespace Vita.Rng

/-- `vigna::rotl(x, k)` for `0 < k < 64` -/
@[inline] def rotl (x : UInt64) (k : UInt64) : UInt64 := (x <<< k) ||| (x >>> (64 - k))

/-- `splitmix64::next`: returns (output, new state `x`) -/
def splitmixNext (x : UInt64) : UInt64 × UInt64 :=
  let x := x + 0x9E3779B97F4A7C15
  let z := x
  let z := (z ^^^ (z >>> 30)) * 0xBF58476D1CE4E5B9
  let z := (z ^^^ (z >>> 27)) * 0x94D049BB133111EB
  (z ^^^ (z >>> 31), x)

/-- `xoshiro256ss::state` -/
structure Xo where
  s0 : UInt64
  s1 : UInt64
  s2 : UInt64
  s3 : UInt64
deriving DecidableEq, Repr

namespace Xo

def defSeed : UInt64 := 0xcced1fc561884152

/-- `xoshiro256ss::seed(s)` (`s == 0` selects the default seed; `seed_with_sm64` fills the state) -/
def seed (s : UInt64) : Xo :=
  let s := if s == 0 then defSeed else s
  let (a, x) := splitmixNext s
  let (b, x) := splitmixNext x
  let (c, x) := splitmixNext x
  let (d, _) := splitmixNext x
  ⟨a, b, c, d⟩

/-- `xoshiro256ss::operator()` : (result, new state) -/
def next (e : Xo) : UInt64 × Xo :=
  let result := rotl (e.s1 * 5) 7 * 9
  let t := e.s1 <<< 17
  let s2 := e.s2 ^^^ e.s0
  let s3 := e.s3 ^^^ e.s1
  let s1 := e.s1 ^^^ s2
  let s0 := e.s0 ^^^ s3
  let s2 := s2 ^^^ t
  let s3 := rotl s3 45
  (result, ⟨s0, s1, s2, s3⟩)

/-- `state[i]` for `i < 4` -/
def get (e : Xo) (i : Nat) : UInt64 :=
  match i with
  | 0 => e.s0 | 1 => e.s1 | 2 => e.s2 | _ => e.s3

/-- `state[i] = v` for `i < 4` -/
def set (e : Xo) (i : Nat) (v : UInt64) : Xo :=
  match i with
  | 0 => { e with s0 := v } | 1 => { e with s1 := v } | 2 => { e with s2 := v } | _ => { e with s3 := v }

/-- the engine after `k` draws -/
def advance (e : Xo) : Nat → Xo
  | 0 => e
  | k + 1 => advance (e.next).2 k

/-- the `n`-th number (0-based) the engine will produce -/
def nth (e : Xo) (n : Nat) : UInt64 := ((e.advance n).next).1

/-- the first `n` outputs -/
def take (e : Xo) : Nat → List UInt64
  | 0 => []
  | n + 1 => (e.next).1 :: take (e.next).2 n

end Xo

/-- libstdc++ `uniform_int_distribution::_S_nd<unsigned __int128>(g, range)` for `0 < range`:
    uniform value in `[0, range)`; `fuel` bounds the rejection loop (never exhausted in practice:
    each retry has probability < 1/2). -/
def lemire (range : UInt64) (e : Xo) (fuel : Nat := 64) : UInt64 × Xo :=
  let (g, e) := e.next
  let product : Nat := g.toNat * range.toNat
  let low : UInt64 := product.toUInt64
  if low < range then
    let threshold : UInt64 := (0 - range) % range
    let rec retry (fuel : Nat) (product : Nat) (e : Xo) : UInt64 × Xo :=
      if product.toUInt64 < threshold then
        match fuel with
        | 0 => ((product >>> 64).toUInt64, e)
        | f + 1 =>
          let (g, e) := e.next
          retry f (g.toNat * range.toNat) e
      else ((product >>> 64).toUInt64, e)
    retry fuel product e
  else ((product >>> 64).toUInt64, e)

/-- `std::uniform_int_distribution<T>(a, b)(engine)` for an integral `T` of at most 64 bits, as
    libstdc++ 12 evaluates it on a URNG with range `[0, 2^64)`; `a ≤ b` as mathematical integers,
    the result is `a + k` with `k` uniform in `[0, b − a]`. -/
def uniformInt (a b : Int) (e : Xo) : Int × Xo :=
  let urange : Nat := (b - a).toNat
  if urange = 2 ^ 64 - 1 then
    let (g, e) := e.next
    (a + g.toNat, e)
  else
    let (k, e) := lemire (urange + 1).toUInt64 e
    (a + k.toNat, e)

/-- `vita::random::between<integral>(min, sup)` = `uniform_int_distribution(min, sup - 1)` -/
def between (min sup : Int) (e : Xo) : Int × Xo := uniformInt min (sup - 1) e

/-- `vita::random::sup(n)` -/
def sup (n : Nat) (e : Xo) : Nat × Xo :=
  let (v, e) := between 0 n e
  (v.toNat, e)

end Vita.Rng
