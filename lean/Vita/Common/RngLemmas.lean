/-
  Range lemmas about the executable generator model (Vita/Common/Rng.lean): libstdc++'s
  uniform_int_distribution, as modelled, honours its range contract for every engine state.
-/
import Vita.Common.Rng
namespace Vita.Rng

theorem shift_lt (g r : Nat) (hg : g < 2 ^ 64) (hr : 0 < r) : (g * r) >>> 64 < r := by
  rw [Nat.shiftRight_eq_div_pow]
  apply Nat.div_lt_of_lt_mul
  exact Nat.mul_lt_mul_of_pos_right hg hr

theorem retry_lt (range threshold : UInt64) (hr : 0 < range.toNat) :
    ∀ (fuel : Nat) (g : UInt64) (e : Xo),
      (lemire.retry range threshold fuel (g.toNat * range.toNat) e).1.toNat < range.toNat := by
  intro fuel
  induction fuel with
  | zero =>
    intro g e
    unfold lemire.retry
    have h := shift_lt g.toNat range.toNat g.toNat_lt hr
    have h2 : ((g.toNat * range.toNat) >>> 64) < 2 ^ 64 := by have := range.toNat_lt; omega
    split <;> simp [Nat.toUInt64, Nat.mod_eq_of_lt h2, h]
  | succ f ih =>
    intro g e
    unfold lemire.retry
    have h := shift_lt g.toNat range.toNat g.toNat_lt hr
    have h2 : ((g.toNat * range.toNat) >>> 64) < 2 ^ 64 := by have := range.toNat_lt; omega
    split
    · exact ih _ _
    · simp [Nat.toUInt64, Nat.mod_eq_of_lt h2, h]

theorem lemire_lt (range : UInt64) (hr : 0 < range.toNat) (e : Xo) (fuel : Nat) :
    (lemire range e fuel).1.toNat < range.toNat := by
  unfold lemire
  simp only
  have h := shift_lt (e.next).1.toNat range.toNat (e.next).1.toNat_lt hr
  have h2 : (((e.next).1.toNat * range.toNat) >>> 64) < 2 ^ 64 := by have := range.toNat_lt; omega
  split
  · exact retry_lt range _ hr fuel _ _
  · simp [Nat.toUInt64, Nat.mod_eq_of_lt h2, h]

/-- `random::between<integral>(min, sup)` as libstdc++ evaluates it on this engine returns a value of
    `[min, sup)` – for every engine state, every `min < sup` with `sup − min ≤ 2^64`. -/
theorem between_in_range (min sup : Int) (e : Xo) (h : min < sup) (hw : sup - min ≤ 2 ^ 64) :
    min ≤ (between min sup e).1 ∧ (between min sup e).1 < sup := by
  unfold between uniformInt
  simp only
  split
  · rename_i hu
    have := (e.next).1.toNat_lt
    simp only
    omega
  · rename_i hu
    have hr : ((sup - 1 - min).toNat + 1).toUInt64.toNat = (sup - 1 - min).toNat + 1 := by
      simp [Nat.toUInt64]
      omega
    have := lemire_lt ((sup - 1 - min).toNat + 1).toUInt64 (by rw [hr]; omega) e 64
    rw [hr] at this
    simp only
    omega

/-- `random::sup(n)` returns a value below `n` (`0 < n ≤ 2^64`) -/
theorem sup_lt (n : Nat) (e : Xo) (h : 0 < n) (hw : n ≤ 2 ^ 64) : (sup n e).1 < n := by
  have := between_in_range 0 n e (by omega) (by omega)
  unfold sup
  simp only
  omega

end Vita.Rng
