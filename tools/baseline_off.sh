#!/bin/bash
# Runs the repository's own test-suite with the verification guard OFF (no -DVITA_VERIF),
# from a scratch build directory that is removed afterwards.
set -e
D=$(mktemp -d /var/tmp/vita-baseline-XXXXXX)
trap 'rm -rf "$D"' EXIT
cmake -G Ninja -S /repo/src -B "$D" -DCMAKE_BUILD_TYPE=RelWithDebInfo -DCMAKE_CXX_FLAGS=-Wno-error > "$D/cmake.log" 2>&1 || { cat "$D/cmake.log"; exit 1; }
cmake --build "$D" -j16 > "$D/build.log" 2>&1 || { tail -50 "$D/build.log"; exit 1; }
ctest --test-dir "$D/test" -j8 --timeout 900 --output-junit "$D/junit.xml" || true
python3 - "$D/junit.xml" <<'PY'
import sys, re
t = open(sys.argv[1]).read()
print("testcases:", len(re.findall(r"<testcase ", t)), "failures:", len(re.findall(r"<failure", t)))
PY
