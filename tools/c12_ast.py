"""C12: one cache of clang JSON AST dumps shared by tools/translate_flow.py and tools/c12_members.py
(same translation unit, same filters: one clang run per filter and per process)."""
import concurrent.futures as cf
import os
import sys
import threading

sys.path.insert(0, os.path.dirname(os.path.abspath(__file__)))
from cxx2lean import ast_dump  # noqa: E402

TU = "flow_tu.cc"
_cache = {}
_lock = threading.Lock()


def _disk_path(tu, filt):
    """build/c12_ast/<hash of the sources, the TU and the filter>.pickle (a dump depends on nothing else)"""
    import hashlib
    root = os.path.dirname(os.path.dirname(os.path.abspath(__file__)))
    sys.path.insert(0, root)
    from vlib import common as C
    tu_txt = open(os.path.join(os.path.dirname(os.path.abspath(__file__)), "tu", tu)).read()
    h = hashlib.sha256((C.repo_tree_hash(tu_txt) + "|" + filt).encode()).hexdigest()[:24]
    d = os.path.join(C.BUILD, "c12_ast")
    os.makedirs(d, exist_ok=True)
    return os.path.join(d, h + ".pickle")


def _dump_disk(tu, filt):
    import pickle
    p = _disk_path(tu, filt)
    if os.path.exists(p):
        try:
            with open(p, "rb") as f:
                return pickle.load(f)
        except Exception:            # noqa: BLE001  (a torn cache file: recompute)
            pass
    v = ast_dump(tu, filt)
    tmp = p + ".%d.tmp" % os.getpid()
    with open(tmp, "wb") as f:
        pickle.dump(v, f, protocol=4)
    os.replace(tmp, p)
    return v


def dump(filt, tu=TU):
    key = (tu, filt)
    with _lock:
        ev = _cache.get(key)
        if ev is None:
            ev = _cache[key] = {"done": threading.Event(), "val": None, "err": None, "owner": True}
            mine = True
        else:
            mine = False
    if mine:
        try:
            ev["val"] = _dump_disk(tu, filt)
        except Exception as e:       # noqa: BLE001  (re-raised in every waiter)
            ev["err"] = e
        ev["done"].set()
    ev["done"].wait()
    if ev["err"] is not None:
        raise ev["err"]
    return ev["val"]


def prefetch(filters, jobs=6):
    with cf.ThreadPoolExecutor(jobs) as ex:
        list(ex.map(lambda f: _safe(f), sorted(set(filters))))


def _safe(f):
    try:
        dump(f)
    except Exception:                # noqa: BLE001  (reported by the consumer)
        pass


def clear():
    with _lock:
        _cache.clear()
