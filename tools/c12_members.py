#!/usr/bin/env python3
"""C12 — enumerate EVERY data member of every load target from the clang AST.

The C12 oracle compares a snapshot of the target taken before the call of `load` with one taken
after it.  A snapshot that leaves a data member out is blind to a failed load that tears exactly
that member (summary::az, model_measurements::is_solution, i_mep::active_crossover_type_ … are not
part of the serialized record).  This tool therefore

  * starts from the target types the harness loads into (ROOTS),
  * reads the FieldDecls and the base classes of each record from the clang JSON AST of the current
    working tree and follows every `vita::` record mentioned by a field type (through std
    containers, arrays, unnamed structs, typedefs; not through raw pointers: the pointee is not a
    member),
  * writes harness/c12_members_gen.h: for every record a function `members(x, v)` that hands EVERY
    field (private ones through the explicit-instantiation access idiom) to the visitor of
    harness/c12_snap.h.  The visitor has rules for scalars, enums, pointers, std containers and
    vita::small_vector; a field whose type has neither a rule nor a `members` overload does not
    compile ("no snapshot rule") — the check then fails loudly,
  * returns the table {root -> every (record, field) reachable} that checks/c12.py compares with
    the visit / populated counters reported by the harness at the end of the run.

Syntax only; refuses (Refuse) bit-fields, reference members, non-public bases and type spellings it
cannot parse.
"""
import hashlib
import os
import re
import sys

sys.path.insert(0, os.path.dirname(os.path.abspath(__file__)))
from cxx2lean import Refuse, kids  # noqa: E402
import c12_ast  # noqa: E402

TU = c12_ast.TU

# harness type tag -> C++ type of the target
ROOTS = [
    ("hash", "vita::hash_t"),
    ("fit", "vita::basic_fitness_t<double>"),
    ("iga", "vita::i_ga"),
    ("ide", "vita::i_de"),
    ("mati", "vita::matrix<int>"),
    ("matu", "vita::matrix<unsigned int>"),
    ("dist", "vita::distribution<double>"),
    ("imep", "vita::i_mep"),
    ("team", "vita::team<vita::i_mep>"),
    ("pop", "vita::population<vita::i_mep>"),
    ("summ", "vita::summary<vita::i_mep>"),
    ("cachet", "vita::cache"),
]

# vita containers snapshotted by value semantics (sequence of elements), like std::vector: their
# fields are raw storage (begin / end / capacity pointers and an uninitialised local buffer)
VALUE_CONTAINERS = {"vita::small_vector"}

def dump(filt):
    return c12_ast.dump(filt)


# ---- a small parser for the type spellings clang prints ------------------------------------------
TOK = re.compile(r"\s*(::|<|>|,|\*|&&|&|\[|\]|\(|\)|[A-Za-z_][A-Za-z_0-9]*|-?\d+[uUlL]*|.)")
UNNAMED = re.compile(r"\((?:unnamed|anonymous) (?:struct|class|union) at [^)]*\)")
CV = {"const", "volatile", "struct", "class", "enum", "union", "typename"}


class Ty:
    """comps = [(name, args or None)], ptr = behind a raw pointer, arr = array suffix"""

    def __init__(self, comps, ptr, ref, arr):
        self.comps, self.ptr, self.ref, self.arr = comps, ptr, ref, arr

    def name(self, upto=None):
        cs = self.comps if upto is None else self.comps[:upto]
        return "::".join(n + ("<" + ", ".join(a.spell() for a in args) + ">" if args is not None else "")
                         for n, args in cs)

    def spell(self):
        return self.name() + (" *" if self.ptr else "")


def tokens(s):
    s = UNNAMED.sub("__unnamed__", s)
    out, i = [], 0
    while i < len(s):
        m = TOK.match(s, i)
        if not m:
            break
        out.append(m.group(1))
        i = m.end()
    return [t for t in out if t.strip()]


def parse_type(s):
    toks = tokens(s)
    t, i = _ptype(toks, 0)
    if i != len(toks):
        raise Refuse("cannot parse type spelling %r (stopped at %r)" % (s, toks[i:i + 3]))
    return t


def _ptype(toks, i):
    while i < len(toks) and toks[i] in CV:
        i += 1
    comps = []
    while True:
        words = []
        while i < len(toks) and (re.match(r"[A-Za-z_]", toks[i]) or re.match(r"-?\d", toks[i])) and toks[i] not in CV:
            words.append(toks[i])
            i += 1
        if not words:
            raise Refuse("cannot parse type near %r" % (toks[max(0, i - 2):i + 3],))
        args = None
        if i < len(toks) and toks[i] == "<":
            args, i = [], i + 1
            if toks[i] == ">":
                i += 1
            else:
                while True:
                    a, i = _ptype(toks, i)
                    args.append(a)
                    if toks[i] == ",":
                        i += 1
                        continue
                    if toks[i] == ">":
                        i += 1
                        break
                    raise Refuse("cannot parse template arguments near %r" % (toks[i:i + 3],))
        comps.append((" ".join(words), args))
        if i < len(toks) and toks[i] == "::":
            i += 1
            continue
        break
    ptr = ref = False
    arr = []
    while i < len(toks):
        if toks[i] in CV:
            i += 1
        elif toks[i] == "*":
            ptr = True
            i += 1
        elif toks[i] in ("&", "&&"):
            ref = True
            i += 1
        elif toks[i] == "[":
            j = i + 1
            while toks[j] != "]":
                j += 1
            arr.append(" ".join(toks[i + 1:j]))
            i = j + 1
        elif toks[i] == "(":
            raise Refuse("function types are not handled: %r" % (toks,))
        else:
            break
    return Ty(comps, ptr, ref, arr), i


def norm_arg(a):
    a = a.strip()
    return {"true": "1", "false": "0", "-1": "1"}.get(a, re.sub(r"\s+", " ", a))


# ---- records -----------------------------------------------------------------------------------
def template_args(spec):
    out = []
    for c in kids(spec):
        if c.get("kind") == "TemplateArgument":
            if "type" in c:
                out.append(c["type"].get("qualType"))
            elif "value" in c:
                out.append(str(c["value"]))
            else:
                out.append(str(c.get("inner", [{}])[0].get("value", "?")))
    return out


def _match_args(spec, args):
    have = [norm_arg(a) for a in template_args(spec)]
    want = [norm_arg(a.spell()) for a in args]
    return have[:len(want)] == want


def _find_in(scope_nodes, name, args):
    """a complete record / enum / typedef called `name` (with template arguments `args`) among nodes"""
    for n in scope_nodes:
        k = n.get("kind")
        if k == "ClassTemplateDecl" and n.get("name") == name and args is not None:
            for s in kids(n):
                if s.get("kind") == "ClassTemplateSpecializationDecl" and s.get("completeDefinition") and \
                        _match_args(s, args):
                    return s
        if k == "ClassTemplateSpecializationDecl" and n.get("name") == name and args is not None and \
                n.get("completeDefinition") and _match_args(n, args):
            return n
        if k == "CXXRecordDecl" and n.get("name") == name and args is None and n.get("completeDefinition"):
            return n
        if k in ("EnumDecl", "TypedefDecl", "TypeAliasDecl") and n.get("name") == name and args is None:
            return n
    return None


def resolve(ty):
    """Ty (a vita:: type) -> AST node of the record / enum / alias it names"""
    comps = ty.comps
    for k in range(1, len(comps)):
        if any(a is not None for _, a in comps[:k]):
            break
        filt = "::".join(n for n, _ in comps[:k + 1])
        node = _find_in(dump(filt), comps[k][0], comps[k][1])
        if node is None:
            continue
        for name, args in comps[k + 1:]:
            if name == "__unnamed__":
                return None
            node = _find_in(kids(node), name, args)
            if node is None:
                break
        if node is not None:
            return node
    raise Refuse("type %s not found in the AST (is it instantiated in tools/tu/%s?)" % (ty.name(), TU))


class Rec:
    def __init__(self, name, access):
        self.name = name          # full spelling, e.g. vita::analyzer<vita::i_mep>::group_stat
        self.access = access      # C++ expression naming the class in `&<access>::field`
        self.fields = []          # (name, type spelling)
        self.bases = []           # record names
        self.children = []        # record names reached through the fields (containers included)
        self.value_container = False


def field_type(f):
    t = f.get("type", {})
    return t.get("desugaredQualType", t.get("qualType", ""))


def collect():
    """{name: Rec} for everything reachable from ROOTS, in discovery order"""
    recs = {}

    def visit_record(name, node, access):
        if name in recs:
            return
        r = Rec(name, access)
        recs[name] = r
        base_name = name.split("<")[0]
        if base_name in VALUE_CONTAINERS:
            r.value_container = True
            # the element type is the first template argument
            el = parse_type(name).comps[-1][1][0]
            for m in mentions(el):
                follow(m, r)
            return
        for b in node.get("bases", []):
            bt = b.get("type", {})
            bname = bt.get("desugaredQualType", bt.get("qualType"))
            if b.get("access") != "public" or b.get("isVirtual"):
                raise Refuse("%s: base %s is not a plain public base" % (name, bname))
            bty = parse_type(bname)
            bnode = resolve(bty)
            visit_record(bty.name(), bnode, bty.name())
            r.bases.append(bty.name())
        ks = kids(node)
        for i, c in enumerate(ks):
            if c.get("kind") != "FieldDecl":
                continue
            if c.get("isBitfield"):
                raise Refuse("%s::%s is a bit-field" % (name, c.get("name")))
            fname, ft = c.get("name"), field_type(c)
            if not fname:
                raise Refuse("%s has an anonymous member (union / struct): not handled" % name)
            r.fields.append((fname, UNNAMED.sub("(unnamed)", ft)))
            if ft.rstrip().endswith("&"):
                raise Refuse("%s::%s is a reference member" % (name, fname))
            try:
                ty = parse_type(ft)
            except Refuse:
                # a spelling this tool cannot parse (function types …): an opaque leaf; the snapshot needs a value
                # rule for it (harness/c12_snap.h), otherwise the harness does not compile
                continue
            if "__unnamed__" in [n for n, _ in ty.comps]:
                # the unnamed record is declared right before the field
                prev = [p for p in ks[:i] if p.get("kind") == "CXXRecordDecl" and not p.get("name")
                        and p.get("completeDefinition")]
                if not prev:
                    raise Refuse("%s::%s: unnamed type not found" % (name, fname))
                sub = "%s::(unnamed %s)" % (name, fname)
                visit_record(sub, prev[-1], "decltype(%s::%s)" % (access, fname))
                r.children.append(sub)
                continue
            for m in mentions(ty):
                follow(m, r)

    def mentions(ty):
        """vita:: types owned by a value of type `ty`"""
        if ty.ptr:
            return []
        out = []
        if ty.comps[0][0] == "vita":
            out.append(ty)
            if ty.name().split("<")[0] not in VALUE_CONTAINERS:
                return out
            return out
        for _, args in ty.comps:
            for a in (args or []):
                out += mentions(a)
        return out

    def follow(ty, parent):
        plain = Ty(ty.comps, False, False, [])
        node = resolve(plain)
        if node is None:
            return
        k = node.get("kind")
        if k == "EnumDecl":
            return
        if k in ("TypedefDecl", "TypeAliasDecl"):
            t = node.get("type", {})
            under = parse_type(t.get("desugaredQualType", t.get("qualType")))
            for m in mentions(under):
                follow(m, parent)
            return
        visit_record(plain.name(), node, plain.name())
        parent.children.append(plain.name())

    roots = {}
    for tag, tname in ROOTS:
        ty = parse_type(tname)
        visit_record(ty.name(), resolve(ty), ty.name())
        roots[tag] = ty.name()
    return recs, roots


def reachable(recs, start):
    seen, todo = [], [start]
    while todo:
        n = todo.pop()
        if n in seen:
            continue
        seen.append(n)
        todo += recs[n].bases + recs[n].children
    return seen


# ---- output --------------------------------------------------------------------------------------
def render(recs, roots):
    order = list(recs)
    idx = {n: i for i, n in enumerate(order)}
    L = ["// GENERATED by tools/c12_members.py from the clang AST of the current working tree - do not edit.",
         "// One `members(x, v)` per record reachable from a load target: EVERY data member is handed to the",
         "// visitor (harness/c12_snap.h).",
         "#ifndef VERIF_C12_MEMBERS_GEN_H",
         "#define VERIF_C12_MEMBERS_GEN_H",
         "namespace c12m",
         "{"]
    digest = hashlib.sha256()
    names = []
    for n in order:
        r = recs[n]
        i = idx[n]
        digest.update((n + "|" + ",".join(f for f, _ in r.fields) + "|" + ",".join(r.bases) + ";").encode())
        L.append("// R%d = %s" % (i, n))
        if r.value_container:
            L.append("//   snapshotted as a sequence of elements (value container)")
            names.append([])
            continue
        for j, (f, t) in enumerate(r.fields):
            L.append("C12_MEMBER(R%d_%d, &%s::%s)   // %s" % (i, j, r.access, f, t))
        names.append([f for f, _ in r.fields])
        if not r.fields:
            # a record without data members of its own: nothing to snapshot beside its bases
            if not r.bases:
                continue
            L.append("using R%d = %s;" % (i, r.access))
        else:
            L.append("using R%d = class_of_t<decltype(get(R%d_0()))>;" % (i, i))
        L.append("template<> struct is_record<R%d> : std::true_type {};" % i)
        L.append("template<class V> void members(const R%d &x, V &v)" % i)
        L.append("{")
        for b in r.bases:
            L.append("  v.base(%d, static_cast<const %s &>(x));" % (idx[b], recs[b].access))
        for j, (f, _) in enumerate(r.fields):
            L.append("  v.field(%d, %d, x.*get(R%d_%d()));" % (i, j, i, j))
        L.append("}")
    L.append("")
    L.append("constexpr unsigned N_RECORDS = %d;" % len(order))
    L.append("constexpr unsigned MAX_FIELDS = %d;" % max([1] + [len(recs[n].fields) for n in order]))
    L.append("constexpr const char *TABLE_DIGEST = \"%s\";" % digest.hexdigest()[:16])
    L.append("inline const char *field_name(unsigned rec, unsigned fld)")
    L.append("{")
    L.append("  static const char *const names[N_RECORDS][MAX_FIELDS] = {")
    for n in order:
        L.append("    {%s}," % ", ".join('"%s::%s"' % (n, f) for f, _ in recs[n].fields) if recs[n].fields and
                 not recs[n].value_container else "    {},")
    L.append("  };")
    L.append("  const char *r(rec < N_RECORDS && fld < MAX_FIELDS ? names[rec][fld] : nullptr);")
    L.append("  return r ? r : \"?\";")
    L.append("}")
    L.append("inline const char *root_type(const std::string &tag)")
    L.append("{")
    for tag, n in roots.items():
        L.append("  if (tag == \"%s\") return \"%s\";" % (tag, n))
    L.append("  return \"?\";")
    L.append("}")
    L += ["}  // namespace c12m", "#endif", ""]
    table = {
        "digest": digest.hexdigest()[:16],
        "records": [{"name": n, "fields": [f for f, _ in recs[n].fields], "types": [t for _, t in recs[n].fields],
                     "bases": recs[n].bases, "value_container": recs[n].value_container} for n in order],
        "roots": {tag: [idx[m] for m in reachable(recs, n)] for tag, n in roots.items()},
    }
    return "\n".join(L), table


def generate():
    # warm the dump cache in parallel (one clang run per top-level name, ~3 s each)
    first = sorted({"::".join(parse_type(t).comps[i][0] for i in range(2)) for _, t in ROOTS} |
                   {"vita::analyzer", "vita::individual", "vita::basic_gene", "vita::locus", "vita::small_vector",
                    "vita::model_measurements", "vita::matrix", "vita::distribution"})
    c12_ast.prefetch(first)
    recs, roots = collect()
    return render(recs, roots)


def emit(path):
    txt, table = generate()
    old = open(path).read() if os.path.exists(path) else None
    if old != txt:
        with open(path, "w") as f:
            f.write(txt)
    return table, old is not None and old != txt


if __name__ == "__main__":
    import json
    txt, table = generate()
    print(txt)
    print(json.dumps(table, indent=1), file=sys.stderr)
