#!/usr/bin/env python3
"""Confirm an independently written breaking change before it is kept under seeded/.

  python3 tools/confirm_mutant.py <src-dir with patch.diff demo.cc README.md> <seeded-id> <property> [--san]

Two scratch worktrees of /repo HEAD under /tmp/confirm (base, mut), each with its own cmake build
(built once, then incremental).  Confirms: patch applies and compiles; ctest results with the patch
equal the results without; the demo passes without the patch and fails with it.  On success writes
/verif/seeded/<id>/{patch.diff,demo.cc,README.md,meta.json}.  Worktrees are left for the next call;
remove them with --cleanup."""
import json, os, re, shutil, subprocess, sys, time
R = os.path.dirname(os.path.dirname(os.path.abspath(__file__)))
W = "/tmp/confirm"
def sh(cmd, cwd=None, timeout=3600, inp=None):
    p = subprocess.run(cmd, cwd=cwd, shell=isinstance(cmd, str), stdout=subprocess.PIPE, stderr=subprocess.STDOUT,
                       text=True, timeout=timeout, stdin=subprocess.DEVNULL if inp is None else None, input=inp,
                       errors="replace")
    return p.returncode, p.stdout
def head():
    return sh(["git", "-C", "/repo", "rev-parse", "HEAD"])[1].strip()
def ensure(name):
    d = os.path.join(W, name)
    if not os.path.exists(d):
        os.makedirs(W, exist_ok=True)
        sh(["git", "-C", "/repo", "worktree", "add", "--detach", d, "HEAD"])
    sh(["git", "-C", d, "checkout", "--", "."])
    sh(["git", "-C", d, "checkout", "--detach", head()])
    if not os.path.exists(os.path.join(d, "_b", "build.ninja")):
        rc, o = sh(["cmake", "-G", "Ninja", "-S", "src", "-B", "_b", "-DCMAKE_BUILD_TYPE=RelWithDebInfo",
                    "-DCMAKE_CXX_FLAGS=-Wno-error"], cwd=d)
        assert rc == 0, o[-2000:]
    return d
def build(d):
    rc, o = sh(["cmake", "--build", "_b", "-j12"], cwd=d)
    return rc, o
def ctest(d):
    rc, o = sh(["ctest", "--test-dir", "_b/test", "-j6", "--timeout", "900"], cwd=d)
    res = dict(re.findall(r"Test\s+#\d+:\s+(\S+)\s+\.+\s*(Passed|\*\*\*\w+|Failed)", o))
    return res, o
def demo(d, src, san):
    exe = os.path.join(d, "_demo")
    fl = ["g++", "-std=c++17", "-O1", "-g", "-DNDEBUG", "-I", "src", "-isystem", "src/third_party"]
    libs = ["_b/kernel/libvita.a", "_b/third_party/tinyxml2/libtinyxml2.a", "-pthread"]
    if san:   # compile the library sources directly with the sanitizer
        import glob
        srcs = glob.glob(d + "/src/kernel/**/*.cc", recursive=True) + glob.glob(d + "/src/utility/*.cc") + \
            [d + "/src/third_party/tinyxml2/tinyxml2.cc"]
        fl += ["-fsanitize=address,undefined", "-fno-sanitize-recover=all"]
        rc, o = sh(fl + [src] + srcs + ["-pthread", "-o", exe], cwd=d)
    else:
        rc, o = sh(fl + [src] + libs + ["-o", exe], cwd=d)
    if rc != 0:
        return None, "demo does not compile: " + o[-1500:]
    rc, o = sh([exe], cwd=os.path.dirname(src), timeout=1200)
    failed = rc != 0 or re.search(r"\bFAIL", o) is not None
    return failed, o[-1500:]
def main():
    if "--cleanup" in sys.argv:
        for n in ("base", "mut"):
            sh(["git", "-C", "/repo", "worktree", "remove", "--force", os.path.join(W, n)])
        shutil.rmtree(W, ignore_errors=True); return 0
    src, sid, prop = sys.argv[1], sys.argv[2], sys.argv[3]
    san = "--san" in sys.argv
    base, mut = ensure("base"), ensure("mut")
    t0 = time.time()
    rc, o = build(base); assert rc == 0, "base does not build " + o[-1500:]
    stamp = os.path.join(base, "_b", "ctest.%s.json" % head())
    if os.path.exists(stamp):
        base_res = json.load(open(stamp))
    else:
        base_res, _ = ctest(base); json.dump(base_res, open(stamp, "w"))
    demo_src = os.path.join(src, "demo.cc")
    rep = {"property": prop, "source": src, "repo_head": head()}
    f0, o0 = demo(base, demo_src, san)
    rep["demo_without_patch"] = "FAILS" if f0 else ("passes" if f0 is False else o0)
    rc, o = sh(["git", "-C", mut, "apply", os.path.join(src, "patch.diff")])
    if rc != 0:
        print("patch does not apply", o); return 1
    try:
        rc, o = build(mut)
        rep["compiles"] = rc == 0
        if rc != 0:
            print("mutant does not compile", o[-1500:]); return 1
        mres, mo = ctest(mut)
        rep["ctest_same_as_baseline"] = mres == base_res
        rep["ctest_diff"] = {k: (base_res.get(k), mres.get(k)) for k in set(base_res) | set(mres) if base_res.get(k) != mres.get(k)}
        rep["ctest_passed"] = sum(1 for v in mres.values() if v == "Passed")
        f1, o1 = demo(mut, demo_src, san)
        rep["demo_with_patch"] = "FAILS" if f1 else ("passes" if f1 is False else o1)
        rep["demo_output_with_patch"] = o1[-600:]
    finally:
        sh(["git", "-C", mut, "checkout", "--", "."])
        sh(["git", "-C", mut, "clean", "-fdq", "--", "src"])
    ok = rep.get("compiles") and rep.get("ctest_same_as_baseline") and f0 is False and f1 is True
    rep["confirmed"] = bool(ok)
    rep["wall_s"] = round(time.time() - t0)
    print(json.dumps(rep, indent=1))
    if ok:
        out = os.path.join(R, "seeded", sid)
        os.makedirs(out, exist_ok=True)
        for f in os.listdir(src):
            if os.path.isfile(os.path.join(src, f)):
                shutil.copy(os.path.join(src, f), out)
        readme = open(os.path.join(src, "README.md")).read() if os.path.exists(os.path.join(src, "README.md")) else ""
        meta = {"property": prop, "needs_to_manifest": "see README.md", "confirmed_by_integrator": rep,
                "what_i_ran": "tools/confirm_mutant.py: cmake RelWithDebInfo build of two scratch worktrees (base, patched), "
                              "ctest on both (same per-executable results), demo compiled against each library"
                              + (" with ASan/UBSan" if san else "")}
        json.dump(meta, open(os.path.join(out, "meta.json"), "w"), indent=1)
    return 0 if ok else 1
if __name__ == "__main__":
    sys.exit(main())
