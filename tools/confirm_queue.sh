#!/bin/bash
# processes lines "<srcdir> <seeded-id> <property> [--san]" appended to /var/tmp/confirm_queue.txt, one at a time
Q=/var/tmp/confirm_queue.txt; D=/var/tmp/confirm_done.txt; touch $Q $D
while true; do
  n=$(wc -l < $D)
  line=$(sed -n "$((n+1))p" $Q)
  if [ -z "$line" ]; then sleep 20; continue; fi
  set -- $line
  python3 /verif/tools/confirm_mutant.py "$@" > /var/tmp/confirm_$2.log 2>&1
  echo "$line rc=$?" >> $D
done
