"""Shared clang-AST front end for the translators.

`ast_dump(tu, filt)` asks clang++-14 for the typed JSON AST of the declarations
of /repo's *current* working tree whose qualified name contains `filt`.
The walkers below refuse (raise `Refuse`) any node kind they do not know:
a translator must never silently skip code.
"""
import json
import os
import subprocess

REPO = os.environ.get("VERIF_REPO", "/repo")
HERE = os.path.dirname(os.path.abspath(__file__))


class Refuse(Exception):
    pass


def ast_dump(tu, filt, defines=("VITA_VERIF", "NDEBUG")):
    cmd = ["clang++-14", "-std=c++17", "-I" + os.path.join(REPO, "src"),
           "-isystem", os.path.join(REPO, "src", "third_party"), "-w", "-fsyntax-only"]
    for d in defines:
        cmd.append("-D" + d)
    cmd += ["-Xclang", "-ast-dump=json", "-Xclang", "-ast-dump-filter=" + filt,
            os.path.join(HERE, "tu", tu)]
    p = subprocess.run(cmd, stdout=subprocess.PIPE, stderr=subprocess.PIPE)
    if p.returncode != 0:
        raise Refuse("clang failed on %s: %s" % (tu, p.stderr.decode("utf-8", "replace")[-2000:]))
    txt = p.stdout.decode("utf-8", "replace")
    dec = json.JSONDecoder()
    i, docs = 0, []
    while i < len(txt):
        while i < len(txt) and txt[i].isspace():
            i += 1
        if i >= len(txt):
            break
        o, j = dec.raw_decode(txt, i)
        docs.append(o)
        i = j
    return docs


def kids(n):
    return [c for c in n.get("inner", []) if c.get("kind") is not None]


def qtype(n):
    t = n.get("type", {})
    return t.get("desugaredQualType", t.get("qualType", ""))


def find_all(n, pred, out=None):
    out = [] if out is None else out
    if pred(n):
        out.append(n)
    for c in n.get("inner", []):
        if isinstance(c, dict):
            find_all(c, pred, out)
    return out


def records_with_method(ns_doc, method):
    """[(class name, CXXMethodDecl)] for every class directly in a namespace dump that
    defines `method` with a body."""
    out = []
    for c in kids(ns_doc):
        if c.get("kind") == "CXXRecordDecl" and c.get("completeDefinition"):
            for m in kids(c):
                if m.get("kind") == "CXXMethodDecl" and m.get("name") == method and \
                        any(k.get("kind") == "CompoundStmt" for k in kids(m)):
                    out.append((c.get("name"), m))
    return out


TRANSPARENT = {"ExprWithCleanups", "MaterializeTemporaryExpr", "CXXBindTemporaryExpr",
               "ParenExpr", "ConstantExpr"}
NOOP_CASTS = {"NoOp", "LValueToRValue", "ConstructorConversion", "FunctionToPointerDecay",
              "UserDefinedConversion"}


def peel(n):
    """Strip wrappers that do not change the value."""
    while True:
        k = n.get("kind")
        if k in TRANSPARENT and len(kids(n)) == 1:
            n = kids(n)[0]
        elif k in ("ImplicitCastExpr", "CXXStaticCastExpr", "CXXFunctionalCastExpr") and \
                n.get("castKind") in NOOP_CASTS and len(kids(n)) == 1:
            n = kids(n)[0]
        elif k == "CXXConstructExpr" and len(kids(n)) == 1:
            n = kids(n)[0]
        else:
            return n


def callee_name(call):
    """Name of the function a CallExpr / CXXOperatorCallExpr / CXXMemberCallExpr calls."""
    f = peel(kids(call)[0])
    if f.get("kind") == "DeclRefExpr":
        return f.get("referencedDecl", {}).get("name")
    if f.get("kind") == "MemberExpr":
        return f.get("name")
    return None


INT_TYPES = {
    "int": ("i32", True), "const int": ("i32", True),
    "long": ("i64", True), "const long": ("i64", True),
    "long long": ("i64", True), "const long long": ("i64", True),
    "unsigned int": ("u32", False), "const unsigned int": ("u32", False),
    "unsigned long": ("u64", False), "const unsigned long": ("u64", False),
    "unsigned long long": ("u64", False),
    "bool": ("bool", False), "const bool": ("bool", False),
}
SIZEOF = {"int": 4, "long": 8, "long long": 8, "unsigned int": 4, "unsigned long": 8,
          "double": 8, "char": 1, "short": 2}
LIMITS = {
    ("i32", "max"): 2147483647, ("i32", "min"): -2147483648, ("i32", "lowest"): -2147483648,
    ("i64", "max"): 9223372036854775807, ("i64", "min"): -9223372036854775808,
    ("i64", "lowest"): -9223372036854775808,
    ("u32", "max"): 4294967295, ("u32", "min"): 0, ("u64", "max"): 18446744073709551615, ("u64", "min"): 0,
}


def int_type(n):
    t = qtype(n)
    if t not in INT_TYPES:
        raise Refuse("non-integer type %r at node %s" % (t, n.get("kind")))
    return INT_TYPES[t][0]
