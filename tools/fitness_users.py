#!/usr/bin/env python3
"""C18, users of the order: every call site in the library (all translation units of src/kernel and
src/utility plus explicit instantiations of every selection / replacement / recombination strategy,
the evolution loop and the search drivers, tools/tu/fitness_users_tu.cc) of

  * a relational operator, `dominating`, `almost_equal`, `isfinite`, `isnan`, `issmall`,
    `isnonnegative`, `distance` applied to a `basic_fitness_t<double>`,
  * a relational operator applied to a `std::pair<bool, fitness_t>` (ALPS selection),
  * a relational operator applied to a `model_measurements`,

found with clang's AST matchers (clang-query-14) on the repo's *current* working tree, written to
lean/Vita/C18/GenUsers.lean as a table (file, enclosing function, callee, operand kind).
Call sites inside libstdc++ (std::pair's operator<, std::less, the comparison functors of the sorting
algorithms) are reported like any other: an algorithm of <algorithm> instantiated over fitness values
shows up as a use of `operator<` inside a system header.
The definitions themselves (fitness.tcc, model_measurements.h) are not users."""
import hashlib
import json
import os
import re
import subprocess
import sys

sys.path.insert(0, os.path.dirname(os.path.abspath(__file__)))
import cxx2lean  # noqa: E402
from cxx2lean import Refuse  # noqa: E402

OPS = ["operator<", "operator>", "operator<=", "operator>=", "operator==", "operator!="]
FIT_FUNS = OPS + ["dominating", "almost_equal", "isfinite", "isnan", "issmall", "isnonnegative", "distance"]
FIT = 'classTemplateSpecializationDecl(hasName("::vita::basic_fitness_t"))'
KINDS = {
    "fitness": (FIT_FUNS, FIT),
    "pair<bool,fitness>": (OPS, 'classTemplateSpecializationDecl(hasName("::std::pair"), '
                                'hasTemplateArgument(1, refersToType(hasDeclaration(%s))))' % FIT),
    "model_measurements": (OPS, 'cxxRecordDecl(hasName("::vita::model_measurements"))'),
}
SELF = ("src/kernel/fitness.tcc", "src/kernel/fitness.h", "src/kernel/model_measurements.h")


def query(names, decl):
    ty = "qualType(hasCanonicalType(anyOf(references(qualType(hasDeclaration(%s))), " \
         "qualType(hasDeclaration(%s)))))" % (decl, decl)
    return ("match callExpr(callee(functionDecl(hasAnyName(%s)).bind(\"callee\")), "
            "hasArgument(0, expr(hasType(%s))), hasAncestor(functionDecl().bind(\"fn\")))"
            % (", ".join('"%s"' % n for n in names), ty))


def library_sources():
    srcs = []
    for sub in ("utility", "kernel"):
        for d, dn, fs in os.walk(os.path.join(cxx2lean.REPO, "src", sub)):
            dn.sort()
            for f in sorted(fs):
                if f.endswith(".cc"):
                    srcs.append(os.path.join(d, f))
    return srcs


def tree_hash():
    h = hashlib.sha256()
    for sub in ("kernel", "utility"):
        for d, dn, fs in os.walk(os.path.join(cxx2lean.REPO, "src", sub)):
            dn.sort()
            for f in sorted(fs):
                if f.endswith((".cc", ".h", ".tcc")):
                    p = os.path.join(d, f)
                    h.update(os.path.relpath(p, cxx2lean.REPO).encode())
                    h.update(open(p, "rb").read())
    for p in (os.path.abspath(__file__), os.path.join(cxx2lean.HERE, "tu", "fitness_users_tu.cc")):
        h.update(open(p, "rb").read())
    return h.hexdigest()


_src = {}


def src_lines(path):
    if path not in _src:
        try:
            _src[path] = open(path, errors="replace").read().split("\n")
        except OSError:
            _src[path] = []
    return _src[path]


def decl_name(path, line, col):
    """name of the function whose declaration starts at path:line:col (source text up to the
    parameter list; used for labelling only)"""
    ls = src_lines(path)
    txt = " ".join(ls[line - 1:line + 7])[max(col - 1, 0):] if ls else ""
    txt = re.sub(r"\s+", " ", txt)
    m = re.search(r"(operator\s*(?:<=|>=|==|!=|<<|>>|<|>|\(\)|\[\]|[-+*/]=?))\s*\(", txt)
    depth, i = 0, 0
    while i < len(txt):                      # first '(' outside template brackets
        ch = txt[i]
        if ch == "<" and not txt[:i].rstrip().endswith("operator"):
            depth += 1
        elif ch == ">" and depth:
            depth -= 1
        elif ch == "(" and depth == 0:
            break
        i += 1
    head = txt[:i].rstrip()
    if m and m.start() <= i:
        pre = txt[:m.start()].rstrip()
        q = re.search(r"([\w:<>, ]*::)\s*$", pre)
        return ((q.group(1).split(" ")[-1] if q else "") + m.group(1).replace(" ", "")).strip()
    j, depth = len(head), 0                  # back to the first blank outside template brackets
    while j > 0:
        ch = head[j - 1]
        if ch == ">":
            depth += 1
        elif ch == "<":
            depth -= 1
        elif ch == " " and depth == 0:
            break
        j -= 1
    return head[j:].lstrip("&*") or head[-60:]


def rel(path):
    p = os.path.normpath(path)
    r = os.path.normpath(cxx2lean.REPO)
    if p.startswith(r + os.sep):
        return os.path.relpath(p, r)
    m = re.search(r"include/(?:x86_64-linux-gnu/)?c\+\+/\d+/(.*)$", p)
    return "<libstdc++>/" + m.group(1) if m else p


def run_queries(scratch):
    os.makedirs(scratch, exist_ok=True)
    unity = os.path.join(scratch, "unity.cc")
    with open(unity, "w") as f:
        for x in library_sources() + [os.path.join(cxx2lean.HERE, "tu", "fitness_users_tu.cc")]:
            f.write('#include "%s"\n' % x)
    qf = os.path.join(scratch, "queries.txt")
    kinds = list(KINDS)
    with open(qf, "w") as f:
        f.write("set bind-root true\nset output diag\n")
        for k in kinds:
            f.write(query(*KINDS[k]) + "\n")
    cmd = ["clang-query-14", "-f", qf, unity, "--", "-std=c++17", "-I" + os.path.join(cxx2lean.REPO, "src"),
           "-isystem", os.path.join(cxx2lean.REPO, "src", "third_party"), "-w", "-DVITA_VERIF", "-DNDEBUG"]
    p = subprocess.run(cmd, stdout=subprocess.PIPE, stderr=subprocess.PIPE)
    out = p.stdout.decode("utf-8", "replace")
    err = p.stderr.decode("utf-8", "replace")
    if p.returncode != 0 or " error: " in err or "error:" in out.split("Match #")[0]:
        raise Refuse("clang-query failed on the users translation unit: %s" % (err or out)[-1500:])
    blocks = re.split(r"^\d+ match(?:es)?\.$", out, flags=re.M)
    if len(blocks) < len(kinds) + 1 and not re.search(r"^0 matches\.$", out, flags=re.M):
        raise Refuse("clang-query output of unknown shape (%d result blocks for %d queries)" % (len(blocks) - 1, len(kinds)))
    return list(zip(kinds, blocks))


BIND = re.compile(r'^(.*?):(\d+):(\d+): note: "(\w+)" binds here$')


def collect(scratch):
    users = {}
    for kind, block in run_queries(scratch):
        for match in re.split(r"^Match #\d+:$", block, flags=re.M)[1:]:
            b = {}
            for ln in match.split("\n"):
                m = BIND.match(ln)
                if m and m.group(4) not in b:
                    b[m.group(4)] = (m.group(1), int(m.group(2)), int(m.group(3)))
            if not all(k in b for k in ("callee", "fn", "root")):
                raise Refuse("clang-query match without callee / fn / root bindings:\n%s" % match[:400])
            site = rel(b["root"][0])
            if site in SELF:
                continue
            callee = decl_name(*b["callee"])
            callee = callee.split("::")[-1]
            if callee not in FIT_FUNS:
                raise Refuse("callee %r at %s:%d is not one of the matched functions" % (callee, rel(b["callee"][0]), b["callee"][1]))
            fn = decl_name(*b["fn"])
            key = (site, b["root"][1], callee, kind)
            users.setdefault(key, fn)
    return [{"file": k[0], "line": k[1], "fn": fn, "callee": k[2], "kind": k[3]} for k, fn in sorted(users.items())]


def users(cache_dir):
    """cached by the hash of the source tree, this tool and the users translation unit"""
    os.makedirs(cache_dir, exist_ok=True)
    key = tree_hash()
    cp = os.path.join(cache_dir, "users-%s.json" % key[:24])
    if os.path.exists(cp):
        try:
            return json.load(open(cp)), True
        except ValueError:
            pass
    us = collect(cache_dir)
    with open(cp + ".tmp", "w") as f:
        json.dump(us, f, indent=1)
    os.replace(cp + ".tmp", cp)
    return us, False


def lean_str(s):
    return '"' + s.replace("\\", "\\\\").replace('"', '\\"') + '"'


def emit(path, cache_dir):
    us, cached = users(cache_dir)
    if not us:
        raise Refuse("no user of the fitness comparison found: the matchers no longer fit the sources")
    L = ["-- GENERATED by tools/fitness_users.py (clang-query-14 AST matchers over every translation unit of",
         "-- src/kernel, src/utility and tools/tu/fitness_users_tu.cc; regenerated on every check run; do not edit)",
         "namespace Vita.C18.Gen", "",
         "/-- call sites: file, enclosing function, callee, kind of the operands -/",
         "def users : List (String × String × String × String) := ["]
    # a site inside libstdc++ is filed under "<libstdc++>", the header goes into the function label
    rows = sorted({(("<libstdc++>", u["file"][len("<libstdc++>/"):] + ": " + u["fn"]) if u["file"].startswith("<libstdc++>/")
                    else (u["file"], u["fn"])) + (u["callee"], u["kind"]) for u in us})
    for i, r in enumerate(rows):
        L.append("  (%s)%s" % (", ".join(lean_str(x) for x in r), "," if i + 1 < len(rows) else ""))
    L += ["]", "", "end Vita.C18.Gen", ""]
    txt = "\n".join(L)
    old = open(path).read() if os.path.exists(path) else None
    if old != txt:
        with open(path, "w") as f:
            f.write(txt)
    return us, rows, old is not None and old != txt, cached


if __name__ == "__main__":
    here = os.path.dirname(cxx2lean.HERE)
    try:
        us, rows, changed, cached = emit(os.path.join(here, "lean", "Vita", "C18", "GenUsers.lean"),
                                         os.path.join(here, "build", "c18_users"))
        for u in us:
            print("%-46s %4d  %-44s %-14s %s" % (u["file"], u["line"], u["fn"], u["callee"], u["kind"]))
        print("%d call sites, %d table rows%s%s" % (len(us), len(rows), " (changed)" if changed else "",
                                                    " (cached)" if cached else ""))
    except Refuse as e:
        print("REFUSE:", e)
        sys.exit(2)
