#!/usr/bin/env python3
"""Reference implementation (Python, exact fractions) of the 6-bit IEEE-style format `Mini` of
lean/Vita/C13/Mini.lean: 1 sign, 3 exponent (bias 3), 2 fraction bits; round to nearest, ties to even.

  mk_minifloat.py            print the exp / log / sin / cos tables (correctly rounded) as Lean lists
  mk_minifloat.py --check F  compare the tables spelled in the Lean file F with the recomputed ones

`op(name, a, b)` is the independent oracle the C13 check uses for the `mini` lines of the driver."""
import math
import re
import sys
from fractions import Fraction

NAN = 30


def mag(c):
    return c % 4 if c // 4 == 0 else (4 + c % 4) * 2 ** (c // 4 - 1)


def dec(b):
    """bits -> ('nan',) | ('inf', neg) | ('fin', neg, Fraction)"""
    c, s = b % 32, b >= 32
    if c > 28:
        return ("nan",)
    if c == 28:
        return ("inf", s)
    return ("fin", s, Fraction(mag(c), 16))


def rnd(x):
    """magnitude code of the non-negative Fraction x: nearest, ties to even code, 28 = overflow"""
    lo = max(c for c in range(28) if Fraction(mag(c), 16) <= x)
    a, b = Fraction(mag(lo), 16), Fraction(mag(lo + 1), 16)
    if x - a < b - x:
        return lo
    if x - a > b - x:
        return lo + 1
    return lo if lo % 2 == 0 else lo + 1


def mk(s, c):
    return (32 if s else 0) + c


def of_float(y):
    if math.isnan(y):
        return NAN
    if math.isinf(y):
        return mk(y < 0, 28)
    return mk(math.copysign(1.0, y) < 0, rnd(abs(Fraction(y))))


def val(b):
    d = dec(b)
    if d[0] == "nan":
        return math.nan
    if d[0] == "inf":
        return -math.inf if d[1] else math.inf
    return math.copysign(float(d[2]), -1.0 if d[1] else 1.0)


def table(f):
    out = []
    for b in range(64):
        x = val(b)
        try:
            y = f(x)
        except (ValueError, OverflowError):
            y = math.nan
        out.append(of_float(y))
    return out


def _exp(x):
    if math.isnan(x):
        return x
    if x == math.inf:
        return x
    if x == -math.inf:
        return 0.0
    return math.exp(x)


def _log(x):
    if math.isnan(x) or x < 0:
        return math.nan
    if x == 0:
        return -math.inf
    if x == math.inf:
        return x
    return math.log(x)


def _sin(x):
    return math.nan if math.isinf(x) or math.isnan(x) else math.sin(x)


def _cos(x):
    return math.nan if math.isinf(x) or math.isnan(x) else math.cos(x)


TABLES = {"expT": _exp, "logT": _log, "sinT": _sin, "cosT": _cos}


def op(name, a, b=0):
    """reference result (bit pattern, or 0/1 for predicates; every NaN is reported as `nan`)"""
    x, y = dec(a), dec(b)
    sx, sy = a >= 32, b >= 32
    def res(v):
        return "nan" if v % 32 > 28 else str(v)
    if name in ("lt", "le", "eq"):
        if x[0] == "nan" or y[0] == "nan":
            return "0"
        u, v = val(a), val(b)
        return "1" if {"lt": u < v, "le": u <= v, "eq": u == v}[name] else "0"
    if name == "isfinite":
        return "1" if x[0] == "fin" else "0"
    if name == "neg":
        return res((a + 32) % 64)
    if name == "fabs":
        return res(a % 32)
    if name in ("exp", "log", "sin", "cos"):
        return res(table(TABLES[name + "T"])[a])
    if name == "sqrt":
        if x[0] == "nan":
            return "nan"
        if x[0] == "fin" and x[2] == 0:
            return res(a)
        if sx:
            return "nan"
        if x[0] == "inf":
            return res(a)
        # exact: compare squares
        k = x[2]
        lo = max(c for c in range(28) if Fraction(mag(c), 16) ** 2 <= k)
        m = (Fraction(mag(lo), 16) + Fraction(mag(lo + 1), 16)) / 2
        if k < m * m:
            return res(lo)
        if k > m * m:
            return res(lo + 1)
        return res(lo if lo % 2 == 0 else lo + 1)
    if name == "floor":
        if x[0] != "fin" or x[2] == 0:
            return res(a)
        v = -x[2] if sx else x[2]
        fl = Fraction(math.floor(v))
        if fl == 0:
            return res(mk(False, 0))
        return res(mk(fl < 0, rnd(abs(fl))))
    if name in ("add", "sub"):
        if name == "sub":
            b = (b + 32) % 64
            y, sy = dec(b), b >= 32
        if x[0] == "nan" or y[0] == "nan":
            return "nan"
        if x[0] == "inf":
            return "nan" if (y[0] == "inf" and sx != sy) else res(a)
        if y[0] == "inf":
            return res(b)
        k = (-x[2] if sx else x[2]) + (-y[2] if sy else y[2])
        if k == 0:
            return res(mk(sx and sy, 0))
        return res(mk(k < 0, rnd(abs(k))))
    if name == "mul":
        s = sx != sy
        if x[0] == "nan" or y[0] == "nan":
            return "nan"
        if x[0] == "inf" or y[0] == "inf":
            z = (x[0] == "fin" and x[2] == 0) or (y[0] == "fin" and y[2] == 0)
            return "nan" if z else res(mk(s, 28))
        return res(mk(s, rnd(x[2] * y[2])))
    if name == "div":
        s = sx != sy
        if x[0] == "nan" or y[0] == "nan":
            return "nan"
        if x[0] == "inf":
            return "nan" if y[0] == "inf" else res(mk(s, 28))
        if y[0] == "inf":
            return res(mk(s, 0))
        if y[2] == 0:
            return "nan" if x[2] == 0 else res(mk(s, 28))
        return res(mk(s, rnd(x[2] / y[2])))
    if name == "fmod":
        if x[0] != "fin" or y[0] == "nan" or (y[0] == "fin" and y[2] == 0):
            return "nan"
        if y[0] == "inf":
            return res(a)
        r = x[2] - (x[2] // y[2]) * y[2]
        return res(mk(sx, rnd(r)))
    if name in ("fmin", "fmax"):
        if x[0] == "nan":
            return res(b)
        if y[0] == "nan":
            return res(a)
        u, v = val(a), val(b)
        if name == "fmin":
            return res(b if v < u else a)
        return res(b if u < v else a)
    raise KeyError(name)


def lean_list(xs):
    rows = [", ".join(str(v) for v in xs[i:i + 32]) for i in range(0, 64, 32)]
    return "[" + ",\n   ".join(rows) + "]"


def check(path):
    txt = open(path).read()
    bad = []
    for name, f in TABLES.items():
        m = re.search(r"def %s : List Nat :=\s*\[([^\]]*)\]" % name, txt)
        if not m:
            bad.append(name + ": not found")
            continue
        have = [int(x) for x in m.group(1).replace("\n", " ").split(",")]
        if have != table(f):
            bad.append(name + ": differs from the recomputed table")
    return bad


if __name__ == "__main__":
    if len(sys.argv) == 3 and sys.argv[1] == "--check":
        b = check(sys.argv[2])
        print("\n".join(b) if b else "tables ok")
        sys.exit(1 if b else 0)
    for name, f in TABLES.items():
        print("def %s : List Nat :=\n  %s" % (name, lean_list(table(f))))
