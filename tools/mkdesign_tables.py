#!/usr/bin/env python3
"""Regenerate the findings and seeded-change tables of DESIGN.md (between the HTML comment markers)
from known_findings*.json and seeded/*/meta.json + seeded/RESULTS.json."""
import glob, json, os, re
R = os.path.dirname(os.path.dirname(os.path.abspath(__file__)))
def findings():
    rows = []
    for f in [R + "/known_findings.json"] + sorted(glob.glob(R + "/known_findings.d/*.json")):
        for k in json.load(open(f)).get("findings", []):
            rows.append(k)
    rows.sort(key=lambda k: (k.get("property", ""), k.get("status", ""), k["id"]))
    out = ["| property | id | status | commit in /repo | what fails |", "|---|---|---|---|---|"]
    for k in rows:
        what = re.sub(r"^fixed: property=\S+ \S+ ", "", k.get("what", "")).replace("|", "\\|").replace("\n", " ")
        what = re.sub(r"^property=\S+ ", "", what)
        out.append("| %s | %s | %s | %s | %s |" % (k.get("property"), k["id"], k.get("status", "known"),
                                               k.get("commit", "–"), what[:420]))
    nf = sum(1 for k in rows if k.get("status") == "fixed")
    out.append("")
    out.append("%d findings: %d fixed by a `fix:` commit in /repo, %d recorded as known." % (len(rows), nf, len(rows) - nf))
    return "\n".join(out)
def seeded():
    res = json.load(open(R + "/seeded/RESULTS.json")) if os.path.exists(R + "/seeded/RESULTS.json") else {}
    out = ["| seeded change | property | what it needs to manifest (from its README) | detected by (quick tier) | replay kind |", "|---|---|---|---|---|"]
    for d in sorted(glob.glob(R + "/seeded/*/meta.json")):
        sid = os.path.basename(os.path.dirname(d))
        m = json.load(open(d))
        r = res.get(sid, {})
        det = [p for p, c in r.get("checks", {}).items() if c.get("rc") == 1 and c.get("violation_lines")]
        kind = "; ".join("%s: %s" % (p, "concrete input" if r["checks"][p].get("concrete") else "no-failing-input-found") for p in det)
        needs = m.get("summary") or m.get("needs_to_manifest", "")
        out.append("| %s | %s | %s | %s | %s |" % (sid, m.get("property"), needs.replace("|", "\\|")[:300],
                                               ", ".join(det) if det else ("**not detected**" if r else "not run yet"), kind or "–"))
    return "\n".join(out)
def main():
    p = R + "/DESIGN.md"
    s = open(p).read()
    for tag, txt in (("FINDINGS", findings()), ("SEEDED", seeded())):
        b, e = "<!-- %s:BEGIN -->" % tag, "<!-- %s:END -->" % tag
        if b in s:
            s = s[:s.index(b) + len(b)] + "\n" + txt + "\n" + s[s.index(e):]
    open(p, "w").write(s)
if __name__ == "__main__":
    main()
