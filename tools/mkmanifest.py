#!/usr/bin/env python3
"""Assemble MANIFEST.json from manifest.d/Cxx.json fragments (one check entry each).
Properties without a fragment are listed under not_applicable with the reason found in
manifest.d/not_applicable.json (or 'check not built yet')."""
import json, os, glob
R = os.path.dirname(os.path.dirname(os.path.abspath(__file__)))
props = [json.loads(l) for l in open(os.path.join(R, "properties.jsonl"))]
checks = []
for f in sorted(glob.glob(os.path.join(R, "manifest.d", "C*.json"))):
    checks.append(json.load(open(f)))
claimed = {c["property_id"] for c in checks}
reasons = {}
p = os.path.join(R, "manifest.d", "not_applicable.json")
if os.path.exists(p):
    reasons = json.load(open(p))
na = [{"property_id": q["id"], "reason": reasons.get(q["id"], "check not built yet (work in progress; DESIGN.md describes the planned Lean model and tie)")}
      for q in props if q["id"] not in claimed]
hooks = json.load(open(os.path.join(R, "manifest.d", "hooks.json")))
m = {"version": 1, "setup_cmd": "python3 check.py --setup", "hooks": hooks,
     "engines": [{"name": "lean4-proof", "path": "/verif/lean", "serves_properties": sorted(claimed),
                  "kind_free_text": "Lean 4.33 library (core only, no Mathlib) with one Model/Props/Driver per property, compiled line-protocol drivers; Python orchestration (check.py, vlib/, checks/); clang-AST translators in tools/; C++ correspondence harnesses in harness/ built against libvita rebuilt from /repo's working tree"}],
     "checks": checks, "not_applicable": na,
     "notes": "Entries under not_applicable with reason 'check not built yet' are work in progress, not judgements of inapplicability."}
json.dump(m, open(os.path.join(R, "MANIFEST.json"), "w"), indent=1)
print("claimed:", sorted(claimed))
