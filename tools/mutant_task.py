#!/usr/bin/env python3
"""Write /tmp/mut/<id>/TASK.md: the brief for an independent mutant-writing sub-agent
(it gets the property text and a scratch worktree of /repo, nothing from /verif)."""
import json, os, subprocess, sys
R = os.path.dirname(os.path.dirname(os.path.abspath(__file__)))
props = {json.loads(l)["id"]: json.loads(l) for l in open(os.path.join(R, "properties.jsonl"))}
ROUND = 1
args = sys.argv[1:]
if "--round" in args:
    ROUND = int(args[args.index("--round") + 1]); del args[args.index("--round"):args.index("--round") + 2]
def earlier(pid):
    """one-line summaries of the changes earlier writers already produced for this property (titles only:
    nothing about the verification machinery), so that a later round produces different ones"""
    out = []
    sd = os.path.join(R, "seeded")
    for m in sorted(os.listdir(sd)):
        mj = os.path.join(sd, m, "meta.json")
        if m.startswith(pid + "-") and os.path.exists(mj):
            s = json.load(open(mj)).get("summary") or ""
            if not s:
                rd = os.path.join(sd, m, "README.md")
                if os.path.exists(rd):
                    s = open(rd).readline().strip("# \n")
            out.append("  * " + s)
    return "\n".join(out)
for pid in args:
    p = props[pid]
    d = f"/tmp/mut{'' if ROUND == 1 else ROUND}/{pid}"
    os.makedirs(d + "/out", exist_ok=True)
    wt = d + "/repo"
    if not os.path.exists(wt):
        subprocess.run(["git", "-C", "/repo", "worktree", "add", "--detach", wt, "HEAD"], check=True,
                       stdout=subprocess.DEVNULL, stderr=subprocess.DEVNULL)
    open(d + "/TASK.md", "w").write(f"""# Task: write changes to morinim/vita that break one stated property

morinim/vita is a C++17 genetic-programming framework. You have your own scratch git worktree of it at
`{wt}` (work ONLY there and under `{d}`; never touch /repo, never look at /verif — your work must be
independent of it). No network.

## The property ({pid}: {p['title']})

{p['statement']}

Quantified over: {p['quantifier']['text']}

Why the existing tests cannot settle it: {p['why_tests_cant']}

Relevant files (read them): {', '.join(p['anchors']['files'])}

{("## Changes other writers already produced (yours must differ in mechanism AND location from all of these)" + chr(10) + chr(10) + earlier(pid) + chr(10)) if ROUND > 1 else ""}
## What to produce

THREE different changes (source patches) to the library code under `src/kernel` / `src/utility`, each of which
 * breaks the property above (the library now really violates it),
 * still compiles, and still passes the repository's existing test-suite (same results as before the change),
 * looks like a plausible mistake or "optimisation" a developer could make (no obviously malicious code, no
   special-casing on magic values that a reviewer would spot at once),
 * needs something SPECIFIC to manifest — a particular interleaving, a crash or fault at a particular point, a
   multi-step sequence of operations, an unusual / boundary input, or two cooperating sites that each look fine
   alone — NOT something ordinary use would expose at once,
 * are different from each other in mechanism and location.
For each change also write a demonstration: a small C++ program (or test) that FAILS (non-zero exit, or
prints FAIL) with the change applied and PASSES without it, showing the property violation through the
public API.

## How to build and test

    cd {wt}
    cmake -G Ninja -S src -B _b -DCMAKE_BUILD_TYPE=RelWithDebInfo -DCMAKE_CXX_FLAGS=-Wno-error   (once)
    cmake --build _b -j6                      (about 2-4 minutes the first time; other jobs share the machine)
    ctest --test-dir _b/test -j4 --timeout 900
Baseline on the unchanged tree: all 30 ctest executables pass (139 doctest cases); results with your change must be
identical, executable by executable.
A demo can be compiled like: `g++ -std=c++17 -O1 -g -DNDEBUG -I src -isystem src/third_party demo.cc _b/kernel/libvita.a _b/third_party/tinyxml2/libtinyxml2.a -pthread -o demo`
(add `-fsanitize=address,undefined` and rebuild the library objects yourself if the violation is undefined
behaviour; say so in the README). In programs that run evolution set `vita::log::reporting_level = vita::log::lOFF;`
and run with stdin from /dev/null.

## Deliverables (exact layout)

    {d}/out/1/patch.diff    `git diff` of the change, applicable with `git apply` on the unchanged tree
    {d}/out/1/demo.cc       the demonstration (+ any data files it needs)
    {d}/out/1/README.md     what the change is, why it breaks the property, what it needs in order to manifest,
                            exact commands you ran: build, test-suite result with the change, demo result with
                            and without the change
    {d}/out/2/…  {d}/out/3/…   likewise
Before finishing: `git -C {wt} checkout -- .` so the worktree is clean, and delete your `_b` build directory
(`rm -rf {wt}/_b`) — disk is limited. Report a short summary of the three changes.
""")
    print(d + "/TASK.md")
