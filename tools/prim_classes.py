"""Class / member tables of vita's primitive headers (src/kernel/gp/src/primitive/*.h), extracted
from the clang AST (shared by translate_int.py and translate_real.py – properties C13 / C14).

`header_scan()`   : the headers of the directory and, per header, the namespaces it opens and the
                    class names it spells (a textual scan used ONLY as a completeness cross-check:
                    every namespace found is queried through the AST and every spelled class must
                    be found in the AST tables; the tables themselves come from the AST).
`class_table(ns)` : [(class, base, [methods defined with a body], header)] for a NamespaceDecl dump.
"""
import os
import re

from cxx2lean import REPO, Refuse, kids

PRIM_DIR = os.path.join(REPO, "src", "kernel", "gp", "src", "primitive")


def strip_comments(txt):
    txt = re.sub(r"/\*.*?\*/", " ", txt, flags=re.S)
    return re.sub(r"//[^\n]*", " ", txt)


def header_scan():
    """{header: {"namespaces": [...], "classes": [...]}} for every *.h of the primitive directory."""
    out = {}
    for f in sorted(os.listdir(PRIM_DIR)):
        if not f.endswith(".h"):
            continue
        txt = strip_comments(open(os.path.join(PRIM_DIR, f), encoding="utf-8", errors="replace").read())
        nss = re.findall(r"\bnamespace\s+([A-Za-z_][\w:]*)", txt)
        cls = re.findall(r"\b(?:class|struct)\s+([A-Za-z_]\w*)\s*(?:final\s*)?(?::[^;{]*)?\{", txt)
        out[f] = {"namespaces": sorted(set(nss)), "classes": cls}
    return out


def class_table(ns_doc):
    """[(class name, base class, [names of the methods defined with a body], header file name)]"""
    hdr = os.path.basename(ns_doc.get("loc", {}).get("file", "") or
                           ns_doc.get("range", {}).get("begin", {}).get("file", "") or "?")
    out = []
    for c in kids(ns_doc):
        if c.get("kind") != "CXXRecordDecl" or not c.get("completeDefinition") or c.get("isImplicit"):
            continue
        bases = [b.get("type", {}).get("qualType", "?") for b in c.get("bases", [])]
        if len(bases) > 1:
            raise Refuse("class %s has several bases" % c.get("name"))
        base = bases[0].replace("vita::", "") if bases else "-"
        methods = []
        for m in kids(c):
            if m.get("kind") == "CXXMethodDecl" and not m.get("isImplicit") and \
                    any(k.get("kind") == "CompoundStmt" for k in kids(m)):
                methods.append(m.get("name"))
        out.append((c.get("name"), base, methods, hdr))
    return out


def free_functions(ns_doc):
    return [c.get("name") for c in kids(ns_doc)
            if c.get("kind") == "FunctionDecl" and any(k.get("kind") == "CompoundStmt" for k in kids(c))]


def method(ns_doc, cls, name):
    for c in kids(ns_doc):
        if c.get("kind") == "CXXRecordDecl" and c.get("completeDefinition") and c.get("name") == cls:
            for m in kids(c):
                if m.get("kind") == "CXXMethodDecl" and m.get("name") == name and \
                        any(k.get("kind") == "CompoundStmt" for k in kids(m)):
                    return m
    return None


def bool_flag(m):
    """value of a member of the form `bool f() const { return true|false; }`"""
    body = [k for k in kids(m) if k.get("kind") == "CompoundStmt"][0]
    st = kids(body)
    if len(st) == 1 and st[0].get("kind") == "ReturnStmt":
        e = kids(st[0])[0]
        while e.get("kind") in ("ImplicitCastExpr", "ParenExpr", "ConstantExpr") and kids(e):
            e = kids(e)[0]
        if e.get("kind") == "CXXBoolLiteralExpr":
            return bool(e["value"])
    raise Refuse("member %s is not `return true/false`" % m.get("name"))


def lean_str_list(xs):
    return "[" + ", ".join('"%s"' % x for x in xs) + "]"
