#!/usr/bin/env python3
"""Fill the `summary` / `needs_to_manifest` fields of seeded/<id>/meta.json from the writer's README.md."""
import json, os, re, sys
R = os.path.dirname(os.path.dirname(os.path.abspath(__file__)))
sd = os.path.join(R, "seeded")
for m in sorted(os.listdir(sd)):
    mj = os.path.join(sd, m, "meta.json"); rd = os.path.join(sd, m, "README.md")
    if not (os.path.exists(mj) and os.path.exists(rd)):
        continue
    j = json.load(open(mj)); txt = open(rd).read()
    ch = False
    if not j.get("summary"):
        first = next((l for l in txt.splitlines() if l.strip()), "").strip("# ").strip()
        j["summary"] = first; ch = True
    if j.get("needs_to_manifest", "see README.md") == "see README.md":
        mm = re.search(r"^#+\s*What it needs[^\n]*\n(.*?)(?=^#+\s|\Z)", txt, re.S | re.M | re.I)
        if mm:
            j["needs_to_manifest"] = " ".join(mm.group(1).split())[:900]; ch = True
    if ch:
        json.dump(j, open(mj, "w"), indent=1)
        print("updated", m)
