#!/usr/bin/env python3
"""Parallel version of seeded_run.py: re-runs the registered quick checks against every seeded change
under /verif/seeded/ with N workers, each in its own scratch copy of /verif (git worktree of HEAD, own
.lake and build/) and its own scratch worktree of /repo (VERIF_REPO), all under /var/tmp/seedpar and
removed afterwards.  /repo and /verif themselves are never modified (except seeded/RESULTS.json, which is
rewritten at the end by merging the workers' results).

  python3 tools/seeded_par.py [-j N] [<seeded-id> ...]

Used only to maintain seeded/RESULTS.json (which checks catch which seeded change); it is not a
registered check and produces no evidence."""
import json, os, shutil, subprocess, sys, time, threading, queue
R = os.path.dirname(os.path.dirname(os.path.abspath(__file__)))
W = "/var/tmp/seedpar"


def sh(cmd, **kw):
    return subprocess.run(cmd, stdout=subprocess.PIPE, stderr=subprocess.STDOUT, text=True, **kw)


def setup_worker(i):
    d = os.path.join(W, "w%d" % i)
    v, r = os.path.join(d, "verif"), os.path.join(d, "repo")
    os.makedirs(d, exist_ok=True)
    if not os.path.exists(v):
        assert sh(["git", "-C", R, "worktree", "add", "--detach", v, "HEAD"]).returncode == 0
    if not os.path.exists(r):
        assert sh(["git", "-C", "/repo", "worktree", "add", "--detach", r, "HEAD"]).returncode == 0
    return v, r


def teardown_worker(i):
    d = os.path.join(W, "w%d" % i)
    sh(["git", "-C", R, "worktree", "remove", "--force", os.path.join(d, "verif")])
    sh(["git", "-C", "/repo", "worktree", "remove", "--force", os.path.join(d, "repo")])
    shutil.rmtree(d, ignore_errors=True)


def run_one(sid, v, r, tier, jobs):
    d = os.path.join(R, "seeded", sid)
    meta = json.load(open(os.path.join(d, "meta.json")))
    props = meta["property"] if isinstance(meta["property"], list) else [meta["property"]]
    also = meta.get("also_run", [])
    patch = os.path.join(d, "patch.rebased.diff")
    if not os.path.exists(patch):
        patch = os.path.join(d, "patch.diff")
    a = sh(["git", "-C", r, "apply", patch])
    if a.returncode != 0:
        a = sh(["git", "-C", r, "apply", "--3way", patch])
        if a.returncode != 0 or "with conflicts" in a.stdout:
            sh(["git", "-C", r, "reset", "-q", "--hard", "HEAD"])
            return {"error": "patch does not apply"}
        sh(["git", "-C", r, "reset", "-q"])
    out = {}
    try:
        for pid in props + also:
            t0 = time.time()
            env = dict(os.environ, VERIF_NO_EVIDENCE="1", VERIF_REPO=r, VERIF_JOBS=str(jobs))
            c = sh([sys.executable, os.path.join(v, "check.py"), pid, "--tier", tier], cwd=v, env=env)
            vio = [l.replace(v, "/verif") for l in c.stdout.splitlines() if l.startswith("VIOLATION")]
            out[pid] = {"rc": c.returncode, "violation_lines": vio[:3], "wall_s": round(time.time() - t0, 1),
                        "concrete": any("no-failing-input-found" not in l for l in vio)}
    finally:
        sh(["git", "-C", r, "checkout", "--", "."])
        sh(["git", "-C", r, "clean", "-fdq", "--", "src"])
        sh(["git", "-C", v, "checkout", "--", "lean", "harness"])
    return {"property": props, "tier": tier, "checks": out,
            "detected": any(out[p]["rc"] == 1 and out[p]["violation_lines"] for p in props + also)}


def main():
    args = sys.argv[1:]
    n = 4
    if "-j" in args:
        n = int(args[args.index("-j") + 1]); del args[args.index("-j"):args.index("-j") + 2]
    tier = "quick"
    sd = os.path.join(R, "seeded")
    ids = args or sorted(d for d in os.listdir(sd) if os.path.isdir(os.path.join(sd, d)))
    # group by property so that one worker keeps its Lean/harness caches warm for a property
    ids.sort(key=lambda s: (s.split("-")[0], s))
    q = queue.Queue()
    for s in ids:
        q.put(s)
    results, lock = {}, threading.Lock()
    jobs = max(2, (os.cpu_count() or 8) // n)

    def worker(i):
        v, r = setup_worker(i)
        while True:
            try:
                sid = q.get_nowait()
            except queue.Empty:
                break
            try:
                res = run_one(sid, v, r, tier, jobs)
            except Exception as e:  # noqa
                res = {"error": repr(e)}
            with lock:
                results[sid] = res
                ch = res.get("checks", {})
                print(sid, "detected=%s" % res.get("detected"),
                      {p: (c["rc"], "concrete" if c["concrete"] else "no-input") for p, c in ch.items()},
                      res.get("error", ""), flush=True)
        teardown_worker(i)

    ts = [threading.Thread(target=worker, args=(i,)) for i in range(n)]
    for t in ts:
        t.start()
    for t in ts:
        t.join()
    resf = os.path.join(sd, "RESULTS.json")
    allr = json.load(open(resf)) if os.path.exists(resf) else {}
    allr.update(results)
    json.dump(allr, open(resf, "w"), indent=1)
    print("not detected:", sorted(s for s in ids if not results.get(s, {}).get("detected")))
    shutil.rmtree(W, ignore_errors=True)
    return 0


if __name__ == "__main__":
    sys.exit(main())
