#!/usr/bin/env python3
"""Run the registered checks against the seeded breaking changes kept under /verif/seeded/.

  python3 tools/seeded_run.py [<seeded-id> ...] [--tier quick]

For each seeded/<id>/ (patch.diff + meta.json {"property": "Cxx", ...}) the patch is applied to
/repo's working tree (`git apply`), the property's check is run, and the patch is undone straight
afterwards (`git checkout -- .`); generated Lean files are restored from git.  Results are written
to seeded/RESULTS.json: detected = exit 1 with a VIOLATION line for that property.
/repo must be clean when this starts."""
import json, os, subprocess, sys, time
R = os.path.dirname(os.path.dirname(os.path.abspath(__file__)))
REPO = "/repo"
def sh(cmd, **kw):
    return subprocess.run(cmd, stdout=subprocess.PIPE, stderr=subprocess.STDOUT, text=True, **kw)
def main():
    args = [a for a in sys.argv[1:] if not a.startswith("--")]
    tier = sys.argv[sys.argv.index("--tier") + 1] if "--tier" in sys.argv else "quick"
    if tier in args:
        args.remove(tier)
    if sh(["git", "-C", REPO, "status", "--porcelain", "--untracked-files=no"]).stdout.strip():
        print("refusing: /repo has uncommitted changes"); return 2
    sd = os.path.join(R, "seeded")
    ids = args or sorted(d for d in os.listdir(sd) if os.path.isdir(os.path.join(sd, d)))
    resf = os.path.join(sd, "RESULTS.json")
    results = json.load(open(resf)) if os.path.exists(resf) else {}
    for sid in ids:
        d = os.path.join(sd, sid)
        meta = json.load(open(os.path.join(d, "meta.json")))
        props = meta["property"] if isinstance(meta["property"], list) else [meta["property"]]
        also = meta.get("also_run", [])
        patch = os.path.join(d, "patch.rebased.diff") if os.path.exists(os.path.join(d, "patch.rebased.diff")) \
            else os.path.join(d, "patch.diff")
        r = sh(["git", "-C", REPO, "apply", patch])
        if r.returncode != 0:       # the tree moved on (fix commits): try a 3-way merge of the patch
            r = sh(["git", "-C", REPO, "apply", "--3way", patch])
            if r.returncode != 0 or "with conflicts" in r.stdout:
                sh(["git", "-C", REPO, "reset", "-q", "--hard", "HEAD"])
                r.returncode = 1
            else:
                sh(["git", "-C", REPO, "reset", "-q"])      # keep the change in the working tree only
        if r.returncode != 0:
            print(sid, "patch does not apply:", r.stdout[-500:]); results[sid] = {"error": "patch does not apply"}; continue
        out = {}
        try:
            for pid in props + also:
                t0 = time.time()
                c = sh([sys.executable, os.path.join(R, "check.py"), pid, "--tier", tier], cwd=R,
                       env=dict(os.environ, VERIF_NO_EVIDENCE="1"))
                vio = [l for l in c.stdout.splitlines() if l.startswith("VIOLATION")]
                out[pid] = {"rc": c.returncode, "violation_lines": vio[:3], "wall_s": round(time.time() - t0, 1),
                            "concrete": any("no-failing-input-found" not in l for l in vio)}
                print(sid, pid, "rc=%d" % c.returncode, vio[:1])
        finally:
            sh(["git", "-C", REPO, "checkout", "--", "."])
            sh(["git", "-C", R, "checkout", "--", "lean"])
        results[sid] = {"property": props, "tier": tier, "checks": out,
                        "detected": any(out[p]["rc"] == 1 and out[p]["violation_lines"] for p in props + also)}
        json.dump(results, open(resf, "w"), indent=1)
    nd = [s for s in ids if not results.get(s, {}).get("detected")]
    print("not detected:", nd)
    return 0
if __name__ == "__main__":
    sys.exit(main())
