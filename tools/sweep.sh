#!/bin/bash
# seed sweep of the registered checks on the clean tree: tools/sweep.sh "<seeds>" "<props>" [tier]
SEEDS=${1:-"1 2 3 4 5"}; PROPS=${2:-$(python3 -c "import json;print(' '.join(c['property_id'] for c in json.load(open('MANIFEST.json'))['checks']))")}; TIER=${3:-quick}
export VERIF_NO_EVIDENCE=1
python3 check.py --setup > /dev/null 2>&1
for s in $SEEDS; do for p in $PROPS; do
  out=$(VERIF_SEED=$s python3 check.py $p --tier $TIER 2>&1 | grep -E "^(OK|VIOLATION|KNOWN)" | head -3 | tr '\n' ' ')
  echo "seed=$s $p: $out"
done; done
