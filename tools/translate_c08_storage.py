#!/usr/bin/env python3
"""C08: translate, from the clang AST of the *current* repo working tree (syntax only),

  * the special member functions of the three flavours of `detail::reg_lambda_f_storage`
    (src/kernel/gp/detail/lambda_f.h): which are user-provided / defaulted / not declared and what
    each does with `ind_` (the stored individual) and `int_` (the interpreter = a pointer to an
    individual);
  * what every `lambdify` hands out (`sum_of_errors_evaluator`, `dyn_slot_evaluator`,
    `gaussian_evaluator`, `binary_evaluator`: the model class and its storage flag `S`), which member
    the forwarding evaluators (`constrained_evaluator`, `evaluator_proxy`) delegate to, and which
    evaluator `src_search::lambdify` asks;

into lean/Vita/C08/GenStorage.lean (tables interpreted by Vita/C08/Lifetime.lean).

The EFFECTIVE member is emitted: a defaulted / implicit operation is the memberwise one, a move
operation that is not declared (suppressed by a user-declared copy operation or destructor) is the
copy operation (overload resolution falls back to it).  Refuses (exit 2) on any statement or
initialiser it does not understand – never skips code."""
import os
import re
import sys

sys.path.insert(0, os.path.dirname(os.path.abspath(__file__)))
from cxx2lean import Refuse, ast_dump, kids, find_all  # noqa: E402

HERE = os.path.dirname(os.path.abspath(__file__))
OUT = os.path.join(os.path.dirname(HERE), "lean", "Vita", "C08", "GenStorage.lean")
WRAP = {"ExprWithCleanups", "MaterializeTemporaryExpr", "CXXBindTemporaryExpr", "ParenExpr", "ConstantExpr",
        "ImplicitCastExpr", "CXXFunctionalCastExpr", "CXXStaticCastExpr"}


def peel(n):
    while n.get("kind") in WRAP and len(kids(n)) == 1:
        n = kids(n)[0]
    if n.get("kind") == "ParenListExpr" and len(kids(n)) == 1:
        return peel(kids(n)[0])
    return n


def is_this(n):
    return peel(n).get("kind") == "CXXThisExpr"


def own_member(n):
    """name of `this->m` / `m`, else None"""
    n = peel(n)
    if n.get("kind") == "MemberExpr" and kids(n) and is_this(kids(n)[0]):
        return n.get("name")
    if n.get("kind") == "CXXDependentScopeMemberExpr" and kids(n) and is_this(kids(n)[0]):
        return n.get("member")
    return None


def param_ref(n, params):
    n = peel(n)
    if n.get("kind") == "DeclRefExpr" and n.get("referencedDecl", {}).get("name") in params:
        return n["referencedDecl"]["name"]
    return None


def other_member(n, other):
    """name of `other.m` where `other` is the parameter of the same class, else None"""
    n = peel(n)
    if n.get("kind") in ("MemberExpr", "CXXDependentScopeMemberExpr") and kids(n):
        if param_ref(kids(n)[0], [other]) is not None:
            return n.get("name") or n.get("member")
    return None


def call_name(n):
    n = peel(n)
    if n.get("kind") != "CallExpr":
        return None, []
    f = peel(kids(n)[0])
    name = None
    if f.get("kind") == "UnresolvedLookupExpr":
        name = f.get("name")
    elif f.get("kind") == "DeclRefExpr":
        name = f.get("referencedDecl", {}).get("name")
    return name, kids(n)[1:]


def value_of(n, other, ind_param):
    """classify an initialiser / right-hand side:
       ('own&', m)  &this->m  or  src_interpreter<T>(&this->m)
       ('param&',)  &ind  (ind = the individual handed to the constructor)
       ('param',)   ind
       ('other', m) other.m        ('move', m)  std::move(other.m)"""
    n = peel(n)
    k = n.get("kind")
    if k in ("CXXUnresolvedConstructExpr", "CXXConstructExpr", "CXXTemporaryObjectExpr") and len(kids(n)) == 1:
        return value_of(kids(n)[0], other, ind_param)
    if k == "UnaryOperator" and n.get("opcode") == "&":
        m = own_member(kids(n)[0])
        if m:
            return ("own&", m)
        if ind_param and param_ref(kids(n)[0], [ind_param]):
            return ("param&",)
        raise Refuse("address of something that is neither an own member nor the individual parameter")
    if ind_param and param_ref(n, [ind_param]):
        return ("param",)
    if other:
        m = other_member(n, other)
        if m:
            return ("other", m)
        name, args = call_name(n)
        if name == "move" and len(args) == 1:
            m = other_member(args[0], other)
            if m:
                return ("move", m)
    raise Refuse("initialiser / right-hand side of unknown shape: %s" % k)


class Flavour:
    def __init__(self, name, rec):
        self.name = name
        self.fields = [f.get("name") for f in kids(rec) if f.get("kind") == "FieldDecl"]
        self.cls = [r for r in kids(rec) if r.get("kind") == "CXXRecordDecl"][0].get("name")
        self.ctor_ind = None          # constructor from an individual
        self.members = {}             # 'copyCtor' | 'moveCtor' | 'copyAssign' | 'moveAssign' -> (status, ind, ptr)
        self.user_dtor = False
        self.load_ptr = None
        for m in kids(rec):
            k = m.get("kind")
            if k == "CXXDestructorDecl" and not m.get("isImplicit"):
                self.user_dtor = not m.get("explicitlyDefaulted")
            if k == "CXXConstructorDecl" and not m.get("isImplicit"):
                self.ctor(m)
            if k == "CXXMethodDecl" and m.get("name") == "operator=" and not m.get("isImplicit"):
                self.assign(m)

    # -- helpers
    def has(self, f):
        return f in self.fields

    def same_class_param(self, m):
        ps = [p for p in kids(m) if p.get("kind") == "ParmVarDecl"]
        if len(ps) != 1:
            return None, None
        t = ps[0].get("type", {}).get("qualType", "")
        if self.cls not in t:
            return None, None
        return ps[0].get("name"), ("move" if t.rstrip().endswith("&&") else "copy")

    def fold(self, writes, is_ctor):
        """(ind action, ptr action) from the ordered list of (field, value) writes"""
        ind, ptr = ("fresh" if is_ctor and self.has("ind_") else "none"), "keep"
        for f, v in writes:
            if f == "ind_":
                if v[0] == "param":
                    ind = "copyParam"
                elif v == ("other", "ind_"):
                    ind = "copy"
                elif v == ("move", "ind_"):
                    ind = "move"
                elif v == ("swap", "ind_"):
                    ind = "swap"
                else:
                    raise Refuse("ind_ written with %r" % (v,))
            elif f == "int_":
                if v == ("own&", "ind_"):
                    ptr = "seatOwn"
                elif v == ("param&",):
                    ptr = "seatParam"
                elif v in (("other", "int_"), ("move", "int_")):
                    ptr = "copyPtr"
                elif v == ("swap", "int_"):
                    ptr = "swapPtr"
                else:
                    raise Refuse("int_ written with %r" % (v,))
            else:
                raise Refuse("write to unknown member %s" % f)
        return ind, ptr

    def stmts(self, body, other, ind_param, out):
        for s in kids(body):
            k = s.get("kind")
            if k == "NullStmt":
                continue
            if k == "CompoundStmt":
                self.stmts(s, other, ind_param, out)
                continue
            if k == "ReturnStmt":
                continue
            if k == "DeclStmt":
                # `using std::swap;`
                if all(d.get("kind") in ("UsingDecl", "UsingShadowDecl") for d in kids(s)):
                    continue
                raise Refuse("local declaration in a special member function")
            if k == "IfStmt":
                c = kids(s)
                cond = peel(c[0])
                # `if (this != &rhs) { … }` : the self-assignment guard
                if cond.get("kind") in ("CXXOperatorCallExpr", "BinaryOperator") and other and \
                        any(is_this(x) for x in kids(cond)) and \
                        any(peel(x).get("kind") == "UnaryOperator" and param_ref(kids(peel(x))[0], [other])
                            for x in kids(cond)) and len(c) == 2:
                    self.stmts(c[1] if c[1].get("kind") == "CompoundStmt" else {"inner": [c[1]]}, other, ind_param, out)
                    continue
                # `if (!ind_.load(in, ss)) throw …;`  (stream constructor)
                if find_all(c[1], lambda n: n.get("kind") == "CXXThrowExpr") and len(c) == 2:
                    continue
                raise Refuse("if statement of unknown shape in a special member function")
            e = peel(s)
            if e.get("kind") == "BinaryOperator" and e.get("opcode") == "=":
                f = own_member(kids(e)[0])
                if f is None:
                    raise Refuse("assignment to something that is not an own member")
                out.append((f, value_of(kids(e)[1], other, ind_param)))
                continue
            if e.get("kind") == "CXXOperatorCallExpr":
                f0 = peel(kids(e)[0])
                if f0.get("name") == "operator=" and len(kids(e)) == 3:
                    f = own_member(kids(e)[1])
                    if f is None:
                        raise Refuse("assignment to something that is not an own member")
                    out.append((f, value_of(kids(e)[2], other, ind_param)))
                    continue
            name, args = call_name(e)
            if name == "swap" and len(args) == 2 and other:
                a, b = own_member(args[0]), other_member(args[1], other)
                if a is None or a != b:
                    a, b = own_member(args[1]), other_member(args[0], other)
                if a is None or a != b:
                    raise Refuse("swap of unknown operands")
                out.append((a, ("swap", a)))
                continue
            raise Refuse("statement of unknown shape in a special member function: %s" % k)

    def collect(self, m, other, ind_param):
        writes = []
        for ini in kids(m):
            if ini.get("kind") == "CXXCtorInitializer":
                f = ini.get("anyInit", {}).get("name")
                if f is None:
                    raise Refuse("base / delegating initialiser")
                writes.append((f, value_of(kids(ini)[0], other, ind_param)))
        body = [b for b in kids(m) if b.get("kind") == "CompoundStmt"]
        if body:
            self.stmts(body[0], other, ind_param, writes)
        return writes

    def ctor(self, m):
        ps = [p for p in kids(m) if p.get("kind") == "ParmVarDecl"]
        other, flavour = self.same_class_param(m)
        if other or (len(ps) == 1 and self.cls in ps[0].get("type", {}).get("qualType", "")):
            key = flavour + "Ctor"
            if m.get("explicitlyDeleted"):
                raise Refuse("deleted %s" % key)
            if m.get("explicitlyDefaulted"):
                self.members[key] = ("defaulted", None, None)
                return
            ind, ptr = self.fold(self.collect(m, other, None), True)
            self.members[key] = ("user", ind, ptr)
            return
        if len(ps) == 1:   # from an individual / a team
            ind, ptr = self.fold(self.collect(m, None, ps[0].get("name")), True) if self.has("int_") else ("none", "keep")
            self.ctor_ind = (ind, ptr)
            return
        if len(ps) == 2:   # (std::istream &, const symbol_set &)
            if self.has("int_"):
                _, ptr = self.fold([w for w in self.collect(m, None, None)], True)
                self.load_ptr = ptr
            return
        raise Refuse("constructor of unknown signature")

    def assign(self, m):
        other, flavour = self.same_class_param(m)
        if not other:
            raise Refuse("operator= of unknown signature")
        key = flavour + "Assign"
        if m.get("explicitlyDeleted"):
            raise Refuse("deleted %s" % key)
        if m.get("explicitlyDefaulted"):
            self.members[key] = ("defaulted", None, None)
            return
        ind, ptr = self.fold(self.collect(m, other, None), False)
        self.members[key] = ("user", ind, ptr)

    # -- C++ rules for the implicit members
    def effective(self):
        memberwise_copy = ("copy" if self.has("ind_") else "none", "copyPtr")
        memberwise_move = ("move" if self.has("ind_") else "none", "copyPtr")
        eff, why = {}, {}
        for key, mw in (("copyCtor", memberwise_copy), ("copyAssign", memberwise_copy)):
            st = self.members.get(key)
            if st is None:
                eff[key], why[key] = mw, "implicit (memberwise)"
            elif st[0] == "defaulted":
                eff[key], why[key] = mw, "= default (memberwise)"
            else:
                eff[key], why[key] = (st[1], st[2]), "user-provided"
        declared = lambda k: k in self.members
        suppress = declared("copyCtor") or declared("copyAssign") or self.user_dtor
        for key, fallback in (("moveCtor", "copyCtor"), ("moveAssign", "copyAssign")):
            st = self.members.get(key)
            partner = "moveAssign" if key == "moveCtor" else "moveCtor"
            if st is None:
                if suppress or declared(partner):
                    eff[key], why[key] = eff[fallback], "not declared: overload resolution selects the copy operation"
                else:
                    eff[key], why[key] = memberwise_move, "implicit (memberwise)"
            elif st[0] == "defaulted":
                eff[key], why[key] = memberwise_move, "= default (memberwise)"
            else:
                eff[key], why[key] = (st[1], st[2]), "user-provided"
        return eff, why


def lean_member(m):
    return "⟨.%s, .%s⟩" % m


def storage_flavours():
    docs = ast_dump("c08_storage_tu.cc", "vita::detail::reg_lambda_f_storage")
    out = {}
    for d in docs:
        if d.get("kind") != "ClassTemplatePartialSpecializationDecl":
            continue
        names = [m.get("name", "") for m in kids(d) if m.get("kind") == "CXXConstructorDecl"]
        if not names:
            raise Refuse("a storage specialisation without constructors")
        n0 = names[0]
        if "team<" in n0:
            key = "team"
        elif ", true, false>" in n0:
            key = "stored"
        elif ", false, false>" in n0:
            key = "ref"
        else:
            raise Refuse("unknown specialisation %s" % n0)
        if key in out:
            raise Refuse("two specialisations for " + key)
        out[key] = Flavour(key, d)
    if set(out) != {"stored", "ref", "team"}:
        raise Refuse("expected the three specialisations of reg_lambda_f_storage, found %s" % sorted(out))
    return out


def routes():
    """[(evaluator, model class, S)] from the instantiated lambdify bodies"""
    res = []
    for filt, label in (("vita::sum_of_errors_evaluator", "sum_of_errors_evaluator"),
                        ("vita::dyn_slot_evaluator", "dyn_slot_evaluator"),
                        ("vita::gaussian_evaluator", "gaussian_evaluator"),
                        ("vita::binary_evaluator", "binary_evaluator")):
        found = False
        for d in ast_dump("c08_storage_tu.cc", filt):
            if d.get("kind") != "ClassTemplateSpecializationDecl":
                continue
            for m in find_all(d, lambda n: n.get("kind") == "CXXMethodDecl" and n.get("name") == "lambdify"):
                body = [b for b in kids(m) if b.get("kind") == "CompoundStmt"]
                if not body:
                    continue
                st = [s for s in kids(body[0]) if s.get("kind") != "NullStmt"]
                if len(st) != 1 or st[0].get("kind") != "ReturnStmt":
                    raise Refuse("%s::lambdify is not a single return statement" % label)
                calls = find_all(st[0], lambda n: n.get("kind") == "CallExpr")
                tys = [c.get("type", {}).get("qualType", "") for c in calls]
                mm = None
                for t in tys:
                    mm = re.search(r"unique_ptr(?:_t)?<\s*(?:vita::)?(basic_\w+_lambda_f)<\s*(?:vita::)?i_mep,\s*(true|false)", t)
                    if mm:
                        break
                if not mm:
                    raise Refuse("%s::lambdify: cannot see the model type in %r" % (label, tys))
                res.append((label, mm.group(1), mm.group(2) == "true"))
                found = True
        if not found:
            raise Refuse("no instantiated body of %s::lambdify" % label)
    return res


def sel_of(n, locals_):
    """the evaluator expression `lambdify` is called on, as a `Sel` term"""
    n = peel(n)
    k = n.get("kind")
    if k == "UnaryOperator" and n.get("opcode") == "*":
        return sel_of(kids(n)[0], locals_)
    if k == "CXXOperatorCallExpr" and peel(kids(n)[0]).get("name") == "operator*" and len(kids(n)) == 2:
        return sel_of(kids(n)[1], locals_)
    m = own_member(n)
    if m:
        return '.member "%s"' % m
    if k == "DeclRefExpr":
        nm = n.get("referencedDecl", {}).get("name")
        if nm in locals_:
            return locals_[nm]
        return '.opaque "%s"' % nm
    if k == "ConditionalOperator":
        c, a, b = kids(n)
        cn, _ = call_name(c)
        if cn is None:
            cc = peel(c)
            cn = cc.get("member") or cc.get("name") or cc.get("kind")
            if cc.get("kind") == "CallExpr":
                f = peel(kids(cc)[0])
                cn = f.get("member") or f.get("name") or "call"
        return '.cond "%s" (%s) (%s)' % (cn, sel_of(a, locals_), sel_of(b, locals_))
    return '.opaque "%s"' % k


def delegation(filt, fn_class):
    """the `Sel` of the object whose lambdify is called inside <class>::lambdify (template pattern)"""
    for d in ast_dump("c08_storage_tu.cc", filt):
        if d.get("kind") != "CXXMethodDecl" or d.get("name") != "lambdify":
            continue
        body = [b for b in kids(d) if b.get("kind") == "CompoundStmt"]
        if not body:
            continue
        if fn_class not in str(find_all(d, lambda n: n.get("kind") == "CXXThisExpr")[:1]):
            continue
        locals_ = {}
        sel = None
        for s in kids(body[0]):
            for v in find_all(s, lambda n: n.get("kind") == "VarDecl"):
                init = kids(v)
                calls = [c for c in find_all(v, lambda n: n.get("kind") == "CallExpr")]
                lam = [c for c in calls if peel(kids(c)[0]).get("member") == "lambdify"]
                if lam:
                    sel = sel_of(kids(peel(kids(lam[0])[0]))[0], locals_)
                elif init:
                    locals_[v.get("name")] = sel_of(init[-1], locals_)
            if s.get("kind") == "ReturnStmt":
                lam = [c for c in find_all(s, lambda n: n.get("kind") == "CallExpr")
                       if peel(kids(c)[0]).get("member") == "lambdify"]
                if lam:
                    sel = sel_of(kids(peel(kids(lam[0])[0]))[0], locals_)
        if sel is None:
            raise Refuse("%s::lambdify: no call of lambdify found" % fn_class)
        return sel
    raise Refuse("no body of %s::lambdify" % fn_class)


def metrics():
    """names of the classes derived from vita::model_metric (clang-query over the same TU)"""
    import subprocess
    import tempfile
    from cxx2lean import REPO
    q = "set bind-root true\nset output dump\nmatch cxxRecordDecl(isDefinition(), isDerivedFrom(\"::vita::model_metric\"))\n"
    with tempfile.NamedTemporaryFile("w", suffix=".txt", dir=os.path.join(HERE, "tu"), delete=False) as f:
        f.write(q)
        qf = f.name
    try:
        p = subprocess.run(["clang-query-14", "-f", qf, os.path.join(HERE, "tu", "c08_storage_tu.cc"), "--",
                            "-std=c++17", "-I" + os.path.join(REPO, "src"), "-isystem",
                            os.path.join(REPO, "src", "third_party"), "-w", "-DNDEBUG", "-DVITA_VERIF"],
                           stdout=subprocess.PIPE, stderr=subprocess.PIPE)
    finally:
        os.unlink(qf)
    out = p.stdout.decode("utf-8", "replace")
    if p.returncode != 0 or not re.search(r"\d+ match(es)?\.", out):
        raise Refuse("clang-query failed: " + (out + p.stderr.decode("utf-8", "replace"))[-800:])
    names = re.findall(r"^CXXRecordDecl .*?\b(?:class|struct) (\w+) definition", out, re.M)
    n = int(re.search(r"(\d+) match(es)?\.", out).group(1))
    if len(names) != n:
        raise Refuse("clang-query: %d matches but %d names" % (n, len(names)))
    return sorted(set(names))


def generate():
    fl = storage_flavours()
    lines = ["/-",
             "  GENERATED by tools/translate_c08_storage.py from the clang AST of",
             "  src/kernel/gp/detail/lambda_f.h, src/kernel/gp/src/evaluator.tcc, src/kernel/gp/src/search.tcc,",
             "  src/kernel/constrained_evaluator.tcc, src/kernel/evaluator_proxy.tcc – do not edit.",
             "-/",
             "import Vita.C08.Lifetime",
             "namespace Vita.C08.Gen",
             "open Vita.C08.Life",
             ""]
    for key, lname in (("stored", "storedSmf"), ("ref", "refSmf")):
        f = fl[key]
        if f.ctor_ind is None:
            raise Refuse("%s: no constructor from an individual" % key)
        eff, why = f.effective()
        lines.append("/-- `reg_lambda_f_storage<T, %s, false>` : fields %s -/" % ("true" if key == "stored" else "false",
                                                                                  ", ".join(f.fields)))
        lines.append("def %s : Smf where" % lname)
        lines.append("  stored := %s" % ("true" if f.has("ind_") else "false"))
        lines.append("  ctor := %s" % lean_member(f.ctor_ind))
        for k in ("copyCtor", "copyAssign", "moveCtor", "moveAssign"):
            lines.append("  %s := %s   -- %s" % (k, lean_member(eff[k]), why[k]))
        lines.append("")
        if key == "stored":
            lines.append("/-- what the stream constructor binds the interpreter to -/")
            lines.append("def storedLoadPtr : PtrAct := .%s" % (f.load_ptr or "keep"))
            lines.append("")
    t = fl["team"]
    lines.append("/-- `reg_lambda_f_storage<team<T>, S, true>` : its fields and the special member functions it declares")
    lines.append("    (none: a team is copied / moved member by member through the element's own operations) -/")
    lines.append("def teamFields : List String := [%s]" % ", ".join('"%s"' % x for x in t.fields))
    lines.append("def teamDeclared : List String := [%s]" % ", ".join('"%s"' % x for x in sorted(t.members)))
    lines.append("")
    lines.append("/-- what each `lambdify` hands out: (evaluator, model class, `S` = stores its individual) -/")
    lines.append("def routes : List (String × String × Bool) :=")
    lines.append("  [" + ",\n   ".join('("%s", "%s", %s)' % (a, b, "true" if c else "false") for a, b, c in routes()) + "]")
    lines.append("")
    lines.append("/-- the evaluator `src_search::lambdify` asks -/")
    lines.append("def searchSel : Sel := %s" % delegation("vita::src_search", "src_search"))
    lines.append("")
    lines.append("/-- the evaluator the forwarding evaluators delegate `lambdify` to -/")
    lines.append("def constrainedSel : Sel := %s" % delegation("vita::constrained_evaluator", "constrained_evaluator"))
    lines.append("def proxySel : Sel := %s" % delegation("vita::evaluator_proxy", "evaluator_proxy"))
    lines.append("")
    lines.append("/-- every class derived from `model_metric` -/")
    lines.append("def metrics : List String := [%s]" % ", ".join('"%s"' % m for m in metrics()))
    lines.append("")
    lines.append("end Vita.C08.Gen")
    return "\n".join(lines) + "\n"


def main():
    try:
        txt = generate()
    except Refuse as e:
        print("translate_c08_storage: REFUSED: %s" % e, file=sys.stderr)
        return 2
    old = open(OUT).read() if os.path.exists(OUT) else None
    if old != txt:
        with open(OUT, "w") as f:
            f.write(txt)
    print("changed" if old != txt else "same")
    return 0


if __name__ == "__main__":
    sys.exit(main())
