#!/usr/bin/env python3
"""C04 — translate the fitness cache, its proxy and their call sites from the clang AST.

Writes lean/Vita/C04/Gen.lean (terms of Vita.C04.Lang and Vita.C04.Sites).  Syntax only: the meaning
of the terms is defined once in Lang.lean / Sites.lean, and Props.lean proves that the semantics of the
GENERATED terms is the model the property theorems are about.

(A) cache layer — exact, shape by shape; anything not listed in Lang.lean makes the translator refuse:
      hash_t::hash_t(a = 0, b = 0)     only checked (defaults 0, data{a, b}) so that `hash_t()` is the zero key
      hash_t::operator==               -> Gen.keyEq    : Expr   (0 = *this, 1 = argument)
      cache::index                     -> Gen.index    : Stmt
      cache::cache(unsigned bits)      -> Gen.ctorMask / ctorTable / ctorSeal : Expr  (mem-initialisers)
      cache::find / insert / clear() / clear(const hash_t &)  -> Gen.find / insert / clear / clearKey : Stmt
(B) proxy layer — evaluator_proxy<T,E>::operator() and clear() of EVERY instantiated specialisation
      (all must give the same term)      -> Gen.proxyCall / proxyClear : PStmt
(C) call sites — effect skeletons (Sites.Eff) of every class derived from validation_strategy
      (init / shake / close, own or inherited, private helpers inlined) and of search<T,ES>::run as
      src_search runs it (virtual calls resolved to the src_search overrides, this-calls inlined,
      evolution<T,ES>::run<shake> inlined with its `shake` parameter bound to the lambda of search::run).
      Atoms:  change  a non-const use of the training dataframe
              clear   clear() on the training evaluator (the strategy member bound, through the
                      constructor call in src_search::validation_strategy, to search::eva1_)
              eval    operator() on the training evaluator; any call into the evolution strategy `es_`
                      is `loop eval` (it may evaluate any number of individuals)
              load    load() on the training evaluator (search::load)
      Control flow: seq / branch / loop; `if (c) return …;` turns the rest of the block into the other
      branch; break/continue = "the rest of this iteration may be skipped"; a return inside a loop, a
      switch, goto or try is refused.  Unknown expression kinds are traversed (every call below them is
      classified), unknown statement kinds are refused.
"""
import concurrent.futures as cf
import hashlib
import os
import re
import sys

sys.path.insert(0, os.path.dirname(os.path.abspath(__file__)))
import cxx2lean as X  # noqa: E402
from cxx2lean import Refuse, ast_dump, kids, qtype  # noqa: E402

TU = "cache_tu.cc"

FILTERS = ["vita::hash_t", "vita::cache", "vita::evaluator_proxy", "vita::validation_strategy",
           "vita::as_is_validation", "vita::dss", "vita::holdout_validation", "search",
           "vita::evolution"]
# ("search" = vita::search and vita::src_search in ONE clang run: declaration ids are only comparable
#  within one run, and the call in src_search::validation_strategy refers to search::validation_strategy<V>)

WRAP = {"ExprWithCleanups", "MaterializeTemporaryExpr", "CXXBindTemporaryExpr", "ParenExpr", "ConstantExpr"}


def strip(e):
    """peel wrappers and value-preserving implicit casts"""
    while True:
        k = e.get("kind")
        if k in WRAP and len(kids(e)) == 1:
            e = kids(e)[0]
        elif k == "ImplicitCastExpr" and e.get("castKind") in ("NoOp", "LValueToRValue", "FunctionToPointerDecay",
                                                               "ArrayToPointerDecay", "DerivedToBase",
                                                               "UncheckedDerivedToBase") and len(kids(e)) == 1:
            e = kids(e)[0]
        else:
            return e


def has_body(n):
    return any(c.get("kind") == "CompoundStmt" for c in kids(n))


def body_of(n):
    return [c for c in kids(n) if c.get("kind") == "CompoundStmt"][0]


def params_of(n):
    return [c for c in kids(n) if c.get("kind") == "ParmVarDecl"]


LENIENT = [False]     # (C): a dependent callee inside a generic lambda is an unclassified call, not a refusal


def callee(call):
    f = strip(kids(call)[0])
    if f.get("kind") == "DeclRefExpr":
        return f.get("referencedDecl", {}).get("name"), f
    if f.get("kind") == "MemberExpr":
        return f.get("name"), f
    if f.get("kind") in ("UnresolvedLookupExpr", "UnresolvedMemberExpr", "CXXDependentScopeMemberExpr"):
        if LENIENT[0]:
            return None, f
        raise Refuse("unresolved callee %s (template not instantiated in tools/tu/%s?)" % (f.get("name"), TU))
    return None, f


def width(t):
    """'u32' / 'u64' / 'bool' / None for a (desugared) C++ type"""
    t = re.sub(r"^const\s+", "", t or "").strip()
    if t in ("unsigned int",):
        return "u32"
    if t in ("unsigned long", "unsigned long long"):
        return "u64"
    if t == "bool":
        return "bool"
    return None


def is_type(n, *names):
    t = re.sub(r"^const\s+", "", qtype(n)).replace("&", "").strip()
    t2 = re.sub(r"^const\s+", "", n.get("type", {}).get("qualType", "")).replace("&", "").strip()
    return t in names or t2 in names


KEY_T = ("vita::hash_t", "hash_t")
FIT_T = ("vita::fitness_t", "fitness_t", "vita::basic_fitness_t<double>", "basic_fitness_t<double>")
SLOT_T = ("vita::cache::slot", "slot", "cache::slot")
FIELDS = {"hash": "hash", "fitness": "fitness", "seal": "seal"}
MEMS = {"seal_": "seal_", "k_mask": "k_mask"}


# =============================================================================================
# (A) cache layer
# =============================================================================================
class CacheFn:
    def __init__(self, name, decl, const_method):
        self.name = name
        self.const_method = const_method
        self.ids = {}          # clang decl id -> local number
        self.names = []        # local number -> C++ name
        for p in params_of(decl):
            self.new_local(p)
        self.loopvars = set()

    def refuse(self, why, n=None):
        raise Refuse("%s: %s%s" % (self.name, why, (" (node %s)" % n.get("kind")) if n is not None else ""))

    def new_local(self, d):
        self.ids[d.get("id")] = len(self.names)
        self.names.append(d.get("name") or "_")
        return len(self.names) - 1

    def local(self, ref):
        rid = ref.get("referencedDecl", {}).get("id")
        if rid not in self.ids:
            self.refuse("reference to %s, which is neither a parameter nor a local" % ref.get("referencedDecl", {}).get("name"))
        return self.ids[rid]

    # ---- expressions --------------------------------------------------------------------
    def lit(self, n, want):
        v = int(n.get("value"))
        w = want or width(qtype(n))
        if w == "u32":
            return "(.u32 %d)" % v
        if w == "u64":
            return "(.u64 %d)" % v
        self.refuse("integer literal %d at a type that is neither unsigned nor a 64-bit word" % v, n)

    def this_member(self, n):
        """name of the data member for `this->m`, else None"""
        if n.get("kind") == "MemberExpr" and n.get("isArrow") and strip(kids(n)[0]).get("kind") == "CXXThisExpr":
            return n.get("name")
        return None

    def table_index(self, n):
        """n = table_[i] (operator[] on this->table_) -> the index expression, else None"""
        if n.get("kind") == "CXXOperatorCallExpr" and callee(n)[0] == "operator[]":
            ks = kids(n)
            if self.this_member(strip(ks[1])) == "table_":
                return self.expr(ks[2], "u64")
        return None

    def expr(self, n, want=None):
        k = n.get("kind")
        if k in WRAP and len(kids(n)) == 1:
            return self.expr(kids(n)[0], want)
        if k == "ImplicitCastExpr":
            ck = n.get("castKind")
            c = kids(n)[0]
            if ck in ("NoOp", "LValueToRValue"):
                return self.expr(c, want)
            if ck == "IntegralCast":
                w = width(qtype(n))
                if strip(c).get("kind") == "IntegerLiteral":
                    return self.lit(strip(c), w)
                if w is not None and w == width(qtype(c)):
                    return self.expr(c, want)
                self.refuse("integral conversion %s -> %s of a non-literal" % (qtype(c), qtype(n)), n)
            if ck == "IntegralToBoolean":
                s = strip(c)
                if s.get("kind") == "CXXMemberCallExpr" and callee(s)[0] == "size":
                    obj = kids(strip(kids(s)[0]))[0]
                    if is_type(strip(obj), *FIT_T):
                        return "(.nonEmpty %s)" % self.expr(obj)
                self.refuse("conversion to bool of something that is not fitness_t::size()", n)
            self.refuse("implicit cast %s" % ck, n)
        if k == "IntegerLiteral":
            return self.lit(n, want)
        if k == "CXXBoolLiteralExpr":
            return "(.bool %s)" % ("true" if n.get("value") else "false")
        if k == "DeclRefExpr":
            return "(.var %d)" % self.local(n)
        if k == "MemberExpr":
            m = self.this_member(n)
            if m is not None:
                if m in MEMS:
                    return "(.mem .%s)" % MEMS[m]
                self.refuse("data member `%s` of vita::cache is not part of the language (Lang.Mem)" % m, n)
            base = kids(n)[0]
            if n.get("name") in FIELDS and is_type(strip(base), *SLOT_T):
                return "(.field %s .%s)" % (self.expr(base), FIELDS[n.get("name")])
            self.refuse("member access .%s" % n.get("name"), n)
        if k == "ArraySubscriptExpr":
            b, i = kids(n)
            b = strip(b)
            i = strip(i)
            if b.get("kind") == "MemberExpr" and b.get("name") == "data" and i.get("kind") == "IntegerLiteral":
                obj = kids(b)[0]
                if strip(obj).get("kind") == "CXXThisExpr":
                    if "this" not in self.ids:
                        self.refuse("`this->data` outside hash_t")
                    return "(.word (.var %d) %d)" % (self.ids["this"], int(i.get("value")))
                if is_type(strip(obj), *KEY_T):
                    return "(.word %s %d)" % (self.expr(obj), int(i.get("value")))
            self.refuse("array subscript that is not <key>.data[<literal>]", n)
        if k in ("CXXConstructExpr", "CXXTemporaryObjectExpr"):
            args = [a for a in kids(n) if a.get("kind") != "CXXDefaultArgExpr"]
            if len(args) == 1 and (is_type(n, *KEY_T) or is_type(n, *FIT_T) or is_type(n, *SLOT_T)):
                return self.expr(args[0], want)          # copy / move construction
            if not args:
                if is_type(n, *KEY_T):
                    return ".emptyKey"
                if is_type(n, *FIT_T):
                    return ".emptyFit"
                if is_type(n, *SLOT_T):
                    return ".freshSlot"
            self.refuse("construction of %s" % qtype(n), n)
        if k == "InitListExpr" and not kids(n) and is_type(n, *FIT_T):
            return ".emptyFit"
        if k == "CXXOperatorCallExpr":
            name = callee(n)[0]
            ks = kids(n)[1:]
            if name == "operator[]":
                i = self.table_index(n)
                if i is not None:
                    return "(.slotAt %s)" % i
            if name == "operator==" and len(ks) == 2 and is_type(strip(ks[0]), *KEY_T) and is_type(strip(ks[1]), *KEY_T):
                return "(.keyEq %s %s)" % (self.expr(ks[0]), self.expr(ks[1]))
            self.refuse("call of %s" % name, n)
        if k == "CXXMemberCallExpr":
            name, me = callee(n)
            obj = strip(kids(me)[0]) if me.get("kind") == "MemberExpr" else {}
            if name == "index" and obj.get("kind") == "CXXThisExpr" and len(kids(n)) == 2:
                return "(.index %s)" % self.expr(kids(n)[1])
            self.refuse("member call %s" % name, n)
        if k == "BinaryOperator":
            a, b = kids(n)
            op = n.get("opcode")
            if op in ("==", "!="):
                wa = width(qtype(a)) or width(qtype(b))
                e = "(.eq %s %s)" % (self.expr(a, wa), self.expr(b, wa))
                return e if op == "==" else "(.not %s)" % e
            if op == "&&":
                return "(.and %s %s)" % (self.expr(a), self.expr(b))
            if op == "||":
                return "(.or %s %s)" % (self.expr(a), self.expr(b))
            w = width(qtype(n))
            if op == "&" and w == "u64":
                return "(.band %s %s)" % (self.expr(a, "u64"), self.expr(b, "u64"))
            if op == "-" and w == "u64":
                return "(.sub %s %s)" % (self.expr(a, "u64"), self.expr(b, "u64"))
            if op == "+" and w == "u32":
                return "(.add %s %s)" % (self.expr(a, "u32"), self.expr(b, "u32"))
            if op == "<<" and w == "u64":
                return "(.shl %s %s)" % (self.expr(a, "u64"), self.expr(b))
            self.refuse("binary operator %s at type %s" % (op, qtype(n)), n)
        if k == "UnaryOperator" and n.get("opcode") == "!":
            c = strip(kids(n)[0])
            if c.get("kind") == "ImplicitCastExpr" and c.get("castKind") == "IntegralToBoolean" \
                    and width(qtype(strip(kids(c)[0]))) == "u64":
                return "(.not %s)" % self.expr(kids(c)[0], "u64")      # `!word`: Lang's `.not` on a 64-bit word
            return "(.not %s)" % self.expr(kids(n)[0])
        self.refuse("expression kind %s" % k, n)

    # ---- lvalues ------------------------------------------------------------------------
    def lval(self, n):
        n = strip(n)
        k = n.get("kind")
        if k == "DeclRefExpr":
            return "(.var %d)" % self.local(n)
        if k == "MemberExpr":
            m = self.this_member(n)
            if m is not None:
                if m in MEMS:
                    return "(.mem .%s)" % MEMS[m]
                self.refuse("assignment to data member `%s`, which is not part of the language" % m, n)
            base = strip(kids(n)[0])
            if n.get("name") in FIELDS:
                if base.get("kind") == "DeclRefExpr":
                    return "(.varField %d .%s)" % (self.local(base), FIELDS[n.get("name")])
                i = self.table_index(base)
                if i is not None:
                    return "(.slotField %s .%s)" % (i, FIELDS[n.get("name")])
        if k == "CXXOperatorCallExpr":
            i = self.table_index(n)
            if i is not None:
                return "(.slotAt %s)" % i
        self.refuse("assignment target", n)

    # ---- statements ---------------------------------------------------------------------
    def seq(self, xs):
        xs = [x for x in xs if x != ".skip"]
        if not xs:
            return ".skip"
        r = xs[-1]
        for x in reversed(xs[:-1]):
            r = "(.seq %s %s)" % (x, r)
        return r

    def incr(self, n):
        """`++m` -> (lvalue, statement)"""
        tgt = kids(n)[0]
        lv = self.lval(tgt)
        if width(qtype(n)) != "u32":
            self.refuse("++ on something that is not `unsigned`", n)
        return tgt, "(.assign %s (.add %s (.u32 1)))" % (lv, self.expr(tgt))

    def decl(self, d):
        out = []
        for v in kids(d):
            if v.get("kind") != "VarDecl":
                self.refuse("declaration kind %s" % v.get("kind"), v)
            t = v.get("type", {}).get("qualType", "")
            init = [c for c in kids(v) if c.get("kind") and c.get("kind") != "FullComment"]
            if re.match(r"^std::(unique|shared)_lock<", t):
                a = [strip(x) for x in kids(init[0])] if init else []
                if len(a) != 1 or self.this_member(a[0]) != "mutex_":
                    self.refuse("lock on something else than mutex_", v)
                out.append("(.lock %s)" % ("true" if t.startswith("std::unique_lock") else "false"))
                continue
            if "&" in t:
                if not t.startswith("const ") or not self.const_method:
                    self.refuse("local reference `%s %s` (only a const reference in a const member is a snapshot)" % (t, v.get("name")), v)
            if len(init) != 1:
                self.refuse("declaration of `%s` without a single initialiser" % v.get("name"), v)
            e = self.expr(init[0], width(v.get("type", {}).get("desugaredQualType", t)))
            x = self.new_local(v)
            out.append("(.declare %d %s)" % (x, e))
        return self.seq(out)

    def stmt(self, s, in_loop=None):
        k = s.get("kind")
        if k == "CompoundStmt":
            return self.seq([self.stmt(c, in_loop) for c in kids(s)])
        if k == "NullStmt":
            return ".skip"
        if k in WRAP and len(kids(s)) == 1:
            return self.stmt(kids(s)[0], in_loop)
        if k == "DeclStmt":
            if in_loop is not None:
                self.refuse("declaration inside a loop over table_", s)
            return self.decl(s)
        if k == "CallExpr":
            if callee(s)[0] == "sched_point":
                return ".skip"                      # VITA_SCHED_POINT: verification hook, a no-op
            self.refuse("call of %s" % callee(s)[0], s)
        if k == "ReturnStmt":
            if in_loop is not None:
                self.refuse("return inside a loop over table_", s)
            ks = kids(s)
            return "(.ret %s)" % self.expr(ks[0]) if ks else ".retVoid"
        if k in ("BinaryOperator", "CXXOperatorCallExpr"):
            if k == "BinaryOperator":
                if s.get("opcode") != "=":
                    self.refuse("expression statement with operator %s" % s.get("opcode"), s)
                lhs, rhs = kids(s)
            else:
                if callee(s)[0] != "operator=":
                    self.refuse("expression statement calling %s" % callee(s)[0], s)
                lhs, rhs = kids(s)[1:]
            if in_loop is not None:
                l = strip(lhs)
                root = l if l.get("kind") == "DeclRefExpr" else (strip(kids(l)[0]) if l.get("kind") == "MemberExpr" and kids(l) else {})
                if root.get("kind") != "DeclRefExpr" or self.local(root) != in_loop:
                    self.refuse("the body of a loop over table_ writes something else than the loop variable", s)
            w = width(qtype(strip(lhs)))
            return "(.assign %s %s)" % (self.lval(lhs), self.expr(rhs, w))
        if k == "UnaryOperator" and s.get("opcode") == "++" and not s.get("isPostfix"):
            if in_loop is not None:
                self.refuse("++ inside a loop over table_", s)
            return self.incr(s)[1]
        if k == "IfStmt":
            if s.get("hasInit") or s.get("hasVar"):
                self.refuse("if with an init-statement / condition variable", s)
            inner = kids(s)
            cond, then = inner[0], inner[1]
            els = inner[2] if s.get("hasElse") and len(inner) > 2 else None
            pre = []
            c = strip(cond)
            # `if (++m == c)` : the increment happens first, unconditionally
            if c.get("kind") == "BinaryOperator" and c.get("opcode") in ("==", "!="):
                a, b = kids(c)
                sa = strip(a)
                if sa.get("kind") == "UnaryOperator" and sa.get("opcode") == "++" and not sa.get("isPostfix"):
                    if in_loop is not None:
                        self.refuse("++ inside a loop over table_", s)
                    tgt, st = self.incr(sa)
                    pre.append(st)
                    e = "(.eq %s %s)" % (self.expr(tgt), self.expr(b, "u32"))
                    ce = e if c.get("opcode") == "==" else "(.not %s)" % e
                else:
                    ce = self.expr(cond)
            else:
                ce = self.expr(cond)
            t = self.stmt(then, in_loop)
            e = self.stmt(els, in_loop) if els is not None else ".skip"
            return self.seq(pre + ["(.ite %s %s %s)" % (ce, t, e)])
        if k == "CXXForRangeStmt":
            if in_loop is not None:
                self.refuse("nested loop", s)
            decls = [c for c in kids(s) if c.get("kind") == "DeclStmt"]
            rng = kids(kids(decls[0])[0])
            if not rng or self.this_member(strip(rng[0])) != "table_":
                self.refuse("range-for over something else than table_", s)
            lv = kids(decls[-1])[0]
            t = lv.get("type", {}).get("qualType", "")
            if "&" not in t or t.startswith("const "):
                self.refuse("range-for over table_ with loop variable of type `%s` (expected a mutable reference)" % t, s)
            x = self.new_local(lv)
            body = kids(s)[-1]
            return "(.forSlots %d %s)" % (x, self.stmt(body, in_loop=x))
        self.refuse("statement kind %s" % k, s)

    def comment(self):
        return ", ".join("%d = %s" % (i, n) for i, n in enumerate(self.names))


# ---- cache::save / cache::load: statements with stream I/O (Vita.C04.IO.IStmt) -----------------
class CacheIOFn(CacheFn):
    """cache::save(std::ostream &) const / cache::load(std::istream &).  Pure statements go through
    CacheFn (wrapped in `.pure`); the I/O shapes accepted are listed in IO.lean, anything else is refused.
    `hash_t::empty()` is inlined from its own body (`empty_body`: a function obj-term -> Expr)."""

    def __init__(self, name, decl, const_method, empty_body):
        super().__init__(name, decl, const_method)
        ps = params_of(decl)
        if len(ps) != 1 or not re.search(r"(istream|ostream)", ps[0].get("type", {}).get("qualType", "")):
            self.refuse("expected a single stream parameter")
        self.stream = ps[0].get("id")
        self.is_in = "istream" in ps[0].get("type", {}).get("qualType", "")
        self.empty_body = empty_body
        self.uninit = set()          # scalar locals declared without an initialiser (set by `>>`)

    def is_stream(self, n):
        n = strip(n)
        return n.get("kind") == "DeclRefExpr" and n.get("referencedDecl", {}).get("id") == self.stream

    def mentions(self, n, decl_id):
        return bool(X.find_all(n, lambda c: c.get("kind") == "DeclRefExpr" and c.get("referencedDecl", {}).get("id") == decl_id))

    # expressions: hash_t::empty() on a slot's key is inlined
    def expr(self, n, want=None):
        if n.get("kind") == "CXXMemberCallExpr":
            name, me = callee(n)
            if name == "empty" and me.get("kind") == "MemberExpr" and len(kids(n)) == 1:
                obj = kids(me)[0]
                if is_type(strip(obj), *KEY_T):
                    return self.empty_body(self.expr(obj))
        if n.get("kind") == "DeclRefExpr" and n.get("referencedDecl", {}).get("id") == self.stream:
            self.refuse("use of the stream outside the accepted I/O shapes", n)
        return super().expr(n, want)

    def iseq(self, xs):
        """sequence of ('p', Stmt-term) / ('i', IStmt-term): consecutive pure statements share one `.pure`"""
        out, run = [], []
        for kind, t in xs:
            if kind == "p":
                if t != ".skip":
                    run.append(t)
            else:
                if run:
                    out.append("(.pure %s)" % self.seq(run))
                    run = []
                out.append(t)
        if run:
            out.append("(.pure %s)" % self.seq(run))
        if not out:
            return "(.pure .skip)"
        r = out[-1]
        for x in reversed(out[:-1]):
            r = "(.seq %s %s)" % (x, r)
        return r

    def stream_test(self, cond):
        """`!(in >> x)` -> ('read', x-local, kind) ; `!x.f.load(in)` -> ('load', x-local, field) ; else None"""
        c = strip(cond)
        inner = None
        if c.get("kind") == "CXXOperatorCallExpr" and callee(c)[0] == "operator!":
            inner = strip(kids(c)[1])
        elif c.get("kind") == "UnaryOperator" and c.get("opcode") == "!":
            inner = strip(kids(c)[0])
            if inner.get("kind") == "CXXMemberCallExpr" and callee(inner)[0] == "operator bool":
                inner = strip(kids(strip(kids(inner)[0]))[0])
        if inner is None:
            return None
        while inner.get("kind") == "ImplicitCastExpr" and len(kids(inner)) == 1:
            inner = strip(kids(inner)[0])
        if inner.get("kind") == "CXXOperatorCallExpr" and callee(inner)[0] == "operator>>":
            a = kids(inner)[1:]
            if len(a) == 2 and self.is_stream(a[0]) and strip(a[1]).get("kind") == "DeclRefExpr":
                if not self.is_in:
                    self.refuse(">> in a function without an input stream", cond)
                x = self.local(strip(a[1]))
                w = width(qtype(strip(a[1])))
                if w not in ("u32", "u64"):
                    self.refuse(">> into a variable of type %s" % qtype(strip(a[1])), cond)
                return ("read", x, ".u32" if w == "u32" else ".size")
            self.refuse(">> that is not `in >> <local>`", cond)
        if inner.get("kind") == "CXXMemberCallExpr" and callee(inner)[0] == "load":
            me = callee(inner)[1]
            obj = strip(kids(me)[0])
            a = kids(inner)[1:]
            if len(a) == 1 and self.is_stream(a[0]) and obj.get("kind") == "MemberExpr" and obj.get("name") in ("hash", "fitness"):
                root = strip(kids(obj)[0])
                if root.get("kind") == "DeclRefExpr" and is_type(root, *SLOT_T):
                    return ("load", self.local(root), "." + FIELDS[obj.get("name")])
            self.refuse("load() that is not `<local slot>.hash/fitness.load(in)`", cond)
        return None

    def out_chain(self, n):
        """`out << a << ' ' << b` -> [terms written], None if n is not such a chain"""
        n = strip(n)
        if self.is_stream(n):
            return []
        if n.get("kind") == "CXXOperatorCallExpr" and callee(n)[0] == "operator<<":
            a = kids(n)[1:]
            if len(a) != 2:
                return None
            left = self.out_chain(a[0])
            if left is None:
                return None
            r = strip(a[1])
            while r.get("kind") == "ImplicitCastExpr" and r.get("castKind") in ("LValueToRValue", "NoOp"):
                r = strip(kids(r)[0])
            if r.get("kind") == "CharacterLiteral":
                if int(r.get("value")) not in (32, 10):
                    self.refuse("separator character %s written by save" % r.get("value"), n)
                return left                                   # separators are not tokens
            w = width(qtype(strip(a[1])))
            if w not in ("u32", "u64"):
                self.refuse("<< of a value of type %s" % qtype(strip(a[1])), n)
            return left + ["(.write %s)" % self.expr(a[1], w)]
        return None

    def istmts(self, s, loop=None):
        """-> list of ('p'|'i', term).  loop: None | ('count', i-decl-id) | ('slots', local)"""
        k = s.get("kind")
        if k == "CompoundStmt":
            out = []
            for c in kids(s):
                out += self.istmts(c, loop)
            return out
        if k == "NullStmt":
            return []
        if k in WRAP and len(kids(s)) == 1:
            return self.istmts(kids(s)[0], loop)
        if k == "DeclStmt":
            vs = kids(s)
            if len(vs) == 1 and vs[0].get("kind") == "VarDecl":
                v = vs[0]
                init = [c for c in kids(v) if c.get("kind") and c.get("kind") != "FullComment"]
                t = v.get("type", {}).get("desugaredQualType", v.get("type", {}).get("qualType", ""))
                if not init and width(t) in ("u32", "u64"):
                    if loop is not None:
                        self.refuse("uninitialised scalar declared inside a loop", s)
                    x = self.new_local(v)
                    self.uninit.add(x)
                    return []
            if loop is not None and loop[0] == "slots":
                self.refuse("declaration inside a loop over table_", s)
            return [("p", self.decl(s))]
        if k == "ReturnStmt":
            ks = kids(s)
            if len(ks) == 1:
                r = strip(ks[0])
                if r.get("kind") == "CXXMemberCallExpr" and callee(r)[0] == "good":
                    obj = strip(kids(callee(r)[1])[0])
                    if self.is_stream(obj) and not self.is_in:
                        if loop is not None:
                            self.refuse("return inside a loop", s)
                        return [("i", ".retGood")]
                    self.refuse("good() on something else than the output stream", s)
            if loop is not None:
                self.refuse("return inside a loop (other than a failed read)", s)
            return [("p", "(.ret %s)" % self.expr(ks[0]) if ks else ".retVoid")]
        if k == "IfStmt":
            if s.get("hasInit") or s.get("hasVar"):
                self.refuse("if with an init-statement / condition variable", s)
            inner = kids(s)
            cond, then = inner[0], inner[1]
            els = inner[2] if s.get("hasElse") and len(inner) > 2 else None
            st = self.stream_test(cond)
            if st is not None:
                if els is not None:
                    self.refuse("failed-read test with an else branch", s)
                if loop is not None and loop[0] == "slots":
                    self.refuse("read inside a loop over table_", s)
                body = then
                while body.get("kind") == "CompoundStmt" and len(kids(body)) == 1:
                    body = kids(body)[0]
                if body.get("kind") != "ReturnStmt" or len(kids(body)) != 1:
                    self.refuse("a failed read must be followed by `return <value>;`", s)
                fail = self.expr(kids(body)[0])
                if st[0] == "read":
                    return [("i", "(.readOr %d %s %s)" % (st[1], st[2], fail))]
                return [("i", "(.loadFieldOr %d %s %s)" % (st[1], st[2], fail))]
            ce = self.expr(cond)
            t = self.iseq(self.istmts(then, loop))
            e = self.iseq(self.istmts(els, loop)) if els is not None else "(.pure .skip)"
            return [("i", "(.ite %s %s %s)" % (ce, t, e))]
        if k == "UnaryOperator" and s.get("opcode") == "++":
            tgt = strip(kids(s)[0])
            if tgt.get("kind") == "DeclRefExpr" and width(qtype(tgt)) == "u64":
                return [("i", "(.incr %d)" % self.local(tgt))]
            self.refuse("++ on something that is not a std::size_t local", s)
        if k == "CXXOperatorCallExpr" and callee(s)[0] == "operator<<":
            ch = self.out_chain(s)
            if ch is None or self.is_in:
                self.refuse("<< that is not a chain on the output stream", s)
            return [("i", c) for c in ch]
        if k == "CXXMemberCallExpr" and callee(s)[0] == "save":
            me = callee(s)[1]
            obj = strip(kids(me)[0])
            a = kids(s)[1:]
            if len(a) == 1 and self.is_stream(a[0]) and not self.is_in and obj.get("kind") == "MemberExpr" \
                    and obj.get("name") in ("hash", "fitness") and is_type(strip(kids(obj)[0]), *SLOT_T):
                return [("i", "(.saveField %s .%s)" % (self.expr(kids(obj)[0]), FIELDS[obj.get("name")]))]
            self.refuse("save() that is not `<slot>.hash/fitness.save(out)`", s)
        if k == "ForStmt":
            if loop is not None:
                self.refuse("nested loop", s)
            parts = s.get("inner", [])
            if len(parts) != 5:
                self.refuse("for statement with %d parts" % len(parts), s)
            init, condvar, cond, inc, body = parts
            if condvar.get("kind"):
                self.refuse("for with a condition variable", s)
            iv = kids(init)[0] if init.get("kind") == "DeclStmt" and len(kids(init)) == 1 else {}
            i0 = [strip(c) for c in kids(iv) if c.get("kind") != "FullComment"] if iv.get("kind") == "VarDecl" else []
            if len(i0) == 1 and i0[0].get("kind") == "ImplicitCastExpr":
                i0 = [strip(kids(i0[0])[0])]
            if len(i0) != 1 or i0[0].get("kind") != "IntegerLiteral" or int(i0[0].get("value")) != 0 \
                    or width(qtype(iv)) != "u64":
                self.refuse("for loop that does not start with a std::size_t counter at 0", s)
            iid = iv.get("id")
            c = strip(cond)
            if c.get("kind") != "BinaryOperator" or c.get("opcode") != "<":
                self.refuse("for loop whose condition is not `i < n`", s)
            a, b = [strip(x) for x in kids(c)]
            if a.get("kind") != "DeclRefExpr" or a.get("referencedDecl", {}).get("id") != iid \
                    or b.get("kind") != "DeclRefExpr" or width(qtype(b)) != "u64":
                self.refuse("for loop whose condition is not `i < n` with n a std::size_t local", s)
            n_local = self.local(b)
            n_id = b.get("referencedDecl", {}).get("id")
            u = strip(inc)
            if u.get("kind") != "UnaryOperator" or u.get("opcode") != "++" \
                    or strip(kids(u)[0]).get("referencedDecl", {}).get("id") != iid:
                self.refuse("for loop whose step is not ++i", s)
            if self.mentions(body, iid):
                self.refuse("the body of the counting loop mentions its counter", s)
            ws = X.find_all(body, lambda q: (q.get("kind") in ("BinaryOperator", "CompoundAssignOperator") and q.get("opcode", "").endswith("=")
                                             and q.get("opcode") not in ("==", "!=", "<=", ">=")
                                             and self.mentions(kids(q)[0], n_id))
                            or (q.get("kind") == "UnaryOperator" and q.get("opcode") in ("++", "--") and self.mentions(q, n_id))
                            or (q.get("kind") == "CXXOperatorCallExpr" and callee(q)[0] == "operator>>" and self.mentions(q, n_id)))
            if ws:
                self.refuse("the body of the counting loop changes its bound", s)
            return [("i", "(.forCount %d %s)" % (n_local, self.iseq(self.istmts(body, ("count", iid)))))]
        if k == "CXXForRangeStmt":
            if loop is not None:
                self.refuse("nested loop", s)
            decls = [c for c in kids(s) if c.get("kind") == "DeclStmt"]
            rng = kids(kids(decls[0])[0])
            if not rng or self.this_member(strip(rng[0])) != "table_":
                self.refuse("range-for over something else than table_", s)
            lv = kids(decls[-1])[0]
            t = lv.get("type", {}).get("qualType", "")
            if "&" in t and "const" not in t:
                self.refuse("range-for over table_ with a mutable loop variable in save/load", s)
            x = self.new_local(lv)
            body = kids(s)[-1]
            return [("i", "(.forSlots %d %s)" % (x, self.iseq(self.istmts(body, ("slots", x)))))]
        # everything else: a pure statement of Lang
        if loop is not None and loop[0] == "slots":
            self.refuse("statement kind %s inside a read-only loop over table_" % k, s)
        return [("p", self.stmt(s))]

    def body(self, b):
        return self.iseq(self.istmts(b))


def find_out_of_line(docs, name, nparams=None, kind="CXXMethodDecl"):
    c = [d for d in docs if d.get("kind") == kind and d.get("name") == name and has_body(d)
         and (nparams is None or len(params_of(d)) == nparams)]
    if len(c) != 1:
        raise Refuse("expected exactly one definition of %s/%s, found %d" % (name, nparams, len(c)))
    return c[0]


def record_methods(docs, cls):
    """methods with a body defined inside `class cls { … }` (inline definitions)"""
    out = []
    for d in docs:
        if d.get("kind") == "CXXRecordDecl" and d.get("name") == cls and d.get("completeDefinition"):
            out += [m for m in kids(d) if m.get("kind") in ("CXXMethodDecl", "CXXConstructorDecl") and has_body(m)]
    return out


def is_const_method(d):
    return d.get("type", {}).get("qualType", "").rstrip().endswith("const")


def cache_layer(dumps):
    res = {}
    # ---- hash_t
    hm = record_methods(dumps["vita::hash_t"], "hash_t")
    ctor = [m for m in hm if m.get("kind") == "CXXConstructorDecl" and len(params_of(m)) == 2]
    if len(ctor) != 1:
        raise Refuse("hash_t: expected the constructor hash_t(a = 0, b = 0)")
    ps = params_of(ctor[0])
    for p in ps:
        dv = [strip(c) for c in kids(p)]
        dv = [strip(kids(c)[0]) if c.get("kind") == "ImplicitCastExpr" and c.get("castKind") == "IntegralCast" else c for c in dv]
        if len(dv) != 1 or dv[0].get("kind") != "IntegerLiteral" or int(dv[0].get("value")) != 0:
            raise Refuse("hash_t::hash_t: default argument of `%s` is not 0 (hash_t() would not be the empty key)" % p.get("name"))
    inits = [c for c in kids(ctor[0]) if c.get("kind") == "CXXCtorInitializer"]
    ok = False
    if len(inits) == 1 and inits[0].get("anyInit", {}).get("name") == "data":
        il = [strip(c) for c in kids(inits[0])]
        if len(il) == 1 and il[0].get("kind") == "InitListExpr":
            el = [strip(c) for c in kids(il[0])]
            ok = [e.get("referencedDecl", {}).get("id") for e in el] == [p.get("id") for p in ps]
    if not ok or kids(body_of(ctor[0])):
        raise Refuse("hash_t::hash_t is not `: data{a, b} {}`")
    eq = [m for m in hm if m.get("name") == "operator=="]
    if len(eq) != 1:
        raise Refuse("hash_t::operator== not found")
    fn = CacheFn("hash_t::operator==", eq[0], True)
    fn.ids = {"this": 0}
    fn.names = ["*this"]
    for p in params_of(eq[0]):
        fn.new_local(p)
    b = kids(body_of(eq[0]))
    if len(b) != 1 or b[0].get("kind") != "ReturnStmt":
        raise Refuse("hash_t::operator== is not a single return statement")
    res["keyEq"] = (fn.expr(kids(b[0])[0]), fn.comment(), "Expr")
    # ---- cache
    docs = dumps["vita::cache"]
    for key, name, np in (("index", "index", 1), ("find", "find", 1), ("insert", "insert", 2),
                          ("clear", "clear", 0), ("clearKey", "clear", 1)):
        d = find_out_of_line(docs, name, np)
        fn = CacheFn("cache::" + name, d, is_const_method(d))
        res[key] = (fn.stmt(body_of(d)), fn.comment(), "Stmt")
    # ---- cache::save / cache::load (hash_t::empty() inlined from its own body)
    em = [m for m in hm if m.get("name") == "empty" and not params_of(m)]
    if len(em) != 1:
        raise Refuse("hash_t::empty not found")
    efn = CacheFn("hash_t::empty", em[0], True)
    efn.ids = {"this": 0}
    efn.names = ["*this"]
    eb = kids(body_of(em[0]))
    if len(eb) != 1 or eb[0].get("kind") != "ReturnStmt":
        raise Refuse("hash_t::empty is not a single return statement")
    empty_term = efn.expr(kids(eb[0])[0])

    def empty_body(obj):
        return empty_term.replace("(.var 0)", obj)
    for key, name in (("save", "save"), ("load", "load")):
        d = find_out_of_line(docs, name, 1)
        fn = CacheIOFn("cache::" + name, d, is_const_method(d), empty_body)
        if (name == "save") == fn.is_in:
            raise Refuse("cache::%s takes the wrong kind of stream" % name)
        res[key] = (fn.body(body_of(d)), fn.comment(), "IStmt")
    d = find_out_of_line(docs, "cache", 1, "CXXConstructorDecl")
    fn = CacheFn("cache::cache", d, False)
    got = {}
    for ci in [c for c in kids(d) if c.get("kind") == "CXXCtorInitializer"]:
        m = ci.get("anyInit", {}).get("name")
        e = kids(ci)[0]
        if m == "mutex_":
            continue
        if m == "k_mask":
            got["ctorMask"] = fn.expr(e, "u64")
        elif m == "seal_":
            got["ctorSeal"] = fn.expr(e, "u32")
        elif m == "table_":
            c = strip(e)
            a = [x for x in kids(c) if x.get("kind") != "CXXDefaultArgExpr"]
            if c.get("kind") != "CXXConstructExpr" or len(a) != 1:
                raise Refuse("cache::cache: table_ is not initialised with a size alone")
            got["ctorTable"] = fn.expr(a[0], "u64")
        else:
            raise Refuse("cache::cache initialises `%s`, which is not part of the language" % m)
    if sorted(got) != ["ctorMask", "ctorSeal", "ctorTable"]:
        raise Refuse("cache::cache: expected mem-initialisers for k_mask, table_, seal_; got %s" % sorted(got))
    if any(c.get("kind") != "NullStmt" for c in kids(body_of(d))):
        raise Refuse("cache::cache has a non-empty body")
    for k2, v in got.items():
        res[k2] = (v, fn.comment(), "Expr")
    return res


# =============================================================================================
# (B) proxy layer
# =============================================================================================
class ProxyFn:
    def __init__(self, name, decl):
        self.name = name
        ps = params_of(decl)
        self.prg = ps[0].get("id") if ps else None
        self.ids, self.names = {}, []

    def refuse(self, why, n=None):
        raise Refuse("%s: %s%s" % (self.name, why, (" (node %s)" % n.get("kind")) if n is not None else ""))

    def member_of_this(self, n):
        n = strip(n)
        if n.get("kind") == "MemberExpr" and n.get("isArrow") and strip(kids(n)[0]).get("kind") == "CXXThisExpr":
            return n.get("name")
        return None

    def var(self, n):
        n = strip(n)
        if n.get("kind") in ("CXXConstructExpr",) and len(kids(n)) == 1:
            return self.var(kids(n)[0])
        if n.get("kind") == "DeclRefExpr" and n.get("referencedDecl", {}).get("id") in self.ids:
            return self.ids[n["referencedDecl"]["id"]]
        self.refuse("expected a local fitness variable", n)

    def key(self, n):
        n = strip(n)
        if n.get("kind") == "CXXMemberCallExpr" and callee(n)[0] == "signature":
            obj = strip(kids(callee(n)[1])[0])
            if obj.get("kind") == "DeclRefExpr" and obj.get("referencedDecl", {}).get("id") == self.prg:
                return ".sigOfPrg"
        if n.get("kind") in ("CXXTemporaryObjectExpr", "CXXConstructExpr") and is_type(n, *KEY_T) and \
                not [a for a in kids(n) if a.get("kind") != "CXXDefaultArgExpr"]:
            return ".empty"
        self.refuse("cache key that is neither prg.signature() nor hash_t()", n)

    def pexpr(self, n):
        n = strip(n)
        k = n.get("kind")
        if k == "CXXConstructExpr" and len(kids(n)) == 1:
            return self.pexpr(kids(n)[0])
        if k == "DeclRefExpr":
            return "(.var %d)" % self.var(n)
        if k == "CXXMemberCallExpr":
            name, me = callee(n)
            if name == "find" and self.member_of_this(kids(me)[0]) == "cache_" and len(kids(n)) == 2:
                return "(.cacheFind %s)" % self.key(kids(n)[1])
        if k == "CXXOperatorCallExpr" and callee(n)[0] == "operator()":
            ks = kids(n)[1:]
            a = strip(ks[1]) if len(ks) == 2 else {}
            if self.member_of_this(ks[0]) == "eva_" and a.get("kind") == "DeclRefExpr" and \
                    a.get("referencedDecl", {}).get("id") == self.prg:
                return ".evaCall"
        self.refuse("expression", n)

    def seq(self, xs):
        xs = [x for x in xs if x != ".skip"]
        if not xs:
            return ".skip"
        r = xs[-1]
        for x in reversed(xs[:-1]):
            r = "(.seq %s %s)" % (x, r)
        return r

    def stmt(self, s):
        k = s.get("kind")
        if k == "CompoundStmt":
            return self.seq([self.stmt(c) for c in kids(s)])
        if k == "NullStmt":
            return ".skip"
        if k in WRAP and len(kids(s)) == 1:
            return self.stmt(kids(s)[0])
        if k == "DeclStmt":
            out = []
            for v in kids(s):
                if v.get("kind") != "VarDecl" or not is_type(v, *FIT_T) or "&" in v.get("type", {}).get("qualType", ""):
                    self.refuse("declaration of something that is not a fitness_t value", v)
                init = [c for c in kids(v) if c.get("kind") and c.get("kind") != "FullComment"]
                if len(init) != 1:
                    self.refuse("declaration without initialiser", v)
                e = self.pexpr(init[0])
                self.ids[v.get("id")] = len(self.names)
                self.names.append(v.get("name"))
                out.append("(.declare %d %s)" % (len(self.names) - 1, e))
            return self.seq(out)
        if k == "CXXOperatorCallExpr" and callee(s)[0] == "operator=":
            lhs, rhs = kids(s)[1:]
            return "(.assign %d %s)" % (self.var(lhs), self.pexpr(rhs))
        if k == "CXXMemberCallExpr":
            name, me = callee(s)
            if self.member_of_this(kids(me)[0]) == "cache_":
                a = kids(s)[1:]
                if name == "insert" and len(a) == 2:
                    return "(.cacheInsert %s %d)" % (self.key(a[0]), self.var(a[1]))
                if name == "clear" and not a:
                    return ".cacheClear"
            self.refuse("member call %s" % name, s)
        if k == "IfStmt":
            inner = kids(s)
            c = inner[0]
            if not (c.get("kind") == "ImplicitCastExpr" and c.get("castKind") == "IntegralToBoolean"):
                self.refuse("condition that is not <fitness>.size()", s)
            c = strip(kids(c)[0])
            if c.get("kind") != "CXXMemberCallExpr" or callee(c)[0] != "size":
                self.refuse("condition that is not <fitness>.size()", s)
            x = self.var(kids(callee(c)[1])[0])
            t = self.stmt(inner[1])
            e = self.stmt(inner[2]) if s.get("hasElse") and len(inner) > 2 else ".skip"
            return "(.ifNonEmpty %d %s %s)" % (x, t, e)
        if k == "ReturnStmt":
            ks = kids(s)
            if not ks:
                self.refuse("return without a value", s)
            return "(.ret %d)" % self.var(ks[0])
        self.refuse("statement kind %s" % k, s)


def template_args(spec):
    return [c.get("type", {}).get("qualType") for c in kids(spec) if c.get("kind") == "TemplateArgument"]


def specializations(docs, tmpl):
    out = []

    def walk(n):
        if n.get("kind") == "ClassTemplateSpecializationDecl" and n.get("name") == tmpl and len(kids(n)) > 3:
            out.append(n)
        for c in n.get("inner", []):
            if isinstance(c, dict) and c.get("kind") in ("ClassTemplateDecl", "NamespaceDecl",
                                                         "ClassTemplateSpecializationDecl"):
                walk(c)
    for d in docs:
        walk(d)
    return out


def proxy_layer(dumps):
    specs = specializations(dumps["vita::evaluator_proxy"], "evaluator_proxy")
    got = {}
    n = 0
    for s in specs:
        ms = {m.get("name"): m for m in kids(s) if m.get("kind") == "CXXMethodDecl" and has_body(m)}
        if "operator()" not in ms and "clear" not in ms:
            continue
        n += 1
        for key, name in (("proxyCall", "operator()"), ("proxyClear", "clear")):
            if name not in ms:
                continue
            fn = ProxyFn("evaluator_proxy<%s>::%s" % (", ".join(str(a) for a in template_args(s)), name), ms[name])
            t = (fn.stmt(body_of(ms[name])), ", ".join("%d = %s" % (i, x) for i, x in enumerate(fn.names)), "PStmt")
            if key in got and got[key][0] != t[0]:
                raise Refuse("specialisations of evaluator_proxy::%s differ: %s vs %s" % (name, got[key][0], t[0]))
            got[key] = t
    if sorted(got) != ["proxyCall", "proxyClear"]:
        raise Refuse("evaluator_proxy: operator() / clear not instantiated in tools/tu/%s" % TU)
    return got, n


# =============================================================================================
# (C) call sites: effect skeletons
# =============================================================================================
def eseq(*xs):
    xs = [x for x in xs if x != ("skip",)]
    if not xs:
        return ("skip",)
    r = xs[-1]
    for x in reversed(xs[:-1]):
        r = ("seq", x, r)
    return r


def simp(t):
    """drop control structure that can only produce the empty trace"""
    k = t[0]
    if k == "seq":
        items = []

        def flat(x):
            if x[0] == "seq":
                flat(x[1]); flat(x[2])
            else:
                items.append(simp(x))
        flat(t)
        flat2 = []
        for x in items:
            if x[0] == "seq":              # a simplified child may itself be a sequence
                y = x
                while y[0] == "seq":
                    flat2.append(y[1]); y = y[2]
                flat2.append(y)
            else:
                flat2.append(x)
        return eseq(*flat2)
    if k == "branch":
        a, b = simp(t[1]), simp(t[2])
        return ("skip",) if a == ("skip",) and b == ("skip",) else ("branch", a, b)
    if k == "loop":
        a = simp(t[1])
        return ("skip",) if a == ("skip",) else ("loop", a)
    return t


def elean(t):
    k = t[0]
    if k == "skip":
        return ".skip"
    if k == "atom":
        return "(.atom .%s)" % t[1]
    if k == "callVs":
        return "(.callVs .%s)" % t[1]
    if k == "seq":
        return "(.seq %s %s)" % (elean(t[1]), elean(t[2]))
    if k == "branch":
        return "(.branch %s %s)" % (elean(t[1]), elean(t[2]))
    if k == "loop":
        return "(.loop %s)" % elean(t[1])
    raise Refuse("internal: " + repr(t))


class Returns(Exception):
    pass


class Skel:
    """Effect skeleton of one function body in one class context."""

    def __init__(self, world, cls, fname, depth=0, lambdas=None, params=None):
        self.w = world
        self.cls = cls                  # class context (dict, see World.classes)
        self.fname = fname
        self.depth = depth
        self.lambdas = dict(lambdas or {})   # VarDecl id -> LambdaExpr node
        self.params = dict(params or {})     # ParmVarDecl id -> skeleton the parameter stands for when called
        self.aliases = set()            # local references to the training dataframe
        self.sites = world.sites

    def refuse(self, why, n=None):
        raise Refuse("%s::%s: %s%s" % (self.cls["name"], self.fname, why, (" (node %s)" % n.get("kind")) if n is not None else ""))

    def note(self, kind, what):
        s = (self.cls["name"] + "::" + self.fname, kind, what)
        if s not in self.sites:
            self.sites.append(s)

    # ---- classification helpers -------------------------------------------------------------
    def root_member(self, e):
        """name of the member of *this an object expression is rooted in (through ., ->, *, [], calls on it)"""
        e = strip(e)
        k = e.get("kind")
        if k == "MemberExpr":
            b = strip(kids(e)[0]) if kids(e) else {}
            if b.get("kind") == "CXXThisExpr":
                return e.get("name")
            return self.root_member(b)
        if k == "CXXOperatorCallExpr" and callee(e)[0] in ("operator*", "operator->", "operator[]"):
            return self.root_member(kids(e)[1])
        if k == "UnaryOperator" and e.get("opcode") in ("*", "&"):
            return self.root_member(kids(e)[0])
        if k == "CXXMemberCallExpr":
            me = callee(e)[1]
            if me.get("kind") == "MemberExpr" and kids(me):
                return self.root_member(kids(me)[0])
        return None

    def is_training_df(self, e):
        """does the glvalue `e` denote the training dataframe?"""
        e = strip(e)
        k = e.get("kind")
        if k == "MemberExpr" and strip(kids(e)[0]).get("kind") == "CXXThisExpr" if kids(e) else False:
            return e.get("name") in self.cls["training_members"]
        if k == "DeclRefExpr":
            return e.get("referencedDecl", {}).get("id") in self.aliases
        if k in ("CXXMemberCallExpr", "CallExpr"):
            name = callee(e)[0]
            if name == "training_data":
                return True
            if name == "data" and "dataframe" in qtype(e):
                a = [strip(x) for x in kids(e)[1:]]
                if not a or a[0].get("kind") == "CXXDefaultArgExpr":
                    return True
                return a[0].get("kind") == "DeclRefExpr" and a[0].get("referencedDecl", {}).get("name") == "training"
        if k == "ConditionalOperator":
            return any(self.is_training_df(c) for c in kids(e)[1:])
        return False

    @staticmethod
    def const_view(e):
        """`e` is handed on as const (NoOp cast to a const type) or only read"""
        return e.get("kind") == "ImplicitCastExpr" and e.get("castKind") in ("NoOp", "LValueToRValue") and \
            (e.get("castKind") == "LValueToRValue" or qtype(e).startswith("const "))

    # ---- expressions --------------------------------------------------------------------------
    def eff(self, e, const_ctx=False):
        k = e.get("kind")
        if k is None or k in ("FullComment",):
            return ("skip",)
        if k == "LambdaExpr":
            return ("skip",)                     # defining a lambda runs nothing
        if self.const_view(e):
            return eseq(*[self.eff(c, True) for c in kids(e)])
        # a mutable use of the training dataframe
        if not const_ctx and e.get("valueCategory") in ("lvalue", "xvalue") and "dataframe" in qtype(e) and \
                not qtype(e).startswith("const ") and self.is_training_df(e):
            self.note("change", "mutable use of the training dataframe")
            inner = eseq(*[self.eff(c, False) for c in kids(e)]) if k in ("CXXMemberCallExpr", "CallExpr") else ("skip",)
            return eseq(inner, ("atom", "change"))
        if k in ("BinaryOperator",) and e.get("opcode") in ("&&", "||"):
            a, b = kids(e)
            return eseq(self.eff(a), ("branch", self.eff(b), ("skip",)))
        if k == "ConditionalOperator":
            c, a, b = kids(e)
            return eseq(self.eff(c), ("branch", self.eff(a, const_ctx), self.eff(b, const_ctx)))
        if k == "CXXOperatorCallExpr":
            name, f = callee(e)
            args = kids(e)[1:]
            pre = [self.eff(a) for a in args]
            if name == "operator()":
                obj = strip(args[0])
                # a call of a function parameter / local lambda
                if obj.get("kind") == "DeclRefExpr":
                    rid = obj.get("referencedDecl", {}).get("id")
                    if rid in self.params:
                        return eseq(*pre, self.params[rid])
                    if rid in self.lambdas:
                        return eseq(*pre, self.lambda_body(self.lambdas[rid]))
                m = self.root_member(obj)
                role = self.cls["evaluators"].get(m)
                if role == "training":
                    self.note("eval", "%s(…)" % m)
                    return eseq(*pre, ("atom", "eval"))
                if role == "other":
                    self.note("other-evaluator", "%s(…)" % m)
                    return eseq(*pre)
                if m in self.cls["callbacks"]:
                    self.note("user-callback", "%s(…)" % m)
                    return eseq(*pre)
                if m in self.cls["strategy_members"]:
                    self.note("eval", "%s… (evolution strategy: may evaluate)" % m)
                    return eseq(*pre, ("loop", ("atom", "eval")))
            return eseq(*pre)
        if k == "CXXMemberCallExpr":
            name, me = callee(e)
            args = kids(e)[1:]
            pre = [self.eff(a) for a in args]
            if me.get("kind") != "MemberExpr":
                return eseq(self.eff(me), *pre)
            obj = kids(me)[0]
            sobj = strip(obj)
            lam = [self.lambda_arg(a) for a in args]
            lam_eff = [("loop", x) for x in lam if x is not None]
            # a call on *this
            if sobj.get("kind") == "CXXThisExpr":
                if "dataframe" in qtype(e) and e.get("valueCategory") == "lvalue":
                    return eseq(*pre)            # an accessor handing out a dataframe: classified at its use
                return eseq(*pre, self.this_call(name, e, me, args))
            m = self.root_member(obj)
            # validation strategy
            if m in self.cls["vs_members"] and name in ("init", "shake", "close"):
                self.note("strategy-step", "%s->%s(…)" % (m, name))
                return eseq(*pre, ("callVs", name))
            role = self.cls["evaluators"].get(m)
            if role is not None:
                if name == "clear":
                    self.note("clear" if role == "training" else "clear-other-evaluator", "%s.clear()" % m)
                    return eseq(*pre, ("atom", "clear")) if role == "training" else eseq(*pre)
                if name == "load":
                    self.note("load" if role == "training" else "load-other-evaluator", "%s->load(…)" % m)
                    return eseq(*pre, ("atom", "load")) if role == "training" else eseq(*pre)
                if name in ("save", "lambdify", "get"):
                    return eseq(*pre)
                if name == "fast":
                    return eseq(*pre)            # not cached (evaluator_proxy::fast)
                self.refuse("call of %s on the evaluator member %s is not classified" % (name, m), e)
            if m in self.cls["strategy_members"]:
                self.note("eval", "%s.%s(…) (evolution strategy: may evaluate)" % (m, name))
                return eseq(self.eff(obj), *pre, ("loop", ("atom", "eval")))
            # evolution<T,ES>(prob_, *eva1_).after_generation(…).run(r, shake)
            if name == "run" and "evolution<" in qtype(sobj):
                return eseq(self.eff(obj), *pre, self.w.evolution_run(self, e, args))
            return eseq(self.eff(obj), *pre, *lam_eff)
        if k == "CallExpr":
            name, f = callee(e)
            args = kids(e)[1:]
            pre = [self.eff(a) for a in args]
            lam = [self.lambda_arg(a) for a in args]
            return eseq(*pre, *[("loop", x) for x in lam if x is not None])
        if k in ("CXXConstructExpr", "CXXTemporaryObjectExpr"):
            args = kids(e)
            pre = [self.eff(a) for a in args]
            if "(lambda at" in qtype(e):
                return eseq(*pre)                # copying a closure object runs nothing
            lam = [self.lambda_arg(a) for a in args]
            return eseq(*pre, *[("loop", x) for x in lam if x is not None])
        if k in ("CXXThrowExpr", "CXXNewExpr", "CXXDeleteExpr", "StmtExpr", "CoawaitExpr"):
            self.refuse("expression kind %s" % k, e)
        return eseq(*[self.eff(c, const_ctx if k in WRAP or k == "ImplicitCastExpr" else False) for c in kids(e)])

    def lambda_arg(self, a):
        """skeleton of a lambda handed to a callee (the callee may run it any number of times)"""
        s = strip(a)
        if s.get("kind") in ("CXXConstructExpr",) and len(kids(s)) == 1:
            s = strip(kids(s)[0])
        if s.get("kind") == "LambdaExpr":
            return self.lambda_body(s)
        if s.get("kind") == "DeclRefExpr" and s.get("referencedDecl", {}).get("id") in self.lambdas:
            return self.lambda_body(self.lambdas[s["referencedDecl"]["id"]])
        return None

    def lambda_body(self, lam):
        body = [c for c in kids(lam) if c.get("kind") == "CompoundStmt"]
        if not body:
            self.refuse("lambda without a body", lam)
        sub = Skel(self.w, self.cls, self.fname + "::<lambda>", self.depth + 1, self.lambdas, self.params)
        sub.aliases = set(self.aliases)
        return sub.block(kids(body[0]), in_loop=False)

    def this_call(self, name, call, me, args):
        m = self.w.resolve(self.cls, name, len(args), me)
        if m is None:
            self.refuse("call of this->%s: no definition found in the translation unit" % name, call)
        owner, decl = m
        if self.depth > 12:
            self.refuse("call depth exceeded at %s (recursion?)" % name, call)
        ctx = dict(owner)
        ctx["dyn"] = self.cls.get("dyn")
        sub = Skel(self.w, ctx, name, self.depth + 1)
        return sub.function(decl)

    # ---- statements -----------------------------------------------------------------------------
    def function(self, decl):
        return simp(self.block(kids(body_of(decl)), in_loop=False))

    def always_returns(self, s):
        k = s.get("kind")
        if k == "ReturnStmt":
            return True
        if k == "CompoundStmt":
            ks = kids(s)
            return bool(ks) and self.always_returns(ks[-1])
        return False

    def block(self, stmts, in_loop):
        """statements of one block; `if (…) return …;` makes the rest of the block the other branch"""
        out = []
        for i, s in enumerate(stmts):
            k = s.get("kind")
            if k == "ReturnStmt":
                if in_loop:
                    self.refuse("return inside a loop", s)
                out.append(eseq(*[self.eff(c) for c in kids(s)]))
                return eseq(*out)               # what follows is dead
            if k == "IfStmt" and not in_loop:
                inner = kids(s)
                pos = 0
                pre = []
                if s.get("hasInit"):
                    pre.append(self.stmt(inner[pos], in_loop)); pos += 1
                if s.get("hasVar"):
                    pre.append(self.stmt(inner[pos], in_loop)); pos += 1
                cond_n = inner[pos]
                cond = self.eff(inner[pos]); pos += 1
                then_n = inner[pos]; pos += 1
                else_n = inner[pos] if s.get("hasElse") and pos < len(inner) else None
                tr = self.always_returns(then_n)
                er = else_n is not None and self.always_returns(else_n)
                if tr or er:
                    rest = self.block(stmts[i + 1:], in_loop)
                    t = self.block([then_n], in_loop)
                    e = self.block([else_n], in_loop) if else_n is not None else ("skip",)
                    if tr and er:
                        out.append(eseq(*pre, cond, ("branch", t, e)))
                    elif tr:
                        out.append(eseq(*pre, cond, ("branch", t, eseq(e, rest))))
                    else:
                        out.append(eseq(*pre, cond, ("branch", eseq(t, rest), e)))
                    return eseq(*out)
            out.append(self.stmt(s, in_loop))
        return eseq(*out)

    def stmt(self, s, in_loop):
        k = s.get("kind")
        if k is None:
            return ("skip",)
        if k == "CompoundStmt":
            return self.block(kids(s), in_loop)
        if k in ("NullStmt",):
            return ("skip",)
        if k in ("BreakStmt", "ContinueStmt"):
            return ("skip",)                    # handled by `loop_body` (the rest may be skipped)
        if k == "DeclStmt":
            out = []
            for v in kids(s):
                if v.get("kind") == "VarDecl":
                    init = [c for c in kids(v) if c.get("kind") and c.get("kind") != "FullComment"]
                    for i in init:
                        si = strip(i)
                        if si.get("kind") == "LambdaExpr" or (si.get("kind") == "CXXConstructExpr" and len(kids(si)) == 1
                                                              and strip(kids(si)[0]).get("kind") == "LambdaExpr"):
                            self.lambdas[v.get("id")] = si if si.get("kind") == "LambdaExpr" else strip(kids(si)[0])
                            continue
                        t = v.get("type", {}).get("qualType", "")
                        if "&" in t and not t.startswith("const ") and "dataframe" in qtype(v) and self.is_training_df(i):
                            self.aliases.add(v.get("id"))
                            continue
                        out.append(self.eff(i))
                elif v.get("kind") in ("TypedefDecl", "TypeAliasDecl", "StaticAssertDecl", "UsingDecl", "CXXRecordDecl"):
                    pass
                else:
                    self.refuse("declaration kind %s" % v.get("kind"), v)
            return eseq(*out)
        if k == "ReturnStmt":
            if in_loop:
                self.refuse("return inside a loop", s)
            return eseq(*[self.eff(c) for c in kids(s)])
        if k == "IfStmt":
            inner = kids(s)
            pos = 0
            pre = []
            if s.get("hasInit"):
                pre.append(self.stmt(inner[pos], in_loop)); pos += 1
            if s.get("hasVar"):
                pre.append(self.stmt(inner[pos], in_loop)); pos += 1
            cond_n = inner[pos]
            cond = self.eff(inner[pos]); pos += 1
            then = self.stmt(inner[pos], in_loop); pos += 1
            els = self.stmt(inner[pos], in_loop) if s.get("hasElse") and pos < len(inner) else ("skip",)
            if self.wired_evaluator_test(cond_n):
                return eseq(*pre, then)
            return eseq(*pre, cond, ("branch", then, els))
        if k == "ForStmt":
            inner = s.get("inner", [])
            init, condvar, cond, inc, body = (inner + [{}] * 5)[:5]
            i0 = self.stmt(init, in_loop) if init.get("kind", "").endswith("Stmt") else self.eff(init)
            return eseq(i0, self.eff(cond) if cond.get("kind") else ("skip",),
                        ("loop", eseq(self.loop_body(body), self.eff(inc) if inc.get("kind") else ("skip",),
                                      self.eff(cond) if cond.get("kind") else ("skip",))))
        if k == "CXXForRangeStmt":
            decls = [c for c in kids(s) if c.get("kind") == "DeclStmt"]
            pre = []
            if decls:
                rv = kids(decls[0])[0]
                ri = [c for c in kids(rv) if c.get("kind")]
                lv = kids(decls[-1])[0]
                t = lv.get("type", {}).get("qualType", "")
                mutable = "&" in t and not t.startswith("const ")
                if ri:
                    if self.is_training_df(ri[0]) and not mutable:
                        pre.append(("skip",))
                    else:
                        pre.append(self.eff(ri[0]))
            return eseq(*pre, ("loop", self.loop_body(kids(s)[-1])))
        if k in ("WhileStmt", "DoStmt"):
            ks = kids(s)
            if k == "WhileStmt":
                cond, body = ks[-2], ks[-1]
                return eseq(self.eff(cond), ("loop", eseq(self.loop_body(body), self.eff(cond))))
            body, cond = ks[0], ks[1]
            return eseq(self.loop_body(body), self.eff(cond), ("loop", eseq(self.loop_body(body), self.eff(cond))))
        if k in ("SwitchStmt", "GotoStmt", "CXXTryStmt", "LabelStmt", "CaseStmt", "DefaultStmt"):
            self.refuse("statement kind %s" % k, s)
        if k.endswith("Expr") or k.endswith("Operator") or k in WRAP:
            return self.eff(s)
        self.refuse("statement kind %s" % k, s)

    def wired_evaluator_test(self, cond):
        """`if (m)` where m is the strategy's pointer to the training evaluator: src_search binds it to
        search::eva1_.get(), and search::run dereferences eva1_ unconditionally, so inside search::run the
        test is true (recorded in Gen.sites as an assumption)"""
        c = cond
        while c.get("kind") in WRAP | {"ImplicitCastExpr"} and len(kids(c)) == 1:
            c = kids(c)[0]
        if c.get("kind") == "MemberExpr" and kids(c) and strip(kids(c)[0]).get("kind") == "CXXThisExpr" and \
                self.cls["evaluators"].get(c.get("name")) == "training" and "*" in qtype(c):
            self.note("assumed-non-null", "if (%s): bound to search::eva1_.get() by src_search::validation_strategy" % c.get("name"))
            return True
        return False

    def loop_body(self, body):
        """one iteration; after a statement that contains break/continue the rest may be skipped"""
        stmts = kids(body) if body.get("kind") == "CompoundStmt" else [body]

        def has_jump(n):
            if n.get("kind") in ("BreakStmt", "ContinueStmt"):
                return True
            if n.get("kind") in ("ForStmt", "WhileStmt", "DoStmt", "CXXForRangeStmt", "LambdaExpr"):
                return False
            return any(has_jump(c) for c in n.get("inner", []) if isinstance(c, dict))

        def go(i):
            if i >= len(stmts):
                return ("skip",)
            cur = self.stmt(stmts[i], True)
            rest = go(i + 1)
            if has_jump(stmts[i]):
                return eseq(cur, ("branch", rest, ("skip",)))
            return eseq(cur, rest)
        return go(0)


class World:
    """The classes of the translation unit the call-site skeletons are about."""

    def __init__(self, dumps):
        self.dumps = dumps
        self.sites = []
        self.classes = {}
        self.wiring = []
        self.strategy_classes()
        self.search_classes()

    # ---- validation strategies --------------------------------------------------------------
    def strategy_classes(self):
        recs = {}
        for f in ("vita::validation_strategy", "vita::as_is_validation", "vita::dss", "vita::holdout_validation"):
            for d in self.dumps[f]:
                if d.get("kind") == "CXXRecordDecl" and d.get("completeDefinition") and d.get("name"):
                    recs[d.get("name")] = d
        if "validation_strategy" not in recs:
            raise Refuse("class validation_strategy not found")
        derived = [n for n, d in recs.items() if any("validation_strategy" in b.get("type", {}).get("qualType", "")
                                                     for b in d.get("bases", []))]
        # (every class deriving from validation_strategy anywhere under src/kernel must be in the dump list)
        self.strategy_names = sorted(derived)
        self.check_strategy_census()
        base_methods = {m.get("name"): m for m in kids(recs["validation_strategy"]) if m.get("kind") == "CXXMethodDecl"}
        for name in self.strategy_names:
            rec = recs[name]
            filt = "vita::" + name
            methods = {}
            for m in kids(rec):
                if m.get("kind") == "CXXMethodDecl" and has_body(m):
                    methods.setdefault(m.get("name"), []).append(m)
            for d in self.dumps[filt]:
                if d.get("kind") == "CXXMethodDecl" and has_body(d) and d.get("parentDeclContextId") == rec.get("id"):
                    methods.setdefault(d.get("name"), []).append(d)
            ctors = [d for d in self.dumps[filt] if d.get("kind") == "CXXConstructorDecl" and has_body(d)
                     and d.get("parentDeclContextId") == rec.get("id")] + \
                    [m for m in kids(rec) if m.get("kind") == "CXXConstructorDecl" and has_body(m)]
            fields = {f.get("name"): f for f in kids(rec) if f.get("kind") == "FieldDecl"}
            cls = {"name": name, "methods": methods, "base_methods": base_methods, "fields": fields,
                   "training_members": set(), "evaluators": {}, "vs_members": set(), "strategy_members": set(),
                   "callbacks": set(), "ctor_param_member": {}}
            # constructor: which member is bound to which parameter / to prob.data(dataset_t::training)
            for c in ctors:
                ps = params_of(c)
                if not ps:
                    continue
                pid = {p.get("id"): i for i, p in enumerate(ps)}
                for ci in [x for x in kids(c) if x.get("kind") == "CXXCtorInitializer" and "anyInit" in x]:
                    m = ci["anyInit"].get("name")
                    e = strip(kids(ci)[0]) if kids(ci) else {}
                    if e.get("kind") == "DeclRefExpr" and e.get("referencedDecl", {}).get("id") in pid:
                        cls["ctor_param_member"][pid[e["referencedDecl"]["id"]]] = m
                    if e.get("kind") == "CXXMemberCallExpr" and callee(e)[0] == "data":
                        a = [strip(x) for x in kids(e)[1:]]
                        which = a[0].get("referencedDecl", {}).get("name") if a and a[0].get("kind") == "DeclRefExpr" else \
                            ("training" if (not a or a[0].get("kind") == "CXXDefaultArgExpr") else None)
                        if which == "training":
                            cls["training_members"].add(m)
            for fname, f in fields.items():
                t = f.get("type", {}).get("qualType", "")
                if "cached_evaluator" in t or re.search(r"\bevaluator<", t):
                    cls["evaluators"][fname] = "other"       # promoted to "training" by the wiring below
            self.classes[name] = cls

    def check_strategy_census(self):
        """every class under src/kernel that names validation_strategy as a base must be one we translate"""
        root = os.path.join(X.REPO, "src", "kernel")
        found = set()
        for d, _, fs in os.walk(root):
            for f in fs:
                if f.endswith((".h", ".tcc", ".cc")):
                    try:
                        txt = open(os.path.join(d, f), errors="replace").read()
                    except OSError:
                        continue
                    for m in re.finditer(r"class\s+(\w+)\s*(?:final\s*)?:\s*public\s+(?:vita::)?validation_strategy\b", txt):
                        found.add(m.group(1))
        missing = found - set(self.strategy_names)
        if missing:
            raise Refuse("validation strategies not covered by the translation unit: %s" % sorted(missing))

    # ---- search / src_search / evolution ----------------------------------------------------
    def spec_class(self, filt, tmpl):
        specs = specializations(self.dumps[filt], tmpl)
        specs = [s for s in specs if (template_args(s) or [None])[0] in ("vita::i_mep", "i_mep")]
        if len(specs) != 1:
            raise Refuse("expected one instantiation %s<i_mep, std_es>, found %d" % (tmpl, len(specs)))
        return specs[0]

    def search_classes(self):
        for filt, tmpl in (("search", "search"), ("search", "src_search"), ("vita::evolution", "evolution")):
            s = self.spec_class(filt, tmpl)
            methods = {}
            for m in kids(s):
                if m.get("kind") == "CXXMethodDecl" and has_body(m):
                    methods.setdefault(m.get("name"), []).append(m)
                if m.get("kind") == "FunctionTemplateDecl":
                    for mm in kids(m):
                        if mm.get("kind") == "CXXMethodDecl" and has_body(mm) and \
                                any(c.get("kind") == "TemplateArgument" for c in kids(mm)):
                            methods.setdefault(mm.get("name"), []).append(mm)
            fields = {f.get("name"): f for f in kids(s) if f.get("kind") == "FieldDecl"}
            virt = {m.get("name") for m in kids(s) if m.get("kind") == "CXXMethodDecl" and m.get("virtual")}
            decl_ids = {m.get("id"): m.get("name") for m in kids(s) if m.get("kind") == "CXXMethodDecl"}
            self.classes[tmpl] = {"name": tmpl, "methods": methods, "fields": fields, "virtual": virt, "decl_ids": decl_ids,
                                  "training_members": set(), "evaluators": {}, "vs_members": set(),
                                  "strategy_members": set(), "callbacks": set(), "base_methods": {}}
        se, ss, ev = self.classes["search"], self.classes["src_search"], self.classes["evolution"]
        for c in (se, ss):
            c["evaluators"] = {"eva1_": "training", "eva2_": "other"}
            c["vs_members"] = {"vs_"}
            c["callbacks"] = {"after_generation_callback_"}
        for need in ("eva1_", "eva2_", "vs_"):
            if need not in se["fields"]:
                raise Refuse("search<T,ES> has no member %s" % need)
        ev["evaluators"] = {"eva_": "training"}
        ev["strategy_members"] = {"es_"}
        ev["callbacks"] = {"after_generation_callback_"}
        for need in ("eva_", "es_"):
            if need not in ev["fields"]:
                raise Refuse("evolution<T,ES> has no member %s" % need)
        ss["base"] = se
        ss["dyn"] = ss
        se["dyn"] = ss          # search::run as src_search runs it
        self.wire()

    def wire(self):
        """src_search::validation_strategy(id): which constructor argument is search::eva1_?"""
        ss = self.classes["src_search"]
        ms = ss["methods"].get("validation_strategy", [])
        if len(ms) != 1:
            raise Refuse("src_search::validation_strategy(validator_id) not found")
        calls = X.find_all(ms[0], lambda n: n.get("kind") in ("CXXMemberCallExpr", "CallExpr") and
                           callee(n)[0] == "validation_strategy")
        seen = set()
        for c in calls:
            f = callee(c)[1]
            t = f.get("type", {}).get("qualType", "") + " " + str(f.get("referencedDecl", {}).get("type", {}).get("qualType", ""))
            fid = f.get("referencedMemberDecl") or f.get("referencedDecl", {}).get("id")
            args = kids(c)[1:]
            roles = []
            for a in args:
                sa = strip(a)
                m = None
                if sa.get("kind") in ("CXXOperatorCallExpr", "CXXMemberCallExpr", "MemberExpr", "UnaryOperator"):
                    sk = Skel(self, ss, "validation_strategy")
                    m = sk.root_member(sa)
                roles.append(m)
            # which strategy class?  the instantiated callee's template argument
            target = self.callee_template_arg(ms[0], c)
            if target is None:
                raise Refuse("src_search::validation_strategy: cannot tell which strategy a call constructs")
            seen.add(target)
            cls = self.classes.get(target)
            if cls is None:
                raise Refuse("src_search::validation_strategy constructs %s, which is not a translated strategy" % target)
            for i, m in enumerate(roles):
                mem = cls["ctor_param_member"].get(i)
                if m == "eva1_" and mem is not None and mem in cls["evaluators"]:
                    cls["evaluators"][mem] = "training"
            self.wiring.append((target, [r or "-" for r in roles]))
        for name in self.strategy_names:
            if name not in seen:
                self.wiring.append((name, ["(not constructed by src_search::validation_strategy)"]))

    def callee_template_arg(self, fn, call):
        f = callee(call)[1]
        # the MemberExpr of a call to a member function template specialisation refers to the specialisation by id;
        # its name is printed in the bound type of the callee: look the id up among search<…>::validation_strategy<V>
        rid = f.get("referencedMemberDecl")
        se = self.spec_class("search", "search")
        for m in kids(se):
            if m.get("kind") == "FunctionTemplateDecl" and m.get("name") == "validation_strategy":
                for mm in kids(m):
                    if mm.get("kind") == "CXXMethodDecl" and mm.get("id") == rid:
                        ta = [c for c in kids(mm) if c.get("kind") == "TemplateArgument"]
                        if ta:
                            t = ta[0].get("type", {}).get("qualType", "")
                            return t.replace("vita::", "")
        return None

    # ---- resolution of this-calls ---------------------------------------------------------------
    def resolve(self, cls, name, nargs, me=None):
        """(owner class, decl) for a call this->name(args) made inside a member of class `cls`.

        C++ rules: an unqualified call of a virtual member goes to the override of the dynamic class
        (`dyn`: src_search for search::run); `base::f()` written in a class that overrides f is a
        non-virtual call of the base version (the AST shows it as `this` cast to the base, naming the
        base's declaration, although the calling class has an f of its own)."""
        def pick(c):
            if c is None:
                return None
            ms = [m for m in c["methods"].get(name, [])
                  if len(params_of(m)) >= nargs >= len([p for p in params_of(m) if not kids(p)])]
            return ms[0] if ms else None
        base = cls.get("base")
        dyn = cls.get("dyn")
        rid = me.get("referencedMemberDecl") if me is not None else None
        named_owner = None
        for c in (cls, base):
            if c is not None and rid is not None and rid in c.get("decl_ids", {}):
                named_owner = c
                break
        is_virtual = any(name in c.get("virtual", set()) for c in (cls, base, dyn) if c is not None)
        qualified_base = named_owner is not None and named_owner is base and pick(cls) is not None
        if qualified_base:
            m = pick(base)
            return (base, m) if m is not None else None
        order = []
        if is_virtual and dyn is not None:
            order += [dyn, dyn.get("base")]
        order += [cls, base]
        for c in order:
            m = pick(c)
            if m is not None:
                return c, m
        bm = cls.get("base_methods", {}).get(name)
        if bm is not None and has_body(bm):
            return cls, bm
        return None

    def evolution_run(self, caller, call, args):
        ev = self.classes["evolution"]
        want = qtype(args[1]) if len(args) == 2 else ""
        runs = [m for m in ev["methods"].get("run", []) if len(params_of(m)) == 2 and
                params_of(m)[1].get("type", {}).get("qualType") == want]
        if len(runs) != 1:
            raise Refuse("expected one instantiation of evolution<T,ES>::run(unsigned, S), found %d" % len(runs))
        decl = runs[0]
        shake_param = params_of(decl)[1]
        lam = caller.lambda_arg(args[1]) if len(args) == 2 else None
        if lam is None:
            raise Refuse("search::run does not hand a lambda to evolution::run")
        sub = Skel(self, ev, "run", caller.depth + 1, params={shake_param.get("id"): lam})
        return sub.function(decl)

    # ---- entry points -------------------------------------------------------------------------
    def strategy_method(self, name, mname):
        cls = self.classes[name]
        ms = cls["methods"].get(mname, [])
        if ms:
            return Skel(self, cls, mname).function(ms[0])
        bm = cls["base_methods"].get(mname)
        if bm is None:
            raise Refuse("%s::%s: neither overridden nor defined in validation_strategy" % (name, mname))
        if not has_body(bm):
            raise Refuse("%s::%s is pure and not overridden" % (name, mname))
        return Skel(self, cls, mname).function(bm)

    def search_run(self):
        se = self.classes["search"]
        ms = [m for m in se["methods"].get("run", []) if len(params_of(m)) == 1]
        if len(ms) != 1:
            raise Refuse("search<T,ES>::run(unsigned) not found")
        return Skel(self, se, "run").function(ms[0])


def call_sites(dumps):
    LENIENT[0] = True
    try:
        return call_sites_(dumps)
    finally:
        LENIENT[0] = False


def call_sites_(dumps):
    w = World(dumps)
    strategies = []
    for name in w.strategy_names:
        strategies.append((name, [w.strategy_method(name, m) for m in ("init", "shake", "close")]))
    run = w.search_run()
    return strategies, run, w.sites, w.wiring


# =============================================================================================
def extract():
    with cf.ThreadPoolExecutor(5) as ex:
        dumps = dict(zip(FILTERS, ex.map(lambda f: ast_dump(TU, f), FILTERS)))
    cache = cache_layer(dumps)
    proxy, nspec = proxy_layer(dumps)
    strategies, run, sites, wiring = call_sites(dumps)
    return {"cache": cache, "proxy": proxy, "nspec": nspec, "strategies": strategies, "run": run,
            "sites": sites, "wiring": wiring}


def lstr(s):
    return '"' + s.replace("\\", "\\\\").replace('"', '\\"') + '"'


def render(res):
    L = ["/- GENERATED by tools/translate_cache.py from the clang AST of cache.{h,cc}, cache_hash.h,",
         "   evaluator_proxy.tcc, validation_strategy.h, gp/src/dss.cc, gp/src/holdout_validation.cc,",
         "   search.tcc, gp/src/search.tcc, evolution.tcc of the current working tree — do not edit. -/",
         "import Vita.C04.Lang",
         "import Vita.C04.IO",
         "import Vita.C04.Sites",
         "namespace Vita.C04.Gen",
         "open Vita.C04.Lang Vita.C04.IO Vita.C04.Sites",
         ""]
    titles = {"keyEq": "hash_t::operator==", "index": "cache::index", "ctorMask": "cache::cache(bits): k_mask(…)",
              "ctorTable": "cache::cache(bits): table_(…)", "ctorSeal": "cache::cache(bits): seal_(…)",
              "find": "cache::find", "insert": "cache::insert", "clear": "cache::clear()",
              "clearKey": "cache::clear(const hash_t &)", "save": "cache::save(std::ostream &) const",
              "load": "cache::load(std::istream &)"}
    for k in ("keyEq", "index", "ctorMask", "ctorTable", "ctorSeal", "find", "insert", "clear", "clearKey", "save", "load"):
        t, names, ty = res["cache"][k]
        L.append("/-- %s   (locals: %s) -/" % (titles[k], names))
        L.append("def %s : %s :=\n  %s" % (k, ty, t))
        L.append("")
    for k, title in (("proxyCall", "evaluator_proxy<T,E>::operator()(const T &prg)"), ("proxyClear", "evaluator_proxy<T,E>::clear()")):
        t, names, ty = res["proxy"][k]
        L.append("/-- %s, the same term for all %d instantiated specialisations   (locals: %s) -/" % (title, res["nspec"], names))
        L.append("def %s : %s :=\n  %s" % (k, ty, t))
        L.append("")
    L.append("/-- the classes derived from validation_strategy, with the effect skeletons of init / shake / close -/")
    L.append("def strategies : List (String × Eff × Eff × Eff) := [")
    for i, (name, ms) in enumerate(res["strategies"]):
        L.append("  (%s,\n    %s,\n    %s,\n    %s)%s" % (lstr(name), elean(ms[0]), elean(ms[1]), elean(ms[2]),
                                                        "," if i + 1 < len(res["strategies"]) else ""))
    L.append("]")
    L.append("")
    L.append("/-- search<T,ES>::run as src_search<T,ES> runs it (evolution<T,ES>::run inlined) -/")
    L.append("def searchRun : Eff :=\n  %s" % elean(res["run"]))
    L.append("")
    L.append("/-- how src_search::validation_strategy constructs each strategy: the member of search each")
    L.append("    constructor argument is rooted in -/")
    L.append("def wiring : List (String × List String) := [")
    L.append(",\n".join("  (%s, [%s])" % (lstr(n), ", ".join(lstr(r) for r in rs)) for n, rs in res["wiring"]))
    L.append("]")
    L.append("")
    L.append("/-- every place found in the translated functions that changes the training data, clears / loads /")
    L.append("    calls the training evaluator or steps the validation strategy: (function, kind, what) -/")
    L.append("def sites : List (String × String × String) := [")
    L.append(",\n".join("  (%s, %s, %s)" % (lstr(a), lstr(b), lstr(c)) for a, b, c in res["sites"]))
    L.append("]")
    L.append("")
    L.append("end Vita.C04.Gen")
    return "\n".join(L) + "\n"


def emit(path):
    res = extract()
    txt = render(res)
    old = open(path).read() if os.path.exists(path) else None
    if old != txt:
        with open(path, "w") as f:
            f.write(txt)
    return res, old is not None and old != txt


def source_key():
    """hash of everything the output depends on besides the repo tree"""
    h = hashlib.sha256()
    for p in (__file__, X.__file__, os.path.join(X.HERE, "tu", TU)):
        h.update(open(p, "rb").read())
    return h.hexdigest()


if __name__ == "__main__":
    print(render(extract()))
