#!/usr/bin/env python3
"""C15 — extract the LOCK DISCIPLINE of vita::cache from the clang AST of cache.cc / cache.h.

For every public member function of `vita::cache` (constructors / destructor excluded: the object
is not shared yet / any more) the translator records

    guard      the RAII lock object declared in the body: its class (std::shared_lock /
               std::unique_lock / std::lock_guard / std::scoped_lock) and whether it is constructed
               from `this->mutex_` (the one lock of the table) or from anything else;
    accesses   every access to a non-static data member of the cache other than the mutex –
               directly (`table_`, `seal_`, …), through a local reference / pointer / iterator /
               range-for variable bound to one (aliases are tracked), or inside a private member
               function called on `this` (inlined at the call site) – as
                   write    the lvalue reaches an assignment, ++/--, a non-const member call, a
                            non-const reference parameter … (anything that is not provably a read)
                   inside   the access lies in the lexical scope of the guard (after its
                            declaration, inside the same compound statement)
                   exempt   the member is const (immutable after construction) or std::atomic
    escapes    the function returns a reference or a pointer and a returned expression is rooted
               in a data member (a reference into the table outlives the lock).

Syntax only.  lean/Vita/C15/Locks.lean turns the table into a `Disc` (which lock each operation of
the model holds) and lean/Vita/C15/Gen.lean states – `by decide` – that every write is under the
exclusive lock, every read under at least the shared lock, nothing escapes, and that every function
that touches the table is one the model knows.  Anything the translator does not understand (a lock
object that is used after its declaration, two lock objects, a guard that is not a plain local
variable of a compound statement, an unknown statement kind) makes it refuse.
"""
import os
import re
import sys

sys.path.insert(0, os.path.dirname(os.path.abspath(__file__)))
from cxx2lean import Refuse, ast_dump, kids, qtype  # noqa: E402

TU = "cache_locks_tu.cc"
CLASS = "cache"
MUTEX_FIELD = "mutex_"

LOCK_CLASSES = [("shared_lock", "sharedLock"), ("unique_lock", "uniqueLock"), ("lock_guard", "lockGuard"),
                ("scoped_lock", "scopedLock")]
LOCK_RE = re.compile(r"\bstd::(shared_lock|unique_lock|lock_guard|scoped_lock)\b")

# (name, number of parameters) -> operation of the model
MODELLED = {("find", 1): "find", ("insert", 2): "insert", ("clear", 0): "clear", ("clear", 1): "clearKey",
            ("save", 1): "save", ("load", 1): "load"}

# member functions whose result designates (part of) the object they are called on
PATH_METHODS = {"operator[]", "at", "front", "back", "begin", "end", "cbegin", "cend", "data", "operator*",
                "operator->", "rbegin", "rend", "value", "get"}
TRANSPARENT = {"ParenExpr", "ExprWithCleanups", "MaterializeTemporaryExpr", "CXXBindTemporaryExpr", "ConstantExpr"}


def is_const(t):
    t = t.strip()
    return t.startswith("const ") or t.endswith(" const") or " const &" in t or " const *" in t


def strip_ref(t):
    return t.replace("&&", "").replace("&", "").strip()


class Body:
    """One member function body: parents, aliases, guard, accesses."""

    def __init__(self, tr, fn, depth=0):
        self.tr, self.fn, self.depth = tr, fn, depth
        self.parent = {}
        self.body = next((k for k in kids(fn) if k.get("kind") == "CompoundStmt"), None)
        if self.body is None:
            raise Refuse("no body for %s" % fn.get("name"))
        self._parents(self.body, None)
        self.alias = {}          # VarDecl id -> (field, const?)
        self.guards = []         # (VarDecl node, class tag, from the table's mutex?)
        self.accesses = []       # (field, write, node)
        self.escapes = False
        self.calls = []          # (callee method decl, call node)
        self.rettype = fn.get("type", {}).get("qualType", "").split("(")[0].strip()
        self.ret_indirect = self.rettype.endswith("&") or self.rettype.endswith("*")

    def _parents(self, n, p):
        self.parent[id(n)] = p
        for c in n.get("inner", []):
            if isinstance(c, dict):
                self._parents(c, n)

    # ---- helpers ---------------------------------------------------------------------
    def field_of_member(self, e):
        """field name if `e` is `this->f` / `f` (implicit this) for a data member f, else None"""
        if e.get("kind") != "MemberExpr":
            return None
        ks = kids(e)
        base = ks[0] if ks else None
        while base is not None and base.get("kind") in ("ImplicitCastExpr", "ParenExpr"):
            base = kids(base)[0]
        if base is None or base.get("kind") != "CXXThisExpr":
            return None
        rid = e.get("referencedMemberDecl")
        return self.tr.field_by_id.get(rid)

    def method_called(self, call):
        """(method name, is const, decl id) for a CXXMemberCallExpr / member operator call"""
        f = kids(call)[0]
        while f.get("kind") in ("ImplicitCastExpr", "ParenExpr"):
            f = kids(f)[0]
        if f.get("kind") == "MemberExpr":
            ty = f.get("type", {}).get("qualType", "")
            return f.get("name"), None, f.get("referencedMemberDecl"), f
        if f.get("kind") == "DeclRefExpr":
            rd = f.get("referencedDecl", {})
            ty = rd.get("type", {}).get("qualType", "")
            const = bool(re.search(r"\)\s*const\b", ty))
            return rd.get("name"), const, rd.get("id"), f
        return None, None, None, f

    # ---- classification of one rooted lvalue ------------------------------------------
    def use_of(self, node):
        """climb from a data-member-rooted expression to its consumer.
        -> ("read" | "write" | "alias", info)"""
        cur = node
        while True:
            p = self.parent.get(id(cur))
            if p is None:
                return "write", None
            k = p.get("kind")
            t = qtype(cur)
            if k in TRANSPARENT:
                cur = p
                continue
            if k == "ImplicitCastExpr":
                ck = p.get("castKind")
                if ck == "LValueToRValue":
                    return "read", None
                if ck in ("NoOp", "DerivedToBase", "UncheckedDerivedToBase", "ArrayToPointerDecay"):
                    if ck == "NoOp" and is_const(strip_ref(qtype(p))):
                        return "read", None
                    cur = p
                    continue
                return "read", None       # a conversion produces a value
            if k == "MemberExpr":
                # cur is the object of `.member`
                if p.get("type", {}).get("qualType") == "<bound member function type>":
                    call = self.parent.get(id(p))
                    while call is not None and call.get("kind") in ("ImplicitCastExpr", "ParenExpr"):
                        call = self.parent.get(id(call))
                    if call is None or call.get("kind") != "CXXMemberCallExpr":
                        return "write", None
                    name = p.get("name")
                    mconst = self.tr.method_is_const(p.get("referencedMemberDecl"), cur)
                    if name in PATH_METHODS:
                        if mconst:
                            # a const view: whatever is done through it is a read, except that it
                            # may still be returned / bound (escape analysis goes on)
                            cur = call
                            continue
                        cur = call
                        continue
                    return ("read" if mconst else "write"), None
                cur = p                   # field of the object: same object
                continue
            if k == "ArraySubscriptExpr":
                if kids(p)[0] is cur or self._same(kids(p)[0], cur):
                    cur = p
                    continue
                return "read", None       # used as the index
            if k == "UnaryOperator":
                op = p.get("opcode")
                if op in ("&", "*"):
                    cur = p
                    continue
                if op in ("++", "--"):
                    return "write", None
                return "read", None
            if k in ("BinaryOperator", "CompoundAssignOperator"):
                op = p.get("opcode", "")
                if k == "CompoundAssignOperator" or op == "=" or (op.endswith("=") and op not in ("==", "!=", "<=", ">=")):
                    return ("write" if kids(p)[0] is cur else "read"), None
                if op == ",":
                    return "read", None
                return "read", None
            if k == "CXXOperatorCallExpr":
                ks = kids(p)
                name, mconst, _, _ = self.method_called(p)
                args = ks[1:]
                if args and args[0] is cur:
                    if name in PATH_METHODS:
                        cur = p
                        continue
                    if is_const(strip_ref(t)):
                        return "read", None
                    if mconst is True:
                        return "read", None
                    if name in ("operator==", "operator!=", "operator<", "operator>", "operator<=", "operator>="):
                        return "read", None
                    return "write", None          # operator=, +=, ++, <<= … on the object
                # some other argument: a mutable lvalue handed to an operator (e.g. `in >> seal_`)
                if is_const(strip_ref(t)):
                    return "read", None
                if name in ("operator>>",):
                    return "write", None
                if name in ("operator<<", "operator==", "operator!=", "operator<", "operator>", "operator<=", "operator>=",
                            "operator+", "operator-", "operator*", "operator/", "operator&", "operator|"):
                    return "read", None
                return "write", None
            if k in ("CXXConstructExpr", "CXXTemporaryObjectExpr", "CallExpr", "CXXMemberCallExpr", "InitListExpr",
                     "CXXFunctionalCastExpr", "CXXStaticCastExpr", "CStyleCastExpr"):
                # an argument: const (reference / value) -> read, mutable lvalue -> could be modified
                if is_const(strip_ref(t)):
                    return "read", None
                if k in ("CXXConstructExpr", "CXXTemporaryObjectExpr"):
                    # copy / move construction from a mutable lvalue: a move would modify it
                    ctype = p.get("ctorType", {}).get("qualType", "")
                    if "&&" in ctype:
                        return "write", None
                    return "read", None
                return "write", None
            if k == "VarDecl":
                vt = p.get("type", {}).get("qualType", "")
                dt = qtype(p)
                if "&" in vt or "&" in dt and vt.startswith("auto"):
                    return "alias", p
                if vt.rstrip().endswith("*") or dt.rstrip().endswith("*") or "iterator" in dt or "iterator" in vt:
                    return "alias", p
                return "read", None       # copied into a local object
            if k == "ReturnStmt":
                if self.ret_indirect:
                    return "escape", None
                return "read", None
            if k in ("IfStmt", "WhileStmt", "ForStmt", "DoStmt", "CompoundStmt", "SwitchStmt", "CXXForRangeStmt",
                     "DeclStmt"):
                return "read", None
            if k in ("ConditionalOperator",):
                cur = p
                continue
            if k in ("CXXStaticCastExpr", "CXXConstCastExpr", "CXXReinterpretCastExpr"):
                cur = p
                continue
            return "write", None

    @staticmethod
    def _same(a, b):
        while a is not None and a is not b and a.get("kind") in ("ImplicitCastExpr", "ParenExpr"):
            a = kids(a)[0]
        return a is b

    # ---- the walk -----------------------------------------------------------------------
    def run(self):
        self._walk(self.body)
        return self

    def _record(self, field, node):
        use, info = self.use_of(node)
        if use == "alias":
            vt = qtype(info)
            raw = info.get("type", {}).get("qualType", "")
            isref = "&" in raw or ("&" in vt and raw.startswith("auto"))
            const = is_const(strip_ref(vt)) or "const_iterator" in vt or "const_iterator" in raw or \
                bool(re.search(r"\bconst [^*]*\*", vt))
            self.alias[info.get("id")] = (field, const, "ref" if isref else "ptr")
            return
        if use == "escape":
            self.escapes = True
            use = "read"
        self.accesses.append((field, use == "write", node))

    def _deref(self, node):
        """for an occurrence of a pointer / iterator alias: the expression that designates the
        pointee (`*it`, `it->m`, `it[i]`), ("alias", VarDecl) when it is copied into another pointer
        variable, "escape" when it is returned, None when only the pointer itself is used"""
        cur = node
        while True:
            p = self.parent.get(id(cur))
            if p is None:
                return None
            k = p.get("kind")
            if k in TRANSPARENT or k == "ImplicitCastExpr":
                cur = p
                continue
            if k == "UnaryOperator" and p.get("opcode") == "*":
                return p
            if k == "MemberExpr" and p.get("isArrow"):
                return p
            if k == "ArraySubscriptExpr" and self._same(kids(p)[0], cur):
                return p
            if k == "CXXOperatorCallExpr":
                name, _, _, _ = self.method_called(p)
                args = kids(p)[1:]
                if args and self._same(args[0], cur) and name in ("operator*", "operator->", "operator[]"):
                    return p
                return None
            if k == "VarDecl":
                return ("alias", p)
            if k == "ReturnStmt":
                return "escape" if (self.ret_indirect or "iterator" in self.rettype) else None
            return None

    def _walk(self, n):
        k = n.get("kind")
        if k == "VarDecl":
            t = qtype(n)
            vt = n.get("type", {}).get("qualType", "")
            m = LOCK_RE.search(t) or LOCK_RE.search(vt)
            if m:
                self._guard(n, m.group(1), t)
        if k == "MemberExpr":
            f = self.field_of_member(n)
            if f is not None and f != MUTEX_FIELD:
                self._record(f, n)
        if k == "DeclRefExpr":
            rid = n.get("referencedDecl", {}).get("id")
            if rid in self.alias and self.alias[rid][2] == "ptr":
                f, c, _ = self.alias[rid]
                d = self._deref(n)
                if d == "escape":
                    self.escapes = True
                elif isinstance(d, tuple):
                    self.alias[d[1].get("id")] = (f, c, "ptr")
                elif d is not None:
                    if c:
                        use, _ = self.use_of(d)
                        if use == "escape":
                            self.escapes = True
                        if use == "alias":
                            self._record(f, d)
                        else:
                            self.accesses.append((f, False, d))
                    else:
                        self._record(f, d)
            elif rid in self.alias:
                f, c, _ = self.alias[rid]
                if c:
                    # a const alias can only be read – but it can still escape
                    use, _ = self.use_of(n)
                    if use == "escape":
                        self.escapes = True
                    if use == "alias":
                        self._record(f, n)
                    else:
                        self.accesses.append((f, False, n))
                else:
                    self._record(f, n)
            for g, _, fm in self.guards:
                if rid == g.get("id") and fm is not None:
                    raise Refuse("%s: the lock object `%s` is used after its declaration (manual lock/unlock is "
                                 "not modelled)" % (self.fn.get("name"), g.get("name")))
        if k == "CXXMemberCallExpr":
            name, _, did, f = self.method_called(n)
            if f.get("kind") == "MemberExpr":
                base = kids(f)[0] if kids(f) else None
                while base is not None and base.get("kind") in ("ImplicitCastExpr", "ParenExpr"):
                    base = kids(base)[0]
                if base is not None and base.get("kind") == "CXXThisExpr":
                    self.calls.append((did, name, n))
        if k == "LambdaExpr":
            raise Refuse("%s: lambda expressions are not modelled" % self.fn.get("name"))
        if k in ("GotoStmt", "CXXTryStmt", "CoroutineBodyStmt"):
            raise Refuse("%s: statement kind %s is not modelled" % (self.fn.get("name"), k))
        for c in n.get("inner", []):
            if isinstance(c, dict):
                self._walk(c)

    def _guard(self, var, cls, t):
        ds = self.parent.get(id(var))
        comp = self.parent.get(id(ds)) if ds is not None else None
        if ds is None or ds.get("kind") != "DeclStmt" or comp is None or comp.get("kind") != "CompoundStmt":
            raise Refuse("%s: a lock object that is not a plain local variable of a compound statement" %
                         self.fn.get("name"))
        direct = bool(re.match(r"^(const )?std::(shared_lock|unique_lock|lock_guard|scoped_lock)<[^<>]*>$", t.strip()))
        from_mutex = False
        if direct:
            # the constructor argument(s): exactly `this->mutex_`
            roots = []

            def find_members(x):
                if x.get("kind") == "MemberExpr":
                    roots.append(self.field_of_member(x))
                    return
                for c in x.get("inner", []):
                    if isinstance(c, dict):
                        find_members(c)
            for c in kids(var):
                find_members(c)
            nargs = 0
            for c in kids(var):
                if c.get("kind") == "CXXConstructExpr":
                    nargs = len(kids(c))
            from_mutex = roots == [MUTEX_FIELD] and nargs == 1
        # a container / wrapper of lock objects (std::vector<std::unique_lock<…>> …): some lock is taken, but
        # not by a lock object constructed from the table's mutex -> `None` (rendered as .otherExpr)
        self.guards.append((var, dict(LOCK_CLASSES)[cls], from_mutex if direct else None))

    def inside(self, node):
        """does `node` lie in the lexical scope of the (single) guard?"""
        if not self.guards:
            return False
        var = self.guards[0][0]
        ds = self.parent[id(var)]
        comp = self.parent[id(ds)]
        stmts = [c for c in comp.get("inner", []) if isinstance(c, dict)]
        gi = next(i for i, c in enumerate(stmts) if c is ds)
        cur = node
        while cur is not None:
            p = self.parent.get(id(cur))
            if p is comp:
                ci = next(i for i, c in enumerate(stmts) if c is cur)
                return ci > gi
            cur = p
        return False


class Translator:
    def __init__(self):
        docs = ast_dump(TU, "vita::" + CLASS)
        recs = [d for d in docs if d.get("kind") == "CXXRecordDecl" and d.get("name") == CLASS and
                d.get("completeDefinition")]
        if len(recs) != 1:
            raise Refuse("class vita::%s not found (or found %d times)" % (CLASS, len(recs)))
        self.rec = recs[0]
        self.fields, self.field_by_id = {}, {}
        self.methods = {}           # decl id (in-class) -> dict(name, nparams, access, const, node)
        access = "private"
        for k in kids(self.rec):
            kk = k.get("kind")
            if kk == "AccessSpecDecl":
                access = k.get("access", access)
            elif kk == "FieldDecl":
                t = qtype(k)
                vt = k.get("type", {}).get("qualType", "")
                self.fields[k.get("name")] = {"type": vt, "const": is_const(vt) or is_const(t),
                                              "atomic": "atomic<" in t or "atomic<" in vt}
                self.field_by_id[k.get("id")] = k.get("name")
            elif kk == "CXXMethodDecl" and not k.get("isImplicit"):
                ty = k.get("type", {}).get("qualType", "")
                self.methods[k.get("id")] = {
                    "name": k.get("name"), "type": ty, "access": access, "node": k,
                    "nparams": len([p for p in kids(k) if p.get("kind") == "ParmVarDecl"]),
                    "const": bool(re.search(r"\)\s*const\b", ty)), "deleted": bool(k.get("explicitlyDeleted")),
                    "static": k.get("storageClass") == "static"}
            elif kk in ("FunctionTemplateDecl",):
                for m in kids(k):
                    if m.get("kind") == "CXXMethodDecl":
                        ty = m.get("type", {}).get("qualType", "")
                        self.methods[m.get("id")] = {
                            "name": m.get("name"), "type": ty, "access": access, "node": m,
                            "nparams": len([p for p in kids(m) if p.get("kind") == "ParmVarDecl"]),
                            "const": bool(re.search(r"\)\s*const\b", ty)), "deleted": False, "static": False,
                            "template": True}
        if MUTEX_FIELD not in self.fields:
            raise Refuse("vita::%s has no data member `%s`" % (CLASS, MUTEX_FIELD))
        # definitions: in-class bodies, or out-of-line CXXMethodDecl whose parent is the record
        self.defs = {}
        for mid, m in self.methods.items():
            if any(c.get("kind") == "CompoundStmt" for c in kids(m["node"])):
                self.defs[mid] = m["node"]
        for d in docs:
            if d.get("kind") == "CXXMethodDecl" and d.get("parentDeclContextId") == self.rec.get("id"):
                if any(c.get("kind") == "CompoundStmt" for c in kids(d)):
                    prev = d.get("previousDecl")
                    if prev in self.methods:
                        self.defs[prev] = d
                        self.methods[d.get("id")] = dict(self.methods[prev])
                        self.defs[d.get("id")] = d
                    else:
                        # match by name and type
                        for mid, m in list(self.methods.items()):
                            if m["name"] == d.get("name") and m["type"] == d.get("type", {}).get("qualType"):
                                self.defs[mid] = d
                                self.methods[d.get("id")] = dict(m)
                                self.defs[d.get("id")] = d
        self.cache = {}

    def method_is_const(self, did, obj):
        m = self.methods.get(did)
        if m is not None:
            return m["const"]
        # a method of another class: const iff the object expression is const
        return is_const(strip_ref(qtype(obj)))

    def summary(self, mid, depth=0):
        """accesses of a member function, callee accesses inlined: list of (field, write, inside)"""
        if depth > 4:
            raise Refuse("member functions of %s call each other too deeply" % CLASS)
        key = mid
        if key in self.cache:
            return self.cache[key]
        node = self.defs.get(mid)
        if node is None:
            raise Refuse("no definition found for %s::%s" % (CLASS, self.methods.get(mid, {}).get("name", mid)))
        b = Body(self, node, depth).run()
        if len(b.guards) > 1:
            raise Refuse("%s declares more than one lock object" % node.get("name"))
        acc = [(f, w, b.inside(n)) for f, w, n in b.accesses]
        for did, name, call in b.calls:
            if did in self.methods:
                sub = self.summary(did, depth + 1)
                if sub["guard"] is not None and sub["guard"][1] is not None:
                    raise Refuse("%s calls %s, which takes a lock itself (nested locking is not modelled)" %
                                 (node.get("name"), name))
                ins = b.inside(call)
                for f, w, _ in sub["accesses"]:
                    acc.append((f, w, ins))
                if sub["escapes"]:
                    use, _ = b.use_of(call)
                    if use == "escape":
                        b.escapes = True
        g = None
        if b.guards:
            g = (b.guards[0][1], b.guards[0][2])
        res = {"guard": g, "accesses": acc, "escapes": b.escapes}
        self.cache[key] = res
        return res

    def translate(self):
        out = []
        seen = set()
        for mid, m in self.methods.items():
            if m["node"] is not self.methods[mid]["node"]:
                continue
            if mid not in [k.get("id") for k in kids(self.rec)] and not m.get("template"):
                continue                       # the out-of-line twin of an in-class declaration
            if m["access"] != "public" or m["deleted"] or m["static"]:
                continue
            key = (m["name"], m["nparams"])
            if key in seen:
                raise Refuse("two public overloads %s/%d" % key)
            seen.add(key)
            s = self.summary(mid)
            accs = sorted({(f, w, i, self.fields[f]["const"] or self.fields[f]["atomic"]) for f, w, i in s["accesses"]})
            out.append({"name": m["name"], "nparams": m["nparams"], "fn": MODELLED.get(key, "other"),
                        "guard": s["guard"], "accesses": accs, "escapes": s["escapes"], "type": m["type"]})
        order = {"find": 0, "insert": 1, "clear": 2, "clearKey": 3, "save": 4, "load": 5, "other": 6}
        out.sort(key=lambda e: (order[e["fn"]], e["name"], e["nparams"]))
        mt = self.fields[MUTEX_FIELD]["type"]
        return {"fns": out, "mutex_type": mt, "mutex_shared": "shared_mutex" in mt or "shared_timed_mutex" in mt,
                "fields": self.fields}


def lean_bool(b):
    return "true" if b else "false"


def render(tr):
    L = ["/-", "  GENERATED by tools/translate_cache_locks.py from src/kernel/cache.{h,cc} — do not edit.",
         "  The lock discipline of vita::cache: for every public member function the lock object that guards it,",
         "  its accesses to the data members (write? / inside the lock's lexical scope? / exempt = const or atomic",
         "  member) and whether a reference into the table escapes.  Obligations (by decide) at the end.",
         "-/", "import Vita.C15.Locks", "namespace Vita.C15.Gen", "open Vita.C15", "",
         "/-- `%s mutex_` -/" % tr["mutex_type"],
         "def mutexShared : Bool := %s" % lean_bool(tr["mutex_shared"]), "",
         "def fns : List FnInfo := ["]
    rows = []
    for e in tr["fns"]:
        g = "none" if e["guard"] is None else "some (.%s, %s)" % (e["guard"][0], ".theMutex" if e["guard"][1] else ".otherExpr")
        accs = ", ".join("⟨%s, %s, %s⟩" % (lean_bool(w), lean_bool(i), lean_bool(x)) for f, w, i, x in e["accesses"])
        names = ", ".join("%s%s%s" % (f, ":w" if w else ":r", "" if i else ":OUTSIDE") for f, w, i, x in e["accesses"])
        rows.append("  -- %s   [%s]\n  { fn := .%s, guard := %s, accesses := [%s], escapes := %s }" %
                    (e["name"] + " : " + e["type"], names, e["fn"], g, accs, lean_bool(e["escapes"])))
    L.append(",\n".join(rows))
    L += ["]", "",
          "/-- the discipline the model is instantiated with -/",
          "def disc : Disc := discOf mutexShared fns", "",
          "/-- every write under the exclusive lock, every read under at least the shared lock, nothing escapes -/",
          "theorem all_disciplined : fns.all (FnInfo.disciplined mutexShared) = true := by decide", "",
          "/-- every function that touches the table is an operation of the model -/",
          "theorem all_modelled : fns.all FnInfo.modelled = true := by decide", "",
          "/-- … and so the extracted discipline is one `lookup_returns_stored` holds for -/",
          "theorem disc_ok : disc.ok = true := by decide", "",
          "end Vita.C15.Gen", ""]
    return "\n".join(L)


def emit(path):
    """translate, write Gen.lean; returns the translation (dict).  Raises Refuse."""
    tr = Translator().translate()
    txt = render(tr)
    old = open(path).read() if os.path.exists(path) else None
    if old != txt:
        with open(path, "w") as f:
            f.write(txt)
    return tr


if __name__ == "__main__":
    here = os.path.dirname(os.path.abspath(__file__))
    out = sys.argv[1] if len(sys.argv) > 1 else os.path.join(here, "..", "lean", "Vita", "C15", "Gen.lean")
    try:
        t = emit(out)
    except Refuse as e:
        print("REFUSE:", e)
        sys.exit(2)
    for e in t["fns"]:
        print(e["name"], e["nparams"], e["fn"], e["guard"], e["accesses"], "ESCAPES" if e["escapes"] else "")
