#!/usr/bin/env python3
"""Extract, from the clang AST of the *current* repo working tree, the DECLARED TYPE of every counter /
accumulator the evaluators of src/kernel/gp/src/evaluator.tcc and the classifiers they build keep
(tools/tu/counters_tu.cc: everything instantiated for `i_mep`) -> lean/Vita/C05/GenCounters.lean.

One table row per
  * `field`  : arithmetic data member (or container of arithmetic elements: `matrix<X>`, `std::vector<X>`,
               `std::map<K, X>` -> X) of the records an evaluation touches: `dataframe::example`
               (`difficulty`, `age`), `basic_dyn_slot_lambda_f` (`slot_matrix_`, `slot_class_`, `dataset_size_`),
               `distribution<double>` (`count_`, `mean_`, `m2_`, …), the evaluators themselves;
  * `local`  : arithmetic local variable of the member functions an evaluation runs (`sum_of_errors_impl`,
               `operator()`, `fill_matrix`, `fill_vector`, `slot`, `tag`, `add`, `update_variance`, …);
  * `update` : every `++x`, `x++`, `--x`, `x op= e`, `x = e` in those functions whose target `x` has arithmetic
               type: the target's root name and the type OF THE UPDATED LVALUE (for `++slot_matrix_(s, c)` the
               element type the matrix hands out).
Types are the desugared ones (`std::uintmax_t` -> `unsigned long`), turned into (kind, cap): an unsigned integer of
w bits counts exactly up to 2^w - 1 (cap = w), a signed one up to 2^(w-1) - 1 (cap = w - 1), a binary floating
type with a p-bit significand up to 2^p (cap = p).  `bool` is not a counter.  The obligations about the table
(`Vita.C05.Counters.tableOk`, decided in Props.lean) say that every row is at least as wide as the model assumes.

Refuses (raises `Refuse`) when a record / function it expects is missing or an updated lvalue has a shape it does
not know – never skips code."""
import os
import sys

sys.path.insert(0, os.path.dirname(os.path.abspath(__file__)))
from cxx2lean import Refuse, ast_dump, kids  # noqa: E402

# desugared type -> (kind, cap)
ARITH = {
    "unsigned char": ("uns", 8), "unsigned short": ("uns", 16), "unsigned int": ("uns", 32),
    "unsigned long": ("uns", 64), "unsigned long long": ("uns", 64), "unsigned __int128": ("uns", 128),
    "signed char": ("sgn", 7), "char": ("sgn", 7), "short": ("sgn", 15), "int": ("sgn", 31), "long": ("sgn", 63),
    "long long": ("sgn", 63), "__int128": ("sgn", 127),
    "float": ("flt", 24), "double": ("flt", 53), "long double": ("flt", 64), "_Float16": ("flt", 11),
    "__fp16": ("flt", 11), "__bf16": ("flt", 8),
}
ALIASES = {"uint8_t": "unsigned char", "std::uint8_t": "unsigned char", "uint16_t": "unsigned short",
           "std::uint16_t": "unsigned short", "uint32_t": "unsigned int", "std::uint32_t": "unsigned int",
           "uint64_t": "unsigned long", "std::uint64_t": "unsigned long", "int8_t": "signed char",
           "std::int8_t": "signed char", "int16_t": "short", "std::int16_t": "short", "int32_t": "int",
           "std::int32_t": "int", "int64_t": "long", "std::int64_t": "long", "size_t": "unsigned long",
           "std::size_t": "unsigned long", "uintmax_t": "unsigned long", "std::uintmax_t": "unsigned long",
           "unsigned": "unsigned int", "short int": "short", "unsigned short int": "unsigned short",
           "long int": "long", "unsigned long int": "unsigned long", "long long int": "long long",
           "unsigned long long int": "unsigned long long", "vita::class_t": "unsigned long", "class_t": "unsigned long",
           "vita::D_DOUBLE": "double", "D_DOUBLE": "double", "vita::D_INT": "int", "D_INT": "int",
           "number": "double"}

# records whose fields / member functions an evaluation touches: name -> accepted template argument lists
RECORDS = {
    "example": [""],
    "sum_of_errors_evaluator": None,          # any specialisation for i_mep
    "dyn_slot_evaluator": ["vita::i_mep"], "gaussian_evaluator": ["vita::i_mep"], "binary_evaluator": ["vita::i_mep"],
    "basic_dyn_slot_lambda_f": ["vita::i_mep,0,0"], "basic_gaussian_lambda_f": ["vita::i_mep,0,0"],
    "basic_binary_lambda_f": ["vita::i_mep,0,0"],
    "distribution": ["double"],
}
# member functions an evaluation does not run
SKIP_METHODS = {"save", "load", "is_valid", "serialize_id", "lambdify", "name", "measure", "entropy", "seen",
                "standard_deviation", "clear", "min", "max", "operator=", "example"}
# what must be there (the tie would be empty otherwise)
EXPECT_FIELDS = [("example", "difficulty"), ("example", "age"), ("basic_dyn_slot_lambda_f", "slot_matrix_"),
                 ("basic_dyn_slot_lambda_f", "dataset_size_"), ("distribution", "count_"), ("distribution", "mean_"),
                 ("distribution", "m2_")]
EXPECT_FUNCS = [("sum_of_errors_evaluator", "sum_of_errors_impl"), ("dyn_slot_evaluator", "operator()"),
                ("gaussian_evaluator", "operator()"), ("binary_evaluator", "operator()"),
                ("basic_dyn_slot_lambda_f", "fill_matrix"), ("basic_dyn_slot_lambda_f", "tag"),
                ("basic_gaussian_lambda_f", "fill_vector"), ("basic_gaussian_lambda_f", "tag"),
                ("basic_binary_lambda_f", "tag"), ("distribution", "add"), ("distribution", "update_variance")]

WRAPPERS = {"ImplicitCastExpr", "ParenExpr", "ExprWithCleanups", "MaterializeTemporaryExpr", "CXXBindTemporaryExpr",
            "ConstantExpr", "CXXStaticCastExpr", "CXXFunctionalCastExpr"}


def norm(t):
    """canonical spelling of a (desugared) type: cv-qualifiers and references dropped"""
    t = t.replace("&", " ").strip()
    ws = [w for w in t.split() if w not in ("const", "volatile")]
    t = " ".join(ws)
    return ALIASES.get(t, t)


def tinfo(n):
    ty = n.get("type", {})
    return ty.get("desugaredQualType", ty.get("qualType", "")), ty.get("qualType", "")


def split_targs(t):
    """template arguments of `name<…>` at depth 0"""
    lt = t.find("<")
    if lt < 0 or not t.endswith(">"):
        return None, []
    inner, depth, cur, out = t[lt + 1:-1], 0, "", []
    for ch in inner:
        if ch == "<":
            depth += 1
        elif ch == ">":
            depth -= 1
        if ch == "," and depth == 0:
            out.append(cur.strip())
            cur = ""
        else:
            cur += ch
    out.append(cur.strip())
    return t[:lt].strip(), out


def classify(desugared):
    """-> (element type spelling, kind, cap) of an arithmetic type or of a container of arithmetic elements; None"""
    t = norm(desugared)
    if t == "bool":
        return None
    if t in ARITH:
        return (t,) + ARITH[t]
    head, args = split_targs(t)
    if head in ("vita::matrix", "matrix", "std::vector", "vector", "std::deque", "std::array", "std::valarray") and args:
        return classify(args[0])
    if head in ("std::map", "map", "std::unordered_map") and len(args) >= 2:
        return classify(args[1])
    return None


def root_name(n):
    """the variable / data member an updated lvalue lives in"""
    k = n.get("kind")
    if k in WRAPPERS and kids(n):
        return root_name(kids(n)[0])
    if k == "DeclRefExpr":
        return n.get("referencedDecl", {}).get("name", "?")
    if k == "MemberExpr":
        return n.get("name", "?")
    if k == "CXXOperatorCallExpr" and len(kids(n)) >= 2:      # m(i, j), v[i], *it : the object is the first argument
        return root_name(kids(n)[1])
    if k == "ArraySubscriptExpr" and kids(n):
        return root_name(kids(n)[0])
    if k == "CXXMemberCallExpr" and kids(n):                  # v.at(i), v.back()
        return root_name(kids(n)[0])
    if k == "UnaryOperator" and n.get("opcode") == "*" and kids(n):
        return root_name(kids(n)[0])
    if k == "CXXThisExpr":
        return "this"
    raise Refuse("updated lvalue of unknown shape %s" % k)


def has_body(m):
    return any(c.get("kind") == "CompoundStmt" for c in kids(m))


def scan_function(owner, m, rows):
    fname = m.get("name")
    where = "%s::%s" % (owner, fname)

    def walk(n):
        k = n.get("kind")
        if k == "LambdaExpr":
            pass                                # the closure's operator() is walked below like any statement
        if k in ("VarDecl", "ParmVarDecl"):
            c = classify(tinfo(n)[0])
            if c and k == "VarDecl":
                rows.append((where, n.get("name", "?"), "local", c))
        upd = None
        if k == "UnaryOperator" and n.get("opcode") in ("++", "--"):
            upd = kids(n)[0]
        elif k == "CompoundAssignOperator":
            upd = kids(n)[0]
        elif k == "BinaryOperator" and n.get("opcode") == "=":
            upd = kids(n)[0]
        if upd is not None:
            c = classify(tinfo(upd)[0])
            if c:
                rows.append((where, root_name(upd), "update", c))
        for ch in n.get("inner", []):
            if isinstance(ch, dict) and ch.get("kind"):
                walk(ch)

    for c in kids(m):
        if c.get("kind") in ("CompoundStmt", "CXXCtorInitializer"):
            walk(c)


def targs_of(rec):
    out = []
    for c in kids(rec):
        if c.get("kind") == "TemplateArgument":
            out.append(str(c.get("type", {}).get("qualType", c.get("value"))))
    return ",".join(out)


def extract():
    docs = ast_dump("counters_tu.cc", "vita::")
    rows = []
    seen_recs = set()

    def visit(n):
        k = n.get("kind")
        if k in ("ClassTemplateSpecializationDecl", "CXXRecordDecl") and n.get("name") in RECORDS and \
                n.get("completeDefinition"):
            name, ta = n["name"], targs_of(n)
            want = RECORDS[name]
            dependent = k == "CXXRecordDecl" and name != "example"          # the template pattern itself
            ok = not dependent and (ta.startswith("vita::i_mep") if want is None else ta in want)
            if ok and (name, ta, n.get("id")) not in seen_recs:
                seen_recs.add((name, ta, n.get("id")))
                for c in kids(n):
                    ck = c.get("kind")
                    if ck == "FieldDecl":
                        cl = classify(tinfo(c)[0])
                        if cl:
                            rows.append((name, c.get("name", "?"), "field", cl))
                    elif ck in ("CXXMethodDecl", "CXXConstructorDecl") and has_body(c) and \
                            c.get("name") not in SKIP_METHODS:
                        scan_function(name, c, rows)
                    elif ck == "FunctionTemplateDecl" and c.get("name") not in SKIP_METHODS:
                        for f in kids(c):
                            if f.get("kind") == "CXXMethodDecl" and has_body(f) and \
                                    "type-parameter" not in f.get("type", {}).get("qualType", "") and \
                                    any(x.get("kind") == "TemplateArgument" for x in kids(f)):
                                scan_function(name, f, rows)
        for c in kids(n):
            visit(c)

    for d in docs:
        visit(d)
    # canonical: distinct rows, sorted
    rows = sorted(set(rows))
    have_f = {(o, nm) for o, nm, role, _ in rows if role == "field"}
    for e in EXPECT_FIELDS:
        if e not in have_f:
            raise Refuse("data member %s::%s not found (or no longer of arithmetic type)" % e)
    have_fn = {o for o, _, role, _ in rows if role != "field"}
    for o, f in EXPECT_FUNCS:
        if "%s::%s" % (o, f) not in have_fn:
            raise Refuse("no counter found in %s::%s (function missing or not instantiated)" % (o, f))
    return rows


def emit(path):
    rows = extract()
    L = ["-- GENERATED by tools/translate_counters.py from the clang AST of tools/tu/counters_tu.cc (the evaluators of",
         "-- src/kernel/gp/src/evaluator.tcc, the classifiers of lambda_f.tcc, distribution.tcc, dataframe::example, all",
         "-- for i_mep) of the repo working tree; regenerated on every check run; do not edit",
         "import Vita.C05.Counters", "namespace Vita.C05.GenCounters", "open Vita.C05.Counters", "",
         "/-- owner, name, role, declared (desugared) element type, kind, cap -/",
         "def table : List Counter := ["]
    L.append(",\n".join('  ⟨"%s", "%s", .%s, "%s", .%s, %d⟩' % (o, nm, role, ct, kind, cap)
                        for o, nm, role, (ct, kind, cap) in rows))
    L += ["]", "", "end Vita.C05.GenCounters", ""]
    txt = "\n".join(L)
    old = open(path).read() if os.path.exists(path) else None
    if old != txt:
        os.makedirs(os.path.dirname(path), exist_ok=True)
        with open(path, "w") as f:
            f.write(txt)
    return rows, old is not None and old != txt


if __name__ == "__main__":
    here = os.path.dirname(os.path.dirname(os.path.abspath(__file__)))
    try:
        rows, changed = emit(os.path.join(here, "lean", "Vita", "C05", "GenCounters.lean"))
        for r in rows:
            print(r)
        print(len(rows), "rows", "(changed)" if changed else "")
    except Refuse as e:
        print("REFUSE:", e)
        sys.exit(2)
