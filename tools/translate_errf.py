#!/usr/bin/env python3
"""Translate the bodies of the four error functors of the sum-of-errors evaluators
(`mae/rmae/mse/count_error_functor<T>::operator()`, src/kernel/gp/src/evaluator.tcc, instantiated for
`i_mep`) and of `vita::issmall<double>` (src/utility/utility.h) of the *current* repo working tree
into Lean terms (syntax only) -> lean/Vita/C05/Gen.lean.

A functor body becomes a Lean function `Option F → F → F` over an abstract `FloatOps F` (the
embedding C13 uses):

    agent_(example)                         the argument `out : Option F` (no value = `none`)
    has_value(v)                            `Option.isSome out`
    lexical_cast<D_DOUBLE>(v)               `castD out`   (utility.cc: 0.0 for a valueless variant)
    label_as<D_DOUBLE>(example)             the argument `target : F`
    std::fabs / isfinite / issmall, + - * /, comparisons, ! && ||, ?:      the `FloatOps` fields
    std::numeric_limits<double>::max() / min() / epsilon(), literals       `FloatOps.ofBits 0x…`
    locals (also mutable ones), `x = e;`    `let` bindings (a new binding per assignment)
    if / if-else / `if (init; cond)` / early `return`                       `if … then … else …`, the
                                            statements after an `if` are continued in both branches

Every expression here is free of side effects, so the order of evaluation is immaterial.
Refuses (exit 2 / raises `Refuse`) on anything it does not understand – never skips code."""
import os
import struct
import sys

sys.path.insert(0, os.path.dirname(os.path.abspath(__file__)))
from cxx2lean import Refuse, ast_dump, kids, qtype  # noqa: E402
import translate_real  # noqa: E402  (the expression translator for the plain function issmall)

WRAP = {"ExprWithCleanups", "MaterializeTemporaryExpr", "CXXBindTemporaryExpr", "ParenExpr", "ConstantExpr"}
PASS_CASTS = {"NoOp", "LValueToRValue", "ConstructorConversion", "FunctionToPointerDecay"}
ARITH = {"+": "add", "-": "sub", "*": "mul", "/": "div"}
FUNCTORS = ["mae", "rmae", "mse", "count"]
DBL_MAX = 1.7976931348623157e308
DBL_MIN = 2.2250738585072014e-308
LIMITS = {"max": DBL_MAX, "min": DBL_MIN, "epsilon": 2.0 ** -52, "lowest": -DBL_MAX,
          "denorm_min": 5e-324}
RESERVED = {"out", "target", "F", "if", "then", "else", "let", "fun", "match", "with", "end", "open", "at",
            "from", "have", "show", "by", "do", "in", "def", "theorem", "where", "issmall", "castD"}


def lit(x):
    return "(FloatOps.ofBits 0x%016X)" % struct.unpack("<Q", struct.pack("<d", x))[0]


def callee(n):
    """(name, function type) of a call"""
    f = kids(n)[0]
    while f.get("kind") in ("ImplicitCastExpr", "ParenExpr") and kids(f):
        f = kids(f)[0]
    if f.get("kind") == "DeclRefExpr":
        return f.get("referencedDecl", {}).get("name"), f.get("type", {}).get("qualType", "")
    if f.get("kind") == "MemberExpr":
        return f.get("name"), f.get("type", {}).get("qualType", "")
    return None, ""


def strip_type(t):
    return t.replace("const ", "").replace(" const", "").strip()


def vtype(n):
    t = strip_type(qtype(n))
    if t in ("double", "vita::D_DOUBLE", "D_DOUBLE"):
        return "dbl"
    if t == "bool":
        return "bool"
    if t in ("vita::value_t", "value_t", "std::variant<std::monostate, int, double, std::basic_string<char>>",
             "variant<std::monostate, int, double, std::basic_string<char>>"):
        return "oval"
    raise Refuse("expression / variable of unsupported type %r (%s)" % (qtype(n), n.get("kind")))


class Fn:
    """translator of one functor body"""

    def __init__(self):
        self.used = set(RESERVED)

    def fresh(self, base):
        base = "".join(c if (c.isalnum() or c == "_") else "_" for c in base) or "v"
        if base[0].isdigit() or base in self.used:
            base = base + "_"
        name, k = base, 0
        while name in self.used:
            k += 1
            name = "%s%d" % (base, k)
        self.used.add(name)
        return name

    # ---- expressions: -> (text, type) ------------------------------------------------------
    def ex(self, n, env):
        kd = n.get("kind")
        ks = kids(n)
        if kd in WRAP:
            return self.ex(ks[0], env)
        if kd in ("ImplicitCastExpr", "CXXStaticCastExpr", "CXXFunctionalCastExpr", "CStyleCastExpr"):
            ck = n.get("castKind")
            if ck in PASS_CASTS:
                return self.ex(ks[-1], env)
            if ck == "IntegralToFloating":
                inner = ks[-1]
                while inner.get("kind") in WRAP or (inner.get("kind") == "ImplicitCastExpr" and
                                                    inner.get("castKind") in PASS_CASTS):
                    inner = kids(inner)[0]
                if inner.get("kind") == "IntegerLiteral" and vtype(n) == "dbl":
                    return lit(float(int(inner["value"]))), "dbl"
                raise Refuse("integral-to-floating conversion of a non-literal")
            if ck == "FloatingCast" and vtype(n) == "dbl" and strip_type(qtype(ks[-1])) == "double":
                return self.ex(ks[-1], env)
            raise Refuse("cast kind %s" % ck)
        if kd == "FloatingLiteral":
            if vtype(n) != "dbl":
                raise Refuse("floating literal of type %s" % qtype(n))
            return lit(float(n["value"])), "dbl"
        if kd == "CXXBoolLiteralExpr":
            return ("true" if n["value"] else "false"), "bool"
        if kd == "DeclRefExpr":
            name = n.get("referencedDecl", {}).get("name")
            if name in env:
                return env[name]
            raise Refuse("reference to unknown variable %r" % name)
        if kd == "CXXOperatorCallExpr":
            name, _ = callee(n)
            if name == "operator()" and len(ks) == 3:
                obj, arg = ks[1], ks[2]
                while obj.get("kind") in WRAP or obj.get("kind") == "ImplicitCastExpr":
                    obj = kids(obj)[0]
                while arg.get("kind") in WRAP or arg.get("kind") == "ImplicitCastExpr":
                    arg = kids(arg)[0]
                if obj.get("kind") == "MemberExpr" and obj.get("name") == "agent_" and \
                        "basic_reg_lambda_f" in qtype(obj) and arg.get("kind") == "DeclRefExpr" and \
                        env.get(arg.get("referencedDecl", {}).get("name")) == ("example", "example"):
                    return "out", "oval"
            raise Refuse("overloaded operator call %s" % name)
        if kd == "CallExpr":
            name, ftype = callee(n)
            args = ks[1:]
            if name == "has_value" and len(args) == 1 and ftype.startswith("bool (const vita::value_t &)"):
                t, ty = self.ex(args[0], env)
                if ty != "oval":
                    raise Refuse("has_value of a %s" % ty)
                return "(Option.isSome %s)" % t, "bool"
            if name == "lexical_cast" and len(args) == 1 and ftype.startswith("double (const vita::value_t &)"):
                t, ty = self.ex(args[0], env)
                if ty != "oval":
                    raise Refuse("lexical_cast of a %s" % ty)
                return "(castD %s)" % t, "dbl"
            if name == "label_as" and len(args) == 1 and ftype.startswith("double (const dataframe::example &)"):
                t, ty = self.ex(args[0], env)
                if ty != "example":
                    raise Refuse("label_as of something that is not the example")
                return "target", "dbl"
            if name in ("fabs", "abs") and len(args) == 1 and ftype.startswith("double (double)"):
                t, ty = self.ex(args[0], env)
                return "(FloatOps.fabs %s)" % t, "dbl"
            if name == "isfinite" and len(args) == 1 and ftype.startswith("bool (double)"):
                t, ty = self.ex(args[0], env)
                return "(FloatOps.isFinite %s)" % t, "bool"
            if name == "issmall" and len(args) == 1 and ftype.startswith("bool (double)"):
                t, ty = self.ex(args[0], env)
                return "(issmall %s)" % t, "bool"
            if name in LIMITS and not args and ftype.startswith("double ()"):
                return lit(LIMITS[name]), "dbl"
            raise Refuse("call to %r of type %r" % (name, ftype))
        if kd == "UnaryOperator":
            op = n.get("opcode")
            t, ty = self.ex(ks[0], env)
            if op == "!" and ty == "bool":
                return "(!%s)" % t, "bool"
            if op == "-" and ty == "dbl":
                return "(FloatOps.neg %s)" % t, "dbl"
            if op == "+" and ty == "dbl":
                return t, "dbl"
            raise Refuse("unary operator %s on %s" % (op, ty))
        if kd == "BinaryOperator":
            op = n.get("opcode")
            (a, ta), (b, tb) = self.ex(ks[0], env), self.ex(ks[1], env)
            if op in ("&&", "||"):
                if ta != "bool" or tb != "bool":
                    raise Refuse("%s on %s, %s" % (op, ta, tb))
                return "(%s %s %s)" % (a, op, b), "bool"
            if ta != "dbl" or tb != "dbl":
                raise Refuse("binary operator %s on %s, %s" % (op, ta, tb))
            if op in ARITH:
                return "(FloatOps.%s %s %s)" % (ARITH[op], a, b), "dbl"
            cmpf = {"<": "(FloatOps.lt %s %s)", "<=": "(FloatOps.le %s %s)", "==": "(FloatOps.eq %s %s)",
                    "!=": "(!(FloatOps.eq %s %s))"}
            if op in cmpf:
                return cmpf[op] % (a, b), "bool"
            if op == ">":
                return "(FloatOps.lt %s %s)" % (b, a), "bool"
            if op == ">=":
                return "(FloatOps.le %s %s)" % (b, a), "bool"
            raise Refuse("binary operator %s" % op)
        if kd == "ConditionalOperator":
            (c, tc), (a, ta), (b, tb) = self.ex(ks[0], env), self.ex(ks[1], env), self.ex(ks[2], env)
            if tc != "bool" or ta != tb:
                raise Refuse("conditional operator on %s ? %s : %s" % (tc, ta, tb))
            return "(if %s then %s else %s)" % (c, a, b), ta
        raise Refuse("expression node %s" % kd)

    # ---- statements -------------------------------------------------------------------------
    def decl(self, d, env):
        """one VarDecl -> (let line, new env)"""
        if d.get("kind") == "StaticAssertDecl":
            return None, env
        if d.get("kind") != "VarDecl" or not kids(d):
            raise Refuse("declaration %s without initialiser" % d.get("kind"))
        name = d["name"]
        if name in env:
            raise Refuse("local %r shadows another variable" % name)
        init = [c for c in kids(d) if not c.get("kind", "").endswith("Comment")]
        t, ty = self.ex(init[0], env)
        if vtype(d) != ty:
            raise Refuse("local %s: declared %s, initialiser %s" % (name, qtype(d), ty))
        env = dict(env)
        if ty == "oval":
            env[name] = (t, ty)          # the program's value: only ever the argument `out`
            return None, env
        ln = self.fresh(name)
        env[name] = (ln, ty)
        return "let %s := %s" % (ln, t), env

    def body(self, stmts, env):
        if not stmts:
            raise Refuse("control reaches the end of a non-void function")
        s, rest = stmts[0], stmts[1:]
        kd = s.get("kind")
        if kd == "CompoundStmt":
            return self.body(kids(s) + rest, env)
        if kd == "NullStmt":
            return self.body(rest, env)
        if kd == "DeclStmt":
            lines = []
            for d in kids(s):
                ln, env = self.decl(d, env)
                if ln:
                    lines.append(ln)
            return "\n".join(lines + [self.body(rest, env)])
        if kd == "BinaryOperator" and s.get("opcode") == "=":
            lhs, rhs = kids(s)
            if lhs.get("kind") != "DeclRefExpr":
                raise Refuse("assignment to something that is not a local variable")
            name = lhs.get("referencedDecl", {}).get("name")
            if name not in env or env[name][1] not in ("dbl", "bool"):
                raise Refuse("assignment to %r" % name)
            if "const" in lhs.get("type", {}).get("qualType", ""):
                raise Refuse("assignment to the constant %r" % name)
            t, ty = self.ex(rhs, env)
            if ty != env[name][1]:
                raise Refuse("assignment of a %s to the %s %r" % (ty, env[name][1], name))
            env = dict(env)
            ln = self.fresh(name)
            env[name] = (ln, ty)
            return "let %s := %s\n%s" % (ln, t, self.body(rest, env))
        if kd == "IfStmt":
            ks = kids(s)
            if s.get("hasVar"):
                raise Refuse("if with a condition variable")
            pre = []
            if s.get("hasInit"):
                init, ks = ks[0], ks[1:]
                if init.get("kind") != "DeclStmt":
                    raise Refuse("if with an init-statement that is not a declaration")
                for d in kids(init):
                    ln, env = self.decl(d, env)
                    if ln:
                        pre.append(ln)
            c, tc = self.ex(ks[0], env)
            if tc != "bool":
                raise Refuse("if condition of type %s" % tc)
            th = self.body([ks[1]] + rest, env)
            el = self.body(([ks[2]] if s.get("hasElse") else []) + rest, env)
            return "\n".join(pre + ["if %s then\n%s\nelse\n%s" % (c, block(th), block(el))])
        if kd == "ReturnStmt":
            t, ty = self.ex(kids(s)[0], env)
            if ty != "dbl":
                raise Refuse("the functor returns a %s" % ty)
            return t
        raise Refuse("statement %s" % kd)


def block(txt):
    return "\n".join("  " + ln for ln in txt.split("\n"))


def functor_body(docs, cls):
    """the instantiated `operator()` of class template `cls` for `i_mep`"""
    found = []
    for d in docs:
        if d.get("kind") == "ClassTemplateSpecializationDecl" and d.get("name") == cls:
            for m in kids(d):
                if m.get("kind") == "CXXMethodDecl" and m.get("name") == "operator()" and \
                        any(c.get("kind") == "CompoundStmt" for c in kids(m)):
                    found.append(m)
        for c in kids(d):
            if d.get("kind") == "ClassTemplateDecl" and d.get("name") == cls and \
                    c.get("kind") == "ClassTemplateSpecializationDecl":
                for m in kids(c):
                    if m.get("kind") == "CXXMethodDecl" and m.get("name") == "operator()" and \
                            any(x.get("kind") == "CompoundStmt" for x in kids(m)):
                        found.append(m)
    ids = {m.get("id") for m in found}
    if len(ids) != 1:
        raise Refuse("%s<i_mep>::operator(): %d instantiated definitions found" % (cls, len(ids)))
    m = found[0]
    if m.get("type", {}).get("qualType") != "double (const dataframe::example &) const":
        raise Refuse("%s::operator() has type %r" % (cls, m.get("type", {}).get("qualType")))
    ps = [c for c in kids(m) if c.get("kind") == "ParmVarDecl"]
    if len(ps) != 1:
        raise Refuse("%s::operator() has %d parameters" % (cls, len(ps)))
    fn = Fn()
    env = {ps[0]["name"]: ("example", "example")}
    return fn.body([c for c in kids(m) if c.get("kind") == "CompoundStmt"], env)


def issmall_body():
    docs = ast_dump("errf_tu.cc", "vita::issmall")
    inst = []
    for d in docs:
        if d.get("kind") == "FunctionTemplateDecl" and d.get("name") == "issmall":
            for f in kids(d):
                if f.get("kind") == "FunctionDecl" and f.get("type", {}).get("qualType") == "bool (double)" and \
                        any(c.get("kind") == "CompoundStmt" for c in kids(f)):
                    inst.append(f)
    if len(inst) != 1:
        raise Refuse("issmall<double>: %d instantiations found" % len(inst))
    f = inst[0]
    ps = [c for c in kids(f) if c.get("kind") == "ParmVarDecl"]
    tr = translate_real.Tr(pure=True)
    tr.locals[ps[0]["name"]] = ("v", "dbl")

    def retb(t, ty):
        if ty != "bool":
            raise Refuse("issmall returns %s" % ty)
        return t
    return tr.body([c for c in kids(f) if c.get("kind") == "CompoundStmt"], retb)


def translate():
    out = []
    for k in FUNCTORS:
        docs = ast_dump("errf_tu.cc", "vita::%s_error_functor" % k)
        out.append((k, functor_body(docs, "%s_error_functor" % k)))
    return out, issmall_body()


def emit(path):
    fns, small = translate()
    L = ["-- GENERATED by tools/translate_errf.py from src/kernel/gp/src/evaluator.tcc (error functors, instantiated",
         "-- for i_mep) and src/utility/utility.h (issmall) of the repo working tree; regenerated on every check run;",
         "-- do not edit",
         "import Vita.Common.FloatOps", "import Vita.C05.GenSupport", "namespace Vita.C05.Gen", "open Vita Vita.C05",
         "variable {F : Type} [FloatOps F]", "",
         "/-- `vita::issmall<double>` -/",
         "def issmall (v : F) : Bool :=\n" + translate_real.indent(small), ""]
    for name, t in fns:
        L.append("/-- `%s_error_functor<T>::operator()` : `out` = `agent_(example)`, `target` = `label_as<D_DOUBLE>(example)` -/"
                 % name)
        L.append("def %sErr (out : Option F) (target : F) : F :=\n%s\n" % (name, block(t)))
    L.append("/-- the four functors by kind -/")
    L.append("def errF : ErrKind → Option F → F → F\n" + "\n".join("  | .%s => %sErr" % (n, n) for n, _ in fns) + "\n")
    L.append("end Vita.C05.Gen\n")
    txt = "\n".join(L)
    old = open(path).read() if os.path.exists(path) else None
    if old != txt:
        os.makedirs(os.path.dirname(path), exist_ok=True)
        with open(path, "w") as f:
            f.write(txt)
    return [n for n, _ in fns], old is not None and old != txt


if __name__ == "__main__":
    here = os.path.dirname(os.path.dirname(os.path.abspath(__file__)))
    try:
        names, changed = emit(os.path.join(here, "lean", "Vita", "C05", "Gen.lean"))
        print("translated:", " ".join(names), "(changed)" if changed else "")
    except Refuse as e:
        print("REFUSE:", e)
        sys.exit(2)
