#!/usr/bin/env python3
"""C06: what do `evolution<T,ES>::run`, `summary<T>::summary/clear` and the strategy classes say?

Reads the clang-14 JSON AST (template patterns: the source as written) of /repo's CURRENT working
tree and writes lean/Vita/C06/GenEvo.lean, plain data over the types of Vita/C06/EvoSyntax.lean:

  summaryFields / ctorInits / clearSets / clearNats
        the data members of `summary<T>`, the constructor's member initialisers and what
        `summary<T>::clear()` resets (`*this = summary<T>()` = every member to its constructor
        value; a member-wise clear = exactly the members it assigns / `.clear()`s)
  skel  the statement skeleton of `evolution<T,ES>::run(unsigned, S)` as tokens (Tok): summary
        clear, initial best, es_.init(), the generation loop (init / increment), shake, the
        select -> recombine -> replace loop, es_.after_generation(), the callback.  Statements
        without effect on population / summary / strategy (timers, terminal, progress and log
        output, stats_.elapsed) are recognised as inert and dropped; anything else is refused.
  genLoopCond / stepLoopCond, noShakeDefault (`run(unsigned)` passes a `shake` that returns false);
        the shake branch is the token `ifShake <its condition as BX>` + `shakeBody`
  one `List GE` per strategy function (selection::tournament/alps/random, replacement::tournament/
        family_competition/alps incl. try_add_to_layer / try_move_up_layer, basic_alps_es::
        after_generation, std_es::stop_condition): every assignment, non-const local, call
        statement and return in source order with the conditions (if / else / for / while) it
        is nested in; the same for the three `tune_parameters` (search, src_search, basic_ga_search;
        there const locals are snapshots and are kept as `decl` effects).  Conditions are BX terms: &&, ||, !, comparisons with the operands as
        canonical source text (const and reference locals replaced by their initialiser unless
        it draws from the PRNG, `this->` and parentheses dropped), everything else an opaque atom.

Syntax only; the meaning is given in Lean (Evo.lean) and Props.lean proves by `decide` that these
tables are the ones the model interprets.  Unknown statement / expression kinds are refused.
"""
import concurrent.futures as cf
import os
import re
import sys

sys.path.insert(0, os.path.dirname(os.path.abspath(__file__)))
import cxx2lean as X  # noqa: E402
from cxx2lean import Refuse  # noqa: E402

TU = "evo_tu.cc"

STRATEGY_FNS = [
    ("selTournament", "vita::selection::tournament::run", "run"),
    ("selAlpsPickup", "vita::selection::alps::pickup", "pickup"),
    ("selAlps", "vita::selection::alps::run", "run"),
    ("selRandom", "vita::selection::random::run", "run"),
    ("replTournamentSrc", "vita::replacement::tournament::run", "run"),
    ("replFamilySrc", "vita::replacement::family_competition::run", "run"),
    ("replAlpsSrc", "vita::replacement::alps::run", "run"),
    ("alpsTryAddSrc", "vita::replacement::alps::try_add_to_layer", "try_add_to_layer"),
    ("alpsMoveUpSrc", "vita::replacement::alps::try_move_up_layer", "try_move_up_layer"),
    ("alpsAfterGenSrc", "vita::basic_alps_es::after_generation", "after_generation"),
    ("stdStopSrc", "vita::std_es::stop_condition", "stop_condition"),
]

# the three tune_parameters: const locals are snapshots there (`const environment constrained(prob_.env)`
# is the user's request BEFORE the assignments below it), so only references are substituted
TUNE_FNS = [
    ("tuneBaseSrc", "vita::search::tune_parameters", "tune_parameters"),
    ("tuneSrcSrc", "vita::src_search::tune_parameters", "tune_parameters"),
    ("tuneGaSrc", "vita::basic_ga_search::tune_parameters", "tune_parameters"),
]

WRAP = {"ExprWithCleanups", "MaterializeTemporaryExpr", "CXXBindTemporaryExpr", "ConstantExpr",
        "ImplicitCastExpr", "ParenExpr", "SubstNonTypeTemplateParmExpr", "CXXStdInitializerListExpr"}
CMP = {"<": "lt", "<=": "le", ">": "gt", ">=": "ge", "==": "eq", "!=": "ne"}
# a const local initialised by a draw is a point in the PRNG stream, not a name for an expression:
# it stays a `decl` effect (order of the draws visible) instead of being substituted
DRAWS = re.compile(r"\b(pickup|sup|boolean|between|element|ring|randomize)\(")
ASSIGN = {"=", "+=", "-=", "*=", "/=", "%=", "<<=", ">>=", "&=", "|=", "^="}


def peel(n):
    while n.get("kind") in WRAP or (n.get("kind") == "ParenListExpr" and len(X.kids(n)) == 1) or \
            (n.get("kind") == "CXXConstructExpr" and len([k for k in X.kids(n) if k.get("kind") != "CXXDefaultArgExpr"]) == 1):
        ks = [k for k in X.kids(n) if k.get("kind") != "CXXDefaultArgExpr"]
        if len(ks) != 1:
            raise Refuse("wrapper %s with %d operands" % (n.get("kind"), len(ks)))
        n = ks[0]
    return n


def is_log_macro(n):
    """`vitaINFO << …` & co. expand to `if (log::lX == log::lDEBUG) ; else if (lX < reporting_level) ; else …`:
    an if whose CONDITION compares log levels"""
    ks = X.kids(n)
    return n.get("kind") == "IfStmt" and bool(ks) and bool(X.find_all(
        ks[0], lambda x: x.get("kind") == "DeclRefExpr" and "log::level" in x.get("type", {}).get("qualType", "")))


def clean_type(t):
    t = re.sub(r"\b(class|struct|typename)\s+", "", t)
    t = t.replace("vita::", "").replace("std::", "")
    return re.sub(r"\s+", " ", t).strip()


class Fn:
    """Printer / flattener for one function body."""

    def __init__(self, what, inline_consts=True):
        self.what = what
        self.inline = {}      # VarDecl id -> initialiser node (const / reference locals)
        self.inline_consts = inline_consts
        self.effects = []

    # ---------------------------------------------------------------- expressions as text
    def args(self, ns):
        return ", ".join(self.txt(a) for a in ns if a.get("kind") != "CXXDefaultArgExpr")

    def opname(self, call):
        f = peel(X.kids(call)[0])
        nm = f.get("name") or f.get("referencedDecl", {}).get("name") or ""
        if not nm.startswith("operator"):
            raise Refuse("%s: operator call without operator name (%s)" % (self.what, f.get("kind")))
        return nm[len("operator"):]

    def txt(self, n):
        n = peel(n)
        k = n.get("kind")
        ks = X.kids(n)
        if k == "CXXThisExpr":
            return "this"
        if k in ("MemberExpr", "CXXDependentScopeMemberExpr"):
            name = n.get("name") or n.get("member")
            if not ks:
                return name
            b = peel(ks[0])
            if b.get("kind") == "CXXThisExpr":
                return name
            return self.txt(b) + ("->" if n.get("isArrow") else ".") + name
        if k == "DeclRefExpr":
            rd = n.get("referencedDecl", {})
            if rd.get("id") in self.inline:
                return self.txt(self.inline[rd["id"]])
            if rd.get("kind") == "EnumConstantDecl":
                return clean_type(X.qtype(n)).split("::")[-1] + "::" + rd.get("name")
            return rd.get("name")
        if k in ("UnresolvedLookupExpr", "DependentScopeDeclRefExpr"):
            return n.get("name") or "?"
        if k == "UnresolvedMemberExpr":
            return n.get("name") or n.get("member") or "member"
        if k in ("CallExpr", "CXXMemberCallExpr"):
            return self.txt(ks[0]) + "(" + self.args(ks[1:]) + ")"
        if k == "CXXOperatorCallExpr":
            op = self.opname(n)
            a = ks[1:]
            if op == "[]":
                return self.txt(a[0]) + "[" + self.args(a[1:]) + "]"
            if op == "()":
                return self.txt(a[0]) + "(" + self.args(a[1:]) + ")"
            if len(a) == 1:
                return op + self.txt(a[0])
            if len(a) == 2:
                return "(" + self.txt(a[0]) + " " + op + " " + self.txt(a[1]) + ")"
            raise Refuse("%s: operator%s with %d operands" % (self.what, op, len(a)))
        if k == "ArraySubscriptExpr":
            return self.txt(ks[0]) + "[" + self.txt(ks[1]) + "]"
        if k == "InitListExpr":
            return "{" + self.args(ks) + "}"
        if k == "IntegerLiteral":
            return str(n.get("value"))
        if k == "FloatingLiteral":
            return str(n.get("value"))
        if k == "CXXBoolLiteralExpr":
            return "true" if n.get("value") else "false"
        if k == "StringLiteral":
            return str(n.get("value"))
        if k == "UnaryOperator":
            op = n.get("opcode")
            return (self.txt(ks[0]) + op) if n.get("isPostfix") else (op + self.txt(ks[0]))
        if k == "BinaryOperator" or k == "CompoundAssignOperator":
            return "(" + self.txt(ks[0]) + " " + n.get("opcode") + " " + self.txt(ks[1]) + ")"
        if k == "ConditionalOperator":
            return "(" + self.txt(ks[0]) + " ? " + self.txt(ks[1]) + " : " + self.txt(ks[2]) + ")"
        if k in ("CXXUnresolvedConstructExpr", "CXXTemporaryObjectExpr", "CXXConstructExpr",
                 "CXXFunctionalCastExpr", "CXXStaticCastExpr", "CStyleCastExpr"):
            return clean_type(n.get("type", {}).get("qualType", "?")) + "(" + self.args(ks) + ")"
        if k == "LambdaExpr":
            return "lambda"
        if k == "CXXTypeidExpr":
            if ks:
                return "typeid(" + self.txt(ks[0]) + ")"
            return "typeid(" + clean_type(n.get("typeArg", n.get("adjustedTypeArg", {})).get("qualType", "?")) + ")"
        if k == "ParenListExpr":
            return "(" + self.args(ks) + ")"
        raise Refuse("%s: expression kind %s not handled" % (self.what, k))

    # ---------------------------------------------------------------- conditions as BX
    def bx(self, n):
        n = peel(n)
        k = n.get("kind")
        ks = X.kids(n)
        if k == "BinaryOperator" and n.get("opcode") in ("&&", "||"):
            return ("and" if n.get("opcode") == "&&" else "or", self.bx(ks[0]), self.bx(ks[1]))
        if k == "UnaryOperator" and n.get("opcode") == "!":
            return ("not", self.bx(ks[0]))
        if k == "BinaryOperator" and n.get("opcode") in CMP:
            return ("cmp", CMP[n.get("opcode")], self.txt(ks[0]), self.txt(ks[1]))
        if k == "CXXOperatorCallExpr":
            op = self.opname(n)
            if op in CMP and len(ks) == 3:
                return ("cmp", CMP[op], self.txt(ks[1]), self.txt(ks[2]))
            if op == "!" and len(ks) == 2:
                return ("not", self.bx(ks[1]))
        if k == "DeclRefExpr" and n.get("referencedDecl", {}).get("id") in self.inline and \
                "bool" in X.qtype(n):
            return self.bx(self.inline[n["referencedDecl"]["id"]])
        return ("atom", self.txt(n))

    # ---------------------------------------------------------------- statements as effects
    def emit(self, path, kind, lhs, rhs):
        self.effects.append((tuple(path), kind, lhs, rhs))

    def decl(self, d, path):
        for v in X.kids(d):
            vk = v.get("kind")
            if vk in ("TypeAliasDecl", "TypedefDecl", "StaticAssertDecl", "UsingDecl"):
                continue
            if vk != "VarDecl":
                raise Refuse("%s: declaration kind %s not handled" % (self.what, vk))
            t = v.get("type", {}).get("qualType", "")
            init = [c for c in X.kids(v) if c.get("kind") not in ("FullComment",)]
            if len(init) > 1:
                raise Refuse("%s: local %s with %d initialisers" % (self.what, v.get("name"), len(init)))
            isref = t.rstrip().endswith("&")
            if init and (isref or (t.startswith("const ") and self.inline_consts)) and not t.rstrip().endswith("]") \
                    and "static" != v.get("storageClass") and not DRAWS.search(self.txt(init[0])):
                self.inline[v.get("id")] = init[0]
            else:
                self.emit(path, "decl", v.get("name"), self.txt(init[0]) if init else "")

    def expr_stmt(self, n, path):
        n = peel(n)
        k = n.get("kind")
        ks = X.kids(n)
        if k in ("BinaryOperator", "CompoundAssignOperator") and n.get("opcode") in ASSIGN:
            op = n.get("opcode")
            l, r = self.txt(ks[0]), self.txt(ks[1])
            self.emit(path, "set", l, r if op == "=" else "(%s %s %s)" % (l, op[:-1], r))
            return
        if k == "CXXOperatorCallExpr":
            op = self.opname(n)
            if op in ASSIGN and len(ks) == 3:
                l, r = self.txt(ks[1]), self.txt(ks[2])
                self.emit(path, "set", l, r if op == "=" else "(%s %s %s)" % (l, op[:-1], r))
                return
            if op in ("++", "--"):
                l = self.txt(ks[1])
                self.emit(path, "set", l, "(%s %s 1)" % (l, op[0]))
                return
            self.emit(path, "call", "", self.txt(n))
            return
        if k == "UnaryOperator" and n.get("opcode") in ("++", "--"):
            l = self.txt(ks[0])
            self.emit(path, "set", l, "(%s %s 1)" % (l, n.get("opcode")[0]))
            return
        if k in ("CallExpr", "CXXMemberCallExpr"):
            self.emit(path, "call", "", self.txt(n))
            return
        if k in ("CXXStaticCastExpr", "CStyleCastExpr") and n.get("castKind") == "ToVoid":
            return                                        # `assert(...)` under NDEBUG: (void)0
        raise Refuse("%s: expression statement %s not handled" % (self.what, k))

    def stmt(self, n, path):
        k = n.get("kind")
        if k == "CompoundStmt":
            for c in X.kids(n):
                self.stmt(c, path)
        elif k == "DeclStmt":
            self.decl(n, path)
        elif k == "NullStmt":
            pass
        elif k == "IfStmt" and is_log_macro(n):
            pass                                          # vitaINFO / vitaDEBUG … : log output
        elif k == "IfStmt":
            if n.get("hasInit") or n.get("hasVar") or n.get("isConstexpr"):
                raise Refuse("%s: if with init / condition variable / constexpr" % self.what)
            ks = X.kids(n)
            c = self.bx(ks[0])
            self.stmt(ks[1], path + [("if", c)])
            if len(ks) > 2:
                self.stmt(ks[2], path + [("else", c)])
        elif k == "ForStmt":
            inner = n.get("inner", [])
            if len(inner) != 5 or inner[1].get("kind"):
                raise Refuse("%s: for statement shape" % self.what)
            init, _, cond, inc, body = inner
            c = self.bx(cond) if cond.get("kind") else ("atom", "true")
            if init.get("kind"):
                p = path + [("for-init", ("atom", ""))]
                if init.get("kind") == "DeclStmt":
                    self.decl(init, p)
                else:
                    self.expr_stmt(init, p)
            self.stmt(body, path + [("for", c)])
            if inc.get("kind"):
                self.expr_stmt(inc, path + [("for-incr", c)])
        elif k == "WhileStmt":
            ks = X.kids(n)
            if len(ks) != 2:
                raise Refuse("%s: while statement shape" % self.what)
            self.stmt(ks[1], path + [("while", self.bx(ks[0]))])
        elif k == "CXXForRangeStmt":
            inner = n.get("inner", [])
            rng = None
            for c in inner:
                if c.get("kind") == "DeclStmt":
                    for v in X.kids(c):
                        if v.get("name", "").startswith("__range"):
                            rng = self.txt(X.kids(v)[0])
            loopvar = None
            for c in inner:
                if c.get("kind") == "DeclStmt":
                    for v in X.kids(c):
                        if v.get("kind") == "VarDecl" and not v.get("name", "").startswith("__"):
                            loopvar = v.get("name")
            self.stmt(inner[-1], path + [("for", ("atom", "%s : %s" % (loopvar, rng)))])
        elif k == "ReturnStmt":
            ks = X.kids(n)
            self.emit(path, "ret", "", self.txt(ks[0]) if ks else "")
        elif k in ("BreakStmt", "ContinueStmt"):
            self.emit(path, "call", "", "break" if k == "BreakStmt" else "continue")
        else:
            self.expr_stmt(n, path)


# -------------------------------------------------------------------------------------------
def definition(docs, name, what):
    """the (template pattern of the) method `name` that has a body"""
    out = []

    def walk(n):
        if n.get("kind") in ("CXXMethodDecl", "CXXConstructorDecl", "FunctionDecl") and n.get("name", "").split("<")[0] == name \
                and any(c.get("kind") == "CompoundStmt" for c in X.kids(n)):
            out.append(n)
            return
        if n.get("kind") in ("FunctionTemplateDecl", "ClassTemplateDecl", "CXXRecordDecl", "NamespaceDecl"):
            for c in X.kids(n):
                if c.get("kind") not in ("ClassTemplateSpecializationDecl",):
                    walk(c)

    for d in docs:
        walk(d)
    return out


def body(n):
    return [c for c in X.kids(n) if c.get("kind") == "CompoundStmt"][0]


def strategy_fn(key, filt, name, inline_consts=True):
    defs = definition(X.ast_dump(TU, filt), name, filt)
    if len(defs) != 1:
        raise Refuse("%s: %d definitions found" % (filt, len(defs)))
    f = Fn(filt, inline_consts)
    f.stmt(body(defs[0]), [])
    return key, f.effects


# ---- summary<T> ---------------------------------------------------------------------------
def summary_tables():
    docs = X.ast_dump(TU, "vita::summary")
    fields = None
    for d in docs:
        cands = [d] + [c for c in X.kids(d) if c.get("kind") == "CXXRecordDecl"]
        for c in cands:
            if c.get("kind") == "CXXRecordDecl" and c.get("name") == "summary" and c.get("completeDefinition"):
                fs = [m.get("name") for m in X.kids(c) if m.get("kind") == "FieldDecl"]
                if fs:
                    fields = fs
    if not fields:
        raise Refuse("summary<T>: no data members found")
    ctors = definition(docs, "summary", "summary<T>::summary")
    if len(ctors) != 1:
        raise Refuse("summary<T>::summary(): %d definitions" % len(ctors))
    f = Fn("summary<T>::summary")
    inits = []
    for c in X.kids(ctors[0]):
        if c.get("kind") == "CXXCtorInitializer":
            nm = c.get("anyInit", {}).get("name")
            if not nm:
                raise Refuse("summary<T>::summary(): base / delegating initialiser")
            ks = X.kids(c)
            v = f.txt(ks[0]) if ks else ""
            if v.startswith("(") and v.endswith(")") and ks and ks[0].get("kind") == "ParenListExpr":
                v = v[1:-1]
            m = re.fullmatch(r"[\w:<>, ]+\((\d+)\)", v)       # std::chrono::milliseconds(0) -> 0
            inits.append((nm, m.group(1) if m else v))
    if body(ctors[0]).get("inner"):
        f.stmt(body(ctors[0]), [])
        if f.effects:
            raise Refuse("summary<T>::summary() has a non-empty body")
    clears = definition(docs, "clear", "summary<T>::clear")
    if len(clears) != 1:
        raise Refuse("summary<T>::clear(): %d definitions" % len(clears))
    g = Fn("summary<T>::clear")
    g.stmt(body(clears[0]), [])
    sets = []
    for (path, kind, lhs, rhs) in g.effects:
        if path:
            raise Refuse("summary<T>::clear(): conditional statement")
        if kind == "set" and lhs == "*this" and re.fullmatch(r"summary<T>\(\)", rhs):
            sets += inits                      # every member takes its constructor value
            sets += [(x, "") for x in fields if x not in dict(inits)]   # default-initialised
        elif kind == "set" and re.fullmatch(r"[\w.]+", lhs) and lhs.split(".")[0] in fields:
            m = re.fullmatch(r"[\w:<>, ]+\((\d+)\)", rhs)
            sets.append((lhs, m.group(1) if m else rhs))
        elif kind == "call" and re.fullmatch(r"([\w.]+)\.clear\(\)", rhs) and rhs.split(".")[0] in fields:
            sets.append((rhs[:-len(".clear()")], "clear()"))
        else:
            raise Refuse("summary<T>::clear(): statement `%s %s %s` not understood" % (kind, lhs, rhs))
    sets = sorted(set(sets))
    if len({k for k, _ in sets}) != len(sets):
        raise Refuse("summary<T>::clear() assigns a member twice")
    return {"summaryFields": sorted(fields), "ctorInits": sorted(inits), "clearSets": sets,
            "clearNats": [(k, int(v)) for k, v in sets if v.isdigit()]}


# ---- evolution<T,ES>::run -----------------------------------------------------------------
INERT_CALLS = re.compile(r"^(set|reset|print_progress|log_evolution|user_stop)\(")
INERT_FIELDS = {"stats_.elapsed"}


class RunSkel:
    def __init__(self):
        self.f = Fn("evolution<T,ES>::run")
        self.res = {"shakeBody": []}
        self.has_shake = False

    def inert_effects(self, n):
        """True when the statement has no effect the model tracks"""
        g = Fn(self.f.what)
        g.inline = dict(self.f.inline)
        g.stmt(n, [])
        for (_, kind, lhs, rhs) in g.effects:
            if kind == "call" and INERT_CALLS.match(rhs):
                continue
            if kind == "set" and (lhs in INERT_FIELDS or (lhs == "stop" and INERT_CALLS.match(rhs))):
                continue
            return False
        return True

    def is_logging(self, n):
        return is_log_macro(n)

    def toks(self, stmts, where):
        out = []
        for s in stmts:
            k = s.get("kind")
            f = self.f
            if k == "NullStmt":
                continue
            if k == "DeclStmt":
                for v in X.kids(s):
                    if v.get("kind") != "VarDecl":
                        raise Refuse("evolution::run: declaration %s" % v.get("kind"))
                    init = X.kids(v)
                    t = f.txt(init[0]) if init else ""
                    if t == "es_.selection.run()":
                        out.append("select")
                        self.res["parentsVar"] = v.get("name")
                    elif t == "es_.recombination.run(%s)" % self.res.get("parentsVar", "?"):
                        out.append("recombine")
                        self.res["offVar"] = v.get("name")
                    elif "shake(" in t:
                        # `const bool shaken(shake(stats_.gen));`: a name for the call – conditions are
                        # printed with the initialiser in its place; anything else that calls the functor
                        # into a local is not understood
                        ty = v.get("type", {}).get("qualType", "")
                        if ty.replace(" ", "") != "constbool":
                            raise Refuse("evolution::run: local `%s` (%s) initialised by `%s`" % (v.get("name"), ty, t))
                        f.inline[v.get("id")] = init[0]
                    elif "es_." in t or "pop_" in t or "eva_(" in t:
                        raise Refuse("evolution::run: local `%s` initialised by `%s`" % (v.get("name"), t))
                    # timers, the `stop` flag, `before`: inert locals
                continue
            if self.is_logging(s):
                continue
            if k == "ForStmt":
                inner = s.get("inner", [])
                if len(inner) != 5 or inner[1].get("kind"):
                    raise Refuse("evolution::run: for statement shape")
                init, _, cond, inc, bd = inner
                g = Fn(f.what)
                g.inline = f.inline
                if init.get("kind") and init.get("kind") != "DeclStmt":
                    g.expr_stmt(init, [])
                    if g.effects != [((), "set", "stats_.gen", g.effects[0][3])] or not g.effects[0][3].isdigit():
                        raise Refuse("evolution::run: generation loop initialisation %r" % (g.effects,))
                    if where != "prologue":
                        raise Refuse("evolution::run: nested generation loop")
                    self.res["loopInit"] = ["setGen %s" % g.effects[0][3]]
                    self.res["genLoopCond"] = f.bx(cond)
                    h = Fn(f.what)
                    if inc.get("kind"):
                        h.expr_stmt(inc, [])
                    self.res["loopIncr"] = [self.summary_tok(e) for e in h.effects]
                    bt = self.toks(X.kids(bd), "gen")
                    if bt.count("STEPLOOP") != 1:
                        raise Refuse("evolution::run: the generation loop has %d selection loops" % bt.count("STEPLOOP"))
                    i = bt.index("STEPLOOP")
                    self.res["genHead"], self.res["genTail"] = bt[:i], bt[i + 1:]
                    self.res["prologue"] = out
                    out = []
                    where = "epilogue"
                elif init.get("kind") == "DeclStmt" and where == "gen":
                    self.res["stepLoopCond"] = f.bx(cond)
                    self.res["step"] = self.toks(X.kids(bd), "step")
                    out.append("STEPLOOP")
                else:
                    raise Refuse("evolution::run: unexpected loop")
                continue
            if k == "IfStmt":
                ks = X.kids(s)
                c = f.bx(ks[0])
                if "shake(" in lbx(c):
                    # the shake branch: ANY condition that calls the functor.  The condition is part of
                    # the skeleton (`.ifShake <BX>`): Props.lean compares it with the model's (the bare
                    # call), Shake.lean interprets it (`shake(stats_.gen) && stats_.gen` skips the
                    # re-evaluation of the best individual for a shake at generation 0)
                    if len(ks) != 2:
                        raise Refuse("evolution::run: the shake branch has an else part")
                    if self.has_shake or where != "gen":
                        raise Refuse("evolution::run: a second / misplaced shake branch")
                    self.has_shake = True
                    self.res["shakeBody"] = self.toks(X.kids(ks[1]) if ks[1].get("kind") == "CompoundStmt" else [ks[1]], "shake")
                    out.append("ifShake " + lbx(c))
                    continue
                if c == ("atom", "after_generation_callback_") and len(ks) == 2 and \
                        f.txt(ks[1]) == "after_generation_callback_(pop_, stats_)":
                    out.append("callback")
                    continue
                if self.inert_effects(s):
                    continue
                raise Refuse("evolution::run: conditional statement on `%s` not understood" % (c,))
            if k == "ReturnStmt":
                if f.txt(X.kids(s)[0]) != "stats_":
                    raise Refuse("evolution::run returns `%s`" % f.txt(X.kids(s)[0]))
                out.append("ret")
                continue
            if k == "CompoundStmt":
                out += self.toks(X.kids(s), where)
                continue
            if self.inert_effects(s):
                continue
            g = Fn(f.what)
            g.inline = f.inline
            g.expr_stmt(s, [])
            for e in g.effects:
                out.append(self.summary_tok(e))
        if where == "epilogue":
            self.res["epilogue"] = out
            return []
        return out

    def summary_tok(self, e):
        (_, kind, lhs, rhs) = e
        if kind == "call" and rhs == "stats_.clear()":
            return "clear"
        if kind == "call" and rhs == "es_.init()":
            return "esInit"
        if kind == "call" and rhs == "es_.after_generation()":
            return "esAfterGen"
        if kind == "call" and rhs == "es_.replacement.run(%s, %s, &stats_)" % (self.res.get("parentsVar"), self.res.get("offVar")):
            return "replace"
        m = re.fullmatch(r"pop_\[\{(\d+), (\d+)\}\]", rhs)
        if kind == "set" and lhs == "stats_.best.solution" and m:
            return "bestSol %s %s" % (m.group(1), m.group(2))
        if kind == "set" and lhs == "stats_.best.score.fitness" and rhs == "eva_(stats_.best.solution)":
            return "bestEval"
        if kind == "set" and lhs == "stats_.az" and rhs == "get_stats()":
            return "azStats"
        if kind == "set" and lhs == "stats_.gen" and rhs == "(stats_.gen + 1)":
            return "incGen"
        if kind == "set" and lhs == "stats_.gen" and rhs.isdigit():
            return "setGen " + rhs
        raise Refuse("evolution::run: statement `%s %s %s` not understood" % (kind, lhs, rhs))


def run_skeleton():
    docs = X.ast_dump(TU, "vita::evolution::run")
    defs = definition(docs, "run", "evolution::run")
    main = [d for d in defs if len([p for p in X.kids(d) if p.get("kind") == "ParmVarDecl"]) == 2]
    short = [d for d in defs if len([p for p in X.kids(d) if p.get("kind") == "ParmVarDecl"]) == 1]
    if len(main) != 1 or len(short) != 1:
        raise Refuse("evolution::run: expected run(unsigned, S) and run(unsigned), found %d + %d" % (len(main), len(short)))
    r = RunSkel()
    rest = r.toks(X.kids(body(main[0])), "prologue")
    if rest or "loopInit" not in r.res or "step" not in r.res:
        raise Refuse("evolution::run: no generation loop / selection loop found")
    # run(unsigned): `return run(run_count, [](unsigned) { return false; });`
    lam = X.find_all(short[0], lambda x: x.get("kind") == "LambdaExpr")
    rets = X.find_all(lam[0], lambda x: x.get("kind") == "ReturnStmt") if len(lam) == 1 else []
    vals = {Fn("lambda").txt(X.kids(x)[0]) for x in rets if X.kids(x)}
    r.res["noShakeDefault"] = vals == {"false"}
    for k in ("parentsVar", "offVar"):
        r.res.pop(k, None)
    return r.res


def extract():
    res = {}
    with cf.ThreadPoolExecutor(4) as ex:
        futs = [ex.submit(strategy_fn, *t) for t in STRATEGY_FNS] + [ex.submit(strategy_fn, *t, False) for t in TUNE_FNS]
        fs, fr = ex.submit(summary_tables), ex.submit(run_skeleton)
        res.update(fs.result())
        res["run"] = fr.result()
        res["fns"] = [f.result() for f in futs]
    return res


# ---- rendering ----------------------------------------------------------------------------
def lstr(s):
    return '"' + s.replace("\\", "\\\\").replace('"', '\\"') + '"'


def lbx(b):
    if b[0] == "cmp":
        return "(.cmp .%s %s %s)" % (b[1], lstr(b[2]), lstr(b[3]))
    if b[0] == "atom":
        return "(.atom %s)" % lstr(b[1])
    if b[0] == "not":
        return "(.not %s)" % lbx(b[1])
    return "(.%s %s %s)" % (b[0], lbx(b[1]), lbx(b[2]))


def ltoks(ts):
    return "[" + ", ".join("." + t for t in ts) + "]"


def render(res):
    L = ["/- GENERATED by tools/translate_evolution.py from the clang AST of evolution.tcc, evolution_summary.{h,tcc},",
         "   evolution_selection.tcc, evolution_replacement.tcc, evolution_strategy.tcc – do not edit. -/",
         "import Vita.C06.EvoSyntax",
         "namespace Vita.C06.GenEvo", ""]
    L.append("def summaryFields : List String := [%s]" % ", ".join(lstr(x) for x in res["summaryFields"]))
    L.append("")
    for k in ("ctorInits", "clearSets"):
        L.append("def %s : List (String × String) := [%s]" % (k, ", ".join("(%s, %s)" % (lstr(a), lstr(b)) for a, b in res[k])))
        L.append("")
    L.append("def clearNats : List (String × Nat) := [%s]" % ", ".join("(%s, %d)" % (lstr(a), b) for a, b in res["clearNats"]))
    L.append("")
    r = res["run"]
    L.append("def skel : Skel where")
    for k in ("prologue", "loopInit", "genHead", "step", "genTail", "loopIncr", "shakeBody", "epilogue"):
        L.append("  %s := %s" % (k.ljust(9), ltoks(r[k])))
    L.append("")
    for k in ("genLoopCond", "stepLoopCond"):
        L.append("def %s : BX := %s" % (k, lbx(r[k])))
        L.append("")
    L.append("def noShakeDefault : Bool := %s" % ("true" if r["noShakeDefault"] else "false"))
    L.append("")
    for key, effs in res["fns"]:
        L.append("def %s : List GE := [" % key)
        rows = []
        for (path, kind, lhs, rhs) in effs:
            p = "[" + ", ".join("(%s, %s)" % (lstr(t), lbx(c)) for t, c in path) + "]"
            rows.append("  ⟨%s, %s, %s, %s⟩" % (p, lstr(kind), lstr(lhs), lstr(rhs)))
        L.append(",\n".join(rows) + "]")
        L.append("")
    L.append("end Vita.C06.GenEvo")
    return "\n".join(L) + "\n"


def stats(res):
    return {"skeleton_tokens": sum(len(v) for v in res["run"].values() if isinstance(v, list)),
            "strategy_effects": sum(len(e) for _, e in res["fns"]),
            "clear_resets": len(res["clearSets"])}


def emit(path):
    res = extract()
    txt = render(res)
    old = open(path).read() if os.path.exists(path) else None
    if old != txt:
        with open(path, "w") as f:
            f.write(txt)
    return res, old is not None and old != txt


if __name__ == "__main__":
    sys.stdout.write(render(extract()))
