#!/usr/bin/env python3
"""Extract the *derivation table* of the relational operators of `basic_fitness_t<double>`
(fitness.tcc) and of `model_measurements::operator>=` (model_measurements.h) from the clang AST
of /repo's current working tree and emit it as Lean definitions -> lean/Vita/C18/GenOps.lean.

Only syntax is translated: which operator calls which library algorithm / which other
operator, with which argument order, under which boolean connectives.  The meaning of the
library algorithms (`lexLt`, `equal4`, `equal3`, `dominating`, scalar comparisons) is the
hand-written model in Vita/C18/Model.lean.  Any shape not listed below is refused."""
import os
import sys

sys.path.insert(0, os.path.dirname(os.path.abspath(__file__)))
from cxx2lean import Refuse, ast_dump, kids, qtype, peel, callee_name

OPS = {"operator<": "opLt", "operator==": "opEq", "operator>": "opGt",
       "operator>=": "opGe", "operator<=": "opLe", "operator!=": "opNe"}
SCALAR = {"<": "slt", ">": "sgt", "<=": "sle", ">=": "sge", "==": "seq", "!=": "sne"}
NATCMP = {"<": "<", ">": ">", "<=": "≤", ">=": "≥", "==": "=", "!=": "≠"}
FIT = "basic_fitness_t<double>"


def unwrap(n):
    """Strip value-preserving wrappers (also lvalue-to-rvalue loads)."""
    while True:
        m = peel(n)
        if m.get("kind") == "ImplicitCastExpr" and m.get("castKind") in ("LValueToRValue", "NoOp") \
                and len(kids(m)) == 1:
            m = kids(m)[0]
        if m is n:
            return n
        n = m


class Tr:
    def __init__(self, params, kind):
        self.p = params          # C++ parameter name -> "lhs" / "rhs"
        self.kind = kind         # "fitness" | "mm"
        self.deps = set()
        self.shape = []          # human readable derivation, for the table

    # -- operands ------------------------------------------------------------
    def vec(self, n):
        """A fitness-vector operand: a parameter (fitness operators) or `<param>.fitness`."""
        n = unwrap(n)
        if n.get("kind") == "DeclRefExpr" and self.kind == "fitness":
            name = n.get("referencedDecl", {}).get("name")
            if name in self.p and FIT in qtype(n):
                return self.p[name]
        if n.get("kind") == "MemberExpr" and self.kind == "mm" and n.get("name") == "fitness":
            b = unwrap(kids(n)[0])
            name = b.get("referencedDecl", {}).get("name")
            if b.get("kind") == "DeclRefExpr" and name in self.p:
                return self.p[name] + ".fitness"
        raise Refuse("operand is not a fitness parameter: %s" % n.get("kind"))

    def scalar(self, n):
        n = unwrap(n)
        if n.get("kind") == "MemberExpr" and self.kind == "mm" and n.get("name") == "accuracy" \
                and qtype(n) in ("double", "const double"):
            b = unwrap(kids(n)[0])
            name = b.get("referencedDecl", {}).get("name")
            if b.get("kind") == "DeclRefExpr" and name in self.p:
                return self.p[name] + ".accuracy"
        raise Refuse("unknown scalar operand %s" % n.get("kind"))

    def iter_of(self, n):
        """`std::begin(x)`, `std::end(x)`, `x.begin()`, `x.end()`, `x.cbegin()`, `x.cend()`
        -> ("begin"|"end", operand)."""
        n = unwrap(n)
        if n.get("kind") == "CallExpr" and len(kids(n)) == 2:
            nm = callee_name(n)
            if nm in ("begin", "end", "cbegin", "cend"):
                return nm.lstrip("c"), self.vec(kids(n)[1])
        if n.get("kind") == "CXXMemberCallExpr" and len(kids(n)) == 1:
            m = unwrap(kids(n)[0])
            if m.get("kind") == "MemberExpr" and m.get("name") in ("begin", "end", "cbegin", "cend"):
                return m["name"].lstrip("c"), self.vec(kids(m)[0])
        raise Refuse("iterator argument of unknown shape: %s" % n.get("kind"))

    def size_of(self, n):
        n = unwrap(n)
        if n.get("kind") == "CXXMemberCallExpr" and len(kids(n)) == 1:
            m = unwrap(kids(n)[0])
            if m.get("kind") == "MemberExpr" and m.get("name") == "size":
                return self.vec(kids(m)[0]) + ".length"
        return None

    # -- boolean expressions -------------------------------------------------
    def expr(self, n):
        n = unwrap(n)
        k = n.get("kind")
        if k == "CXXBoolLiteralExpr":
            return "true" if n.get("value") else "false"
        if k == "UnaryOperator" and n.get("opcode") == "!":
            return "(!%s)" % self.expr(kids(n)[0])
        if k == "BinaryOperator":
            op = n.get("opcode")
            a, b = kids(n)
            if op in ("&&", "||"):
                return "(%s %s %s)" % (self.expr(a), op, self.expr(b))
            if op in SCALAR:
                sa, sb = self.size_of(a), self.size_of(b)
                if sa and sb:
                    return "(decide (%s %s %s))" % (sa, NATCMP[op], sb)
                if qtype(unwrap(a)) in ("double", "const double") and qtype(unwrap(b)) in ("double", "const double"):
                    return "(%s key %s %s)" % (SCALAR[op], self.scalar(a), self.scalar(b))
            raise Refuse("binary operator %s on %s" % (op, qtype(unwrap(a))))
        if k == "ConditionalOperator":
            c, t, e = kids(n)
            return "(if %s then %s else %s)" % (self.expr(c), self.expr(t), self.expr(e))
        if k in ("CallExpr", "CXXOperatorCallExpr"):
            name = callee_name(n)
            f = unwrap(kids(n)[0])
            ftype = qtype(f)
            args = kids(n)[1:]
            if name in ("lexicographical_compare", "equal"):
                if "double *" not in ftype or ftype.count("const double *") != len(args):
                    raise Refuse("%s over %s" % (name, ftype))
                its = [self.iter_of(a) for a in args]
                if name == "lexicographical_compare" and len(its) == 4 and \
                        [i[0] for i in its] == ["begin", "end", "begin", "end"] and \
                        its[0][1] == its[1][1] and its[2][1] == its[3][1]:
                    self.shape.append("std::lexicographical_compare(%s, %s)" % (its[0][1], its[2][1]))
                    return "(lexLt key %s %s)" % (its[0][1], its[2][1])
                if name == "equal" and len(its) == 4 and \
                        [i[0] for i in its] == ["begin", "end", "begin", "end"] and \
                        its[0][1] == its[1][1] and its[2][1] == its[3][1]:
                    self.shape.append("std::equal[4 iterators](%s, %s)" % (its[0][1], its[2][1]))
                    return "(equal4 key %s %s)" % (its[0][1], its[2][1])
                if name == "equal" and len(its) == 3 and [i[0] for i in its] == ["begin", "end", "begin"] \
                        and its[0][1] == its[1][1]:
                    self.shape.append("std::equal[3 iterators](%s, %s)" % (its[0][1], its[2][1]))
                    return "(equal3 key %s %s)" % (its[0][1], its[2][1])
                raise Refuse("%s with iterator arguments %s" % (name, its))
            if name in OPS and len(args) == 2 and FIT in ftype:
                a, b = self.vec(args[0]), self.vec(args[1])
                self.deps.add(name)
                self.shape.append("%s(%s, %s)" % (name, a, b))
                return "(%s key %s %s)" % (OPS[name], a, b)
            if name == "dominating" and len(args) == 2 and FIT in ftype:
                a, b = self.vec(args[0]), self.vec(args[1])
                self.shape.append("dominating(%s, %s)" % (a, b))
                return "(dominating key %s %s)" % (a, b)
            raise Refuse("call to %r of type %s" % (name, ftype))
        raise Refuse("expression node %s" % k)

    # -- statements ----------------------------------------------------------
    def body(self, stmts):
        if not stmts:
            raise Refuse("control reaches the end of a non-void function")
        s, rest = stmts[0], stmts[1:]
        k = s.get("kind")
        if k == "CompoundStmt":
            return self.body(kids(s) + rest)
        if k == "NullStmt":
            return self.body(rest)
        if k == "ReturnStmt":
            return self.expr(kids(s)[0])
        if k == "IfStmt":
            if s.get("hasInit") or s.get("hasVar"):
                raise Refuse("if with initialiser")
            ks = kids(s)
            c = self.expr(ks[0])
            t = self.body([ks[1]])
            e = self.body(([ks[2]] if s.get("hasElse") else []) + rest)
            return "(if %s then %s else %s)" % (c, t, e)
        raise Refuse("statement %s" % k)


def specialisation(tmpl):
    """The `double` instantiation (with body) of a function template."""
    for f in kids(tmpl):
        if f.get("kind") != "FunctionDecl":
            continue
        inner = f.get("inner", [])
        targs = [c for c in inner if c.get("kind") == "TemplateArgument"]
        if targs and targs[0].get("type", {}).get("qualType") == "double" and \
                any(c.get("kind") == "CompoundStmt" for c in inner):
            return f
    return None


def params_of(f, want):
    ps = [c for c in kids(f) if c.get("kind") == "ParmVarDecl"]
    if len(ps) != 2 or any(want not in qtype(p) for p in ps):
        return None
    return {ps[0].get("name"): "lhs", ps[1].get("name"): "rhs"}


def translate():
    docs = ast_dump("fitness_tu.cc", "vita::operator")
    found = {}
    mm = None
    for d in docs:
        if d.get("kind") == "FunctionTemplateDecl" and d.get("name") in OPS:
            f = specialisation(d)
            if f is None:
                continue
            ps = params_of(f, "basic_fitness_t<double>")
            if ps is None:
                continue          # the small_vector operators
            if d["name"] in found:
                raise Refuse("two definitions of %s for basic_fitness_t" % d["name"])
            found[d["name"]] = (f, ps)
        if d.get("kind") == "FunctionDecl" and d.get("name") == "operator>=":
            ps = params_of(d, "model_measurements")
            if ps is not None and any(c.get("kind") == "CompoundStmt" for c in kids(d)):
                if mm is not None:
                    raise Refuse("two definitions of model_measurements operator>=")
                mm = (d, ps)
    missing = [o for o in OPS if o not in found]
    if missing:
        raise Refuse("no free-function template definition found for %s" % missing)
    if mm is None:
        raise Refuse("operator>=(model_measurements, model_measurements) not found")
    defs = {}
    for name, (f, ps) in found.items():
        t = Tr(ps, "fitness")
        body = [c for c in kids(f) if c.get("kind") == "CompoundStmt"][0]
        e = t.body([body])
        defs[name] = (e, t.deps, t.shape)
    # dependency order; a cycle would be an infinite recursion in C++
    order, state = [], {}

    def visit(n, path):
        if state.get(n) == 2:
            return
        if state.get(n) == 1:
            raise Refuse("recursive derivation: %s" % " -> ".join(path + [n]))
        state[n] = 1
        for dname in sorted(defs[n][1]):
            visit(dname, path + [n])
        state[n] = 2
        order.append(n)

    for n in OPS:
        visit(n, [])
    t = Tr(mm[1], "mm")
    body = [c for c in kids(mm[0]) if c.get("kind") == "CompoundStmt"][0]
    mme = t.body([body])
    return order, defs, (mme, t.shape)


def emit(path):
    order, defs, (mme, mmshape) = translate()
    L = ["-- GENERATED by tools/translate_fitness_ops.py from src/kernel/fitness.tcc and",
         "-- src/kernel/model_measurements.h (regenerated on every check run; do not edit)",
         "import Vita.C18.Model", "namespace Vita.C18.Gen", "open Vita.C18", ""]
    for n in order:
        e, deps, shape = defs[n]
        L.append("/-- `%s(lhs, rhs)`, built from: %s -/" % (n, " ; ".join(shape) if shape else "constants"))
        L.append("def %s {α : Type} (key : α → Int) (lhs rhs : List α) : Bool :=\n  %s\n" % (OPS[n], e))
    L.append("/-- `operator>=(model_measurements lhs, rhs)`, built from: %s -/" % " ; ".join(mmshape))
    L.append("def mmGe {α : Type} (key : α → Int) (lhs rhs : MM α) : Bool :=\n  %s\n" % mme)
    table = [(n, defs[n][0]) for n in order] + [("mm::operator>=", mme)]
    L.append("def table : List (String × String) :=\n  [" +
             ",\n   ".join('("%s", "%s")' % (a, b) for a, b in table) + "]")
    L.append("\nend Vita.C18.Gen\n")
    txt = "\n".join(L)
    old = open(path).read() if os.path.exists(path) else None
    if old != txt:
        os.makedirs(os.path.dirname(path), exist_ok=True)
        with open(path, "w") as f:
            f.write(txt)
    return table, old is not None and old != txt


if __name__ == "__main__":
    here = os.path.dirname(os.path.dirname(os.path.abspath(__file__)))
    try:
        table, changed = emit(os.path.join(here, "lean", "Vita", "C18", "GenOps.lean"))
        for a, b in table:
            print("%-16s := %s" % (a, b))
        print("(changed)" if changed else "(unchanged)")
    except Refuse as e:
        print("REFUSE:", e)
        sys.exit(2)
