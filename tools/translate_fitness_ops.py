#!/usr/bin/env python3
"""C18 translator: the BODIES of the public surface of `basic_fitness_t<double>` (fitness.tcc),
of the scalar helpers it calls (utility.h: issmall, isnonnegative, round_to, almost_equal) and of
`model_measurements::operator>=` (model_measurements.h), from the clang AST of the repo's *current*
working tree, as Lean terms over the loop language of lean/Vita/C18/Loop.lean
-> lean/Vita/C18/GenOps.lean.

Only syntax is translated.  What is translated:
  statements   compound, `return e;`, `if/else`, declarations of locals (bool, std::size_t, double,
               an empty `values_t`), assignments and compound assignments to locals / by-value
               parameters (rendered as shadowing `let`s), `for (std::size_t i(0); i < n; ++i) body`
               (-> `forIdx n (fun i <assigned local> => body)`; the body may `return`), range-`for`
               over `auto &` whose body assigns only the element (-> `mapO`), `v[i] op= e` /
               `v[i] = e` (-> `rd` / `wr`), `ret.reserve(n)` (no effect on the value),
               `ret.insert(end(ret), begin(x), end(x))` (-> `ret ++ x`), `o << 'c'`,
               `std::copy(begin(f), end(f), infix_iterator<T>(o, sep))`;
  expressions  bool / size_t / double arithmetic and comparisons, `&&`, `||`, `!`, `?:` (short-circuit
               is kept when the right operand can fault), `v[i]`, `v.size()`, `x.fitness`, `x.accuracy`,
               calls of the other translated functions (-> `call`), of `std::lexicographical_compare`,
               `std::equal` (3 / 4 iterators), `std::all_of`, `std::any_of`, `std::inner_product`,
               `std::memcmp(begin(a), begin(b), n * sizeof(T)) == 0`, `std::min/max`,
               `std::abs/fabs/sqrt/round/isnan/isfinite`, `numeric_limits<double>::epsilon()`, lambdas
               and function pointers as predicates.
Anything else raises `Refuse` (the check then fails loudly): a translator never skips code.
The meaning of the combinators and of the library algorithms is in Loop.lean (defined once)."""
import os
import struct
import sys

sys.path.insert(0, os.path.dirname(os.path.abspath(__file__)))
from cxx2lean import Refuse, ast_dump, kids, qtype, callee_name  # noqa: E402

FIT = "basic_fitness_t<double>"
WRAP = {"ExprWithCleanups", "MaterializeTemporaryExpr", "CXXBindTemporaryExpr", "ParenExpr", "ConstantExpr"}
PASS_CASTS = {"NoOp", "LValueToRValue", "FunctionToPointerDecay", "ConstructorConversion", "IntegralCast",
              "UserDefinedConversion", "ArrayToPointerDecay", "BitCast"}

# (C++ name, parameter kinds) -> Lean name; canonical emission order
FUNCS = [
    (("issmall", ("dbl",)), "issmallS"),
    (("isnonnegative", ("dbl",)), "isnonnegativeS"),
    (("round_to", ("dbl",)), "roundToS"),
    (("almost_equal", ("dbl", "dbl", "dbl")), "almostEqualS"),
    (("operator==", ("vec", "vec")), "opEq"),
    (("operator!=", ("vec", "vec")), "opNe"),
    (("operator<", ("vec", "vec")), "opLt"),
    (("operator>", ("vec", "vec")), "opGt"),
    (("operator>=", ("vec", "vec")), "opGe"),
    (("operator<=", ("vec", "vec")), "opLe"),
    (("dominating", ("vec", "vec")), "dominating"),
    (("almost_equal", ("vec", "vec", "dbl")), "almostEqual"),
    (("isfinite", ("vec",)), "isfinite"),
    (("isnan", ("vec",)), "isnan"),
    (("issmall", ("vec",)), "issmall"),
    (("isnonnegative", ("vec",)), "isnonnegative"),
    (("operator+=", ("self", "vec")), "addAssign"),
    (("operator-=", ("self", "vec")), "subAssign"),
    (("operator*=", ("self", "vec")), "mulAssign"),
    (("operator+", ("vec", "vec")), "opAdd"),
    (("operator-", ("vec", "vec")), "opSub"),
    (("operator*", ("vec", "vec")), "opMul"),
    (("operator/", ("vec", "dbl")), "opDivS"),
    (("operator*", ("vec", "dbl")), "opMulS"),
    (("abs", ("vec",)), "abs"),
    (("sqrt", ("vec",)), "sqrt"),
    (("round_to", ("vec",)), "roundTo"),
    (("distance", ("vec", "vec")), "distance"),
    (("combine", ("vec", "vec")), "combine"),
    (("operator<<", ("ostream", "vec")), "showFit"),
    (("operator>=", ("mm", "mm")), "mmGe"),
]
LEAN = dict(FUNCS)
LEAN_TY = {"bool": "Bool", "dbl": "F", "vec": "List F", "str": "String", "nat": "Nat"}
ARITH = {"+": "add", "-": "sub", "*": "mul", "/": "div"}
DCMP = {"<": "lt", ">": "gt", "<=": "le", ">=": "ge", "==": "eq", "!=": "ne"}
NCMP = {"<": "<", ">": ">", "<=": "≤", ">=": "≥", "==": "=", "!=": "≠"}
STD1 = {"abs": "abs", "fabs": "abs", "sqrt": "sqrt", "round": "round"}
STDP = {"isnan": "isnan", "isfinite": "isfinite"}


def dbits(x):
    return "0x%016X" % struct.unpack("<Q", struct.pack("<d", x))[0]


def kind_of(t):
    """C++ type text -> kind"""
    t = t.replace("const ", "").replace(" const", "").replace("&", "").replace("typename ", "").strip()
    t = t.replace("vita::", "")
    if t in ("basic_fitness_t<double>", "basic_fitness_t<double>::values_t", "small_vector<double, 1>",
             "fitness_t"):
        return "vec"
    if t in ("double", "small_vector<double, 1>::value_type", "basic_fitness_t<double>::value_type"):
        return "dbl"
    if t in ("bool",):
        return "bool"
    if t in ("unsigned long", "std::size_t", "size_t", "small_vector::size_type", "unsigned long long"):
        return "nat"
    if t == "model_measurements":
        return "mm"
    if t in ("std::ostream", "basic_ostream<char, std::char_traits<char>>", "std::basic_ostream<char>"):
        return "ostream"
    if t == "int":
        return "int"
    return None


def split_params(ftype):
    """'R (A, B) const' -> (R, [A, B])"""
    i = ftype.index("(")
    depth, j = 0, i
    for j in range(i, len(ftype)):
        if ftype[j] in "(<":
            depth += 1
        elif ftype[j] in ")>":
            depth -= 1
            if depth == 0:
                break
    inner = ftype[i + 1:j]
    ps, d, cur = [], 0, ""
    for ch in inner:
        if ch in "(<":
            d += 1
        elif ch in ")>":
            d -= 1
        if ch == "," and d == 0:
            ps.append(cur.strip())
            cur = ""
        else:
            cur += ch
    if cur.strip():
        ps.append(cur.strip())
    return ftype[:i].strip(), ps


def ctype(n):
    return kind_of(qtype(n)) or kind_of(n.get("type", {}).get("qualType", ""))


def strip(n):
    """peel value-preserving wrappers and casts"""
    while True:
        kd = n.get("kind")
        ks = kids(n)
        if kd in WRAP and len(ks) == 1:
            n = ks[0]
        elif kd in ("ImplicitCastExpr", "CXXStaticCastExpr", "CXXFunctionalCastExpr") and \
                n.get("castKind") in PASS_CASTS and len(ks) == 1:
            n = ks[0]
        elif kd == "CXXConstructExpr" and len(ks) == 1 and ctype(n) == "vec" and ctype(ks[0]) == "vec":
            n = ks[0]          # copy / move / converting construction of a vector from a vector
        else:
            return n


def walk(n):
    yield n
    for c in n.get("inner", []):
        if isinstance(c, dict):
            yield from walk(c)


def is_macro(n):
    r = n.get("range", {})
    return any(k in r.get(e, {}) for e in ("begin", "end") for k in ("expansionLoc", "spellingLoc"))


class Tr:
    """one function body"""

    def __init__(self, lean_name):
        self.me = lean_name
        self.vars = {}        # C++ name -> (lean text, kind)
        self.deps = set()
        self.n = 0
        self.mode = "opt"     # "opt": Option-valued body; "step": inside a forIdx body
        self.shape = []

    def fresh(self):
        self.n += 1
        return "r%d" % (self.n - 1)

    def ret(self, t):
        return ("some %s" if self.mode == "opt" else ".ret %s") % t

    # ---- classification -------------------------------------------------
    def callee_key(self, call):
        f = strip(kids(call)[0])
        name = f.get("referencedDecl", {}).get("name") if f.get("kind") == "DeclRefExpr" else \
            (f.get("name") if f.get("kind") == "MemberExpr" else None)
        ftype = f.get("type", {}).get("qualType", "")
        if name is None or "(" not in ftype:
            return name, None, ftype
        try:
            _, ps = split_params(ftype)
        except ValueError:
            return name, None, ftype
        return name, tuple(kind_of(p) for p in ps), ftype

    def effectful(self, n):
        """can evaluating `n` fault (read a component, call a translated function or an algorithm
        with a range contract)?"""
        for m in walk(n):
            kd = m.get("kind")
            if kd in ("CXXOperatorCallExpr", "CallExpr", "CXXMemberCallExpr"):
                name, ps, _ = self.callee_key(m)
                if name == "operator[]":
                    return True
                if ps is not None and (name, ps) in LEAN:
                    return True
                if kd == "CXXOperatorCallExpr" and name in ("operator+=", "operator-=", "operator*="):
                    return True
                if name in ("memcmp", "all_of", "any_of", "inner_product"):
                    return True
                if name == "equal" and len(kids(m)) == 4:
                    return True
        return False

    # ---- operands ---------------------------------------------------------
    def vec(self, n):
        n = strip(n)
        kd = n.get("kind")
        if kd == "DeclRefExpr":
            name = n.get("referencedDecl", {}).get("name")
            if name in self.vars and self.vars[name][1] == "vec":
                return self.vars[name][0]
        if kd == "CXXThisExpr" and "self" in self.vars:
            return "self"
        if kd == "UnaryOperator" and n.get("opcode") == "*" and strip(kids(n)[0]).get("kind") == "CXXThisExpr" \
                and "self" in self.vars:
            return "self"
        if kd == "MemberExpr" and n.get("name") == "fitness":
            b = strip(kids(n)[0])
            name = b.get("referencedDecl", {}).get("name")
            if b.get("kind") == "DeclRefExpr" and name in self.vars and self.vars[name][1] == "mm":
                return "%s.fitness" % self.vars[name][0]
        raise Refuse("%s: operand is not a fitness vector: %s %s" % (self.me, kd, qtype(n)))

    def iter_of(self, n):
        """`std::begin(x)`, `x.begin()`, … -> ("begin"|"end", vector)"""
        n = strip(n)
        if n.get("kind") == "CallExpr" and len(kids(n)) == 2:
            nm = callee_name(n)
            if nm in ("begin", "end", "cbegin", "cend"):
                return nm.lstrip("c"), self.vec(kids(n)[1])
        if n.get("kind") == "CXXMemberCallExpr" and len(kids(n)) == 1:
            m = strip(kids(n)[0])
            if m.get("kind") == "MemberExpr" and m.get("name") in ("begin", "end", "cbegin", "cend"):
                return m["name"].lstrip("c"), self.vec(kids(m)[0])
        raise Refuse("%s: iterator argument of unknown shape: %s" % (self.me, n.get("kind")))

    def whole_range(self, a, b):
        (ka, va), (kb, vb) = self.iter_of(a), self.iter_of(b)
        if (ka, kb) != ("begin", "end") or va != vb:
            raise Refuse("%s: range is not begin(x), end(x)" % self.me)
        return va

    def element_ref(self, n):
        """`v[i]` as an lvalue / a read: (vector, index node) or None"""
        n = strip(n)
        if n.get("kind") == "CXXOperatorCallExpr" and callee_name(n) == "operator[]" and len(kids(n)) == 3:
            return self.vec(kids(n)[1]), kids(n)[2]
        if n.get("kind") == "CXXMemberCallExpr" and len(kids(n)) == 2:
            m = strip(kids(n)[0])
            if m.get("kind") == "MemberExpr" and m.get("name") == "operator[]":
                return self.vec(kids(m)[0]), kids(n)[1]
        return None

    def predicate(self, n):
        """a unary predicate / binary operation given as a function pointer or a lambda -> Lean `fun`"""
        n = strip(n)
        if n.get("kind") == "DeclRefExpr":
            name = n.get("referencedDecl", {}).get("name")
            ftype = n.get("type", {}).get("qualType", "")
            if ftype.startswith("bool (double)"):
                if name in STDP:
                    return "(fun x => some (o.%s x))" % STDP[name]
                if (name, ("dbl",)) in LEAN:
                    self.deps.add(LEAN[(name, ("dbl",))])
                    return "(fun x => %s c o x)" % LEAN[(name, ("dbl",))]
            raise Refuse("%s: function pointer to %r of type %r" % (self.me, name, ftype))
        if n.get("kind") == "LambdaExpr":
            rec = [c for c in kids(n) if c.get("kind") == "CXXRecordDecl"]
            ops = [m for m in kids(rec[0]) if m.get("kind") == "CXXMethodDecl" and m.get("name") == "operator()"] \
                if rec else []
            if len(ops) != 1 or any(c.get("kind") == "FieldDecl" for c in kids(rec[0])):
                raise Refuse("%s: lambda with captures / without a single call operator" % self.me)
            op = ops[0]
            ps = [c for c in kids(op) if c.get("kind") == "ParmVarDecl"]
            body = [c for c in kids(op) if c.get("kind") == "CompoundStmt"]
            if not body or any(ctype(p) != "dbl" for p in ps):
                raise Refuse("%s: lambda parameters must be doubles" % self.me)
            sub = Tr(self.me)
            sub.n = self.n
            for p in ps:
                sub.vars[p["name"]] = (p["name"], "dbl")
            txt = sub.stmts([body[0]], None)
            self.n = sub.n
            self.deps |= sub.deps
            return "(fun %s =>\n%s)" % (" ".join(p["name"] for p in ps), txt)
        raise Refuse("%s: predicate of unknown shape %s" % (self.me, n.get("kind")))

    # ---- expressions (CPS: k(text, kind) -> text of the rest) ---------------
    def seq(self, nodes, k):
        def go(i, acc):
            if i == len(nodes):
                return k(acc)
            return self.ex(nodes[i], lambda t, ty: go(i + 1, acc + [(t, ty)]))
        return go(0, [])

    def ex(self, n, k):
        kd = n.get("kind")
        ks = kids(n)
        if kd in WRAP and len(ks) == 1:
            return self.ex(ks[0], k)
        if kd in ("ImplicitCastExpr", "CXXStaticCastExpr", "CXXFunctionalCastExpr", "CStyleCastExpr"):
            ck = n.get("castKind")
            if ck in PASS_CASTS:
                return self.ex(ks[-1], k)
            if ck == "IntegralToBoolean":
                def tob(t, ty):
                    if ty != "nat":
                        raise Refuse("%s: integral-to-boolean conversion from %s" % (self.me, ty))
                    return k("(decide (%s ≠ 0))" % t, "bool")
                return self.ex(ks[-1], tob)
            if ck == "IntegralToFloating":
                lit = strip(ks[-1])
                if lit.get("kind") == "IntegerLiteral":
                    return k("(o.lit %s)" % dbits(float(int(lit["value"]))), "dbl")
                raise Refuse("%s: integral-to-floating conversion of a non-literal" % self.me)
            raise Refuse("%s: cast kind %s" % (self.me, ck))
        if kd == "CXXConstructExpr" and len(ks) == 1 and ctype(n) == "vec":
            return self.ex(ks[0], k)
        if kd == "CXXBoolLiteralExpr":
            return k("true" if n["value"] else "false", "bool")
        if kd == "IntegerLiteral":
            return k(str(int(n["value"])), "nat")
        if kd == "FloatingLiteral":
            return k("(o.lit %s)" % dbits(float(n["value"])), "dbl")
        if kd == "DeclRefExpr":
            name = n.get("referencedDecl", {}).get("name")
            if name in self.vars:
                return k(*self.vars[name])
            raise Refuse("%s: reference to unknown variable %r" % (self.me, name))
        if kd == "CXXThisExpr" or (kd == "UnaryOperator" and n.get("opcode") == "*" and ctype(n) == "vec"):
            return k(self.vec(n), "vec")
        if kd == "MemberExpr":
            b = strip(ks[0])
            bname = b.get("referencedDecl", {}).get("name")
            if b.get("kind") == "DeclRefExpr" and bname in self.vars and self.vars[bname][1] == "mm":
                if n.get("name") == "fitness":
                    return k("%s.fitness" % self.vars[bname][0], "vec")
                if n.get("name") == "accuracy" and ctype(n) == "dbl":
                    return k("%s.accuracy" % self.vars[bname][0], "dbl")
            raise Refuse("%s: member access .%s" % (self.me, n.get("name")))
        if kd == "UnaryOperator":
            op = n.get("opcode")
            if op == "!":
                return self.ex(ks[0], lambda t, ty: k("(!%s)" % t, "bool"))
            if op == "+" and ctype(n) == "dbl":
                return self.ex(ks[0], k)
            raise Refuse("%s: unary operator %s" % (self.me, op))
        if kd == "BinaryOperator":
            return self.binop(n, k)
        if kd == "ConditionalOperator":
            if any(self.effectful(x) for x in ks[1:]):
                return self.ex(ks[0], lambda t, ty: "if %s then\n%s\nelse\n%s" % (
                    t, self.ex(ks[1], k), self.ex(ks[2], k)))
            return self.seq(ks, lambda a: k("(if %s then %s else %s)" % (a[0][0], a[1][0], a[2][0]), a[1][1]))
        if kd in ("CallExpr", "CXXOperatorCallExpr", "CXXMemberCallExpr"):
            return self.call(n, k)
        raise Refuse("%s: expression node %s" % (self.me, kd))

    def binop(self, n, k):
        op = n.get("opcode")
        a, b = kids(n)
        if op in ("&&", "||"):
            if self.effectful(b):
                def sc(t, ty):
                    if op == "&&":
                        return "if %s then\n%s\nelse\n%s" % (t, self.ex(b, k), k("false", "bool"))
                    return "if %s then\n%s\nelse\n%s" % (t, k("true", "bool"), self.ex(b, k))
                return self.ex(a, sc)
            return self.seq([a, b], lambda r: k("(%s %s %s)" % (r[0][0], op, r[1][0]), "bool"))
        # `std::memcmp(begin(a), begin(b), n * sizeof(T)) == 0`
        if op in ("==", "!=") and self.is_memcmp(strip(a)) and self.is_zero(b):
            return self.memcmp(strip(a), lambda t, ty: k(t if op == "==" else "(!%s)" % t, "bool"))
        if op in ("==", "!=") and self.is_memcmp(strip(b)) and self.is_zero(a):
            return self.memcmp(strip(b), lambda t, ty: k(t if op == "==" else "(!%s)" % t, "bool"))

        def fin(r):
            (x, tx), (y, ty) = r
            if tx == "dbl" and ty == "dbl":
                if op in ARITH:
                    return k("(o.%s %s %s)" % (ARITH[op], x, y), "dbl")
                if op in DCMP:
                    return k("(c.%s %s %s)" % (DCMP[op], x, y), "bool")
            if tx == "nat" and ty == "nat":
                if op in NCMP:
                    return k("(decide (%s %s %s))" % (x, NCMP[op], y), "bool")
                if op in ("+", "*"):
                    return k("(%s %s %s)" % (x, op, y), "nat")
            if tx == "bool" and ty == "bool" and op in ("==", "!="):
                return k("(%s %s %s)" % (x, op, y), "bool")
            raise Refuse("%s: binary operator %s on %s, %s" % (self.me, op, tx, ty))
        return self.seq([a, b], fin)

    def is_zero(self, n):
        n = strip(n)
        return n.get("kind") == "IntegerLiteral" and int(n.get("value", "1")) == 0

    def is_memcmp(self, n):
        return n.get("kind") == "CallExpr" and callee_name(n) == "memcmp" and len(kids(n)) == 4

    def memcmp(self, n, k):
        a, b, cnt = kids(n)[1:]
        (ka, va), (kb, vb) = self.iter_of(a), self.iter_of(b)
        cnt = strip(cnt)
        if (ka, kb) != ("begin", "begin") or cnt.get("kind") != "BinaryOperator" or cnt.get("opcode") != "*":
            raise Refuse("%s: memcmp arguments of unknown shape" % self.me)
        x, y = [strip(z) for z in kids(cnt)]
        if x.get("kind") == "UnaryExprOrTypeTraitExpr":
            x, y = y, x
        if y.get("kind") != "UnaryExprOrTypeTraitExpr" or y.get("name") != "sizeof" or \
                kind_of(y.get("argType", {}).get("qualType", "")) != "dbl":
            raise Refuse("%s: memcmp length is not `n * sizeof(T)`" % self.me)
        r = self.fresh()
        self.shape.append("memcmp")

        def withn(t, ty):
            if ty != "nat":
                raise Refuse("%s: memcmp element count of type %s" % (self.me, ty))
            return "call (memEqO c %s %s %s) fun %s =>\n%s" % (va, vb, t, r, k(r, "bool"))
        return self.ex(x, withn)

    def call(self, n, k):
        kd = n.get("kind")
        ks = kids(n)
        if kd == "CXXOperatorCallExpr" and callee_name(n) == "operator<<" and "ostream" in self.kinds():
            return k(self.stream_expr(n), "str")
        # reads of a component
        el = self.element_ref(n)
        if el is not None:
            v, idx = el
            r = self.fresh()
            return self.ex(idx, lambda t, ty: "rd %s %s fun %s =>\n%s" % (v, t, r, k(r, "dbl")))
        if kd == "CXXMemberCallExpr":
            m = strip(ks[0])
            if m.get("kind") == "MemberExpr" and m.get("name") == "size" and len(ks) == 1:
                return k("%s.length" % self.vec(kids(m)[0]), "nat")
            raise Refuse("%s: member call %s" % (self.me, m.get("name")))
        name, ps, ftype = self.callee_key(n)
        args = ks[1:]
        # the translated functions
        if kd == "CXXOperatorCallExpr" and name in ("operator+=", "operator-=", "operator*=") and len(args) == 2 \
                and ctype(args[0]) == "vec" and ctype(args[1]) == "vec":
            ps = ("self", "vec")
        if ps is not None and (name, ps) in LEAN:
            ln = LEAN[(name, ps)]
            self.deps.add(ln)
            self.shape.append(ln)
            r = self.fresh()
            rty = {"bool": "bool", "double": "dbl"}.get(split_params(ftype)[0].replace("const ", "").strip(), "vec")

            def done(a):
                for (t, ty), want in zip(a, ps):
                    if ty != ("vec" if want == "self" else want):
                        raise Refuse("%s: argument of %s has kind %s, expected %s" % (self.me, name, ty, want))
                return "call (%s c o %s) fun %s =>\n%s" % (ln, " ".join(t for t, _ in a), r, k(r, rty))
            return self.seq(args, done)
        # library
        if name == "lexicographical_compare" and len(args) == 4 and "double *" in ftype:
            va, vb = self.whole_range(args[0], args[1]), self.whole_range(args[2], args[3])
            self.shape.append("std::lexicographical_compare")
            return k("(lexLtC c %s %s)" % (va, vb), "bool")
        if name == "equal" and len(args) == 4 and "double *" in ftype:
            va, vb = self.whole_range(args[0], args[1]), self.whole_range(args[2], args[3])
            self.shape.append("std::equal/4")
            return k("(equal4C c %s %s)" % (va, vb), "bool")
        if name == "equal" and len(args) == 3 and "double *" in ftype:
            va = self.whole_range(args[0], args[1])
            kb, vb = self.iter_of(args[2])
            if kb != "begin":
                raise Refuse("%s: std::equal third iterator is not begin(x)" % self.me)
            self.shape.append("std::equal/3")
            r = self.fresh()
            return "call (equal3C c %s %s) fun %s =>\n%s" % (va, vb, r, k(r, "bool"))
        if name in ("all_of", "any_of") and len(args) == 3 and "double *" in ftype:
            v = self.whole_range(args[0], args[1])
            p = self.predicate(args[2])
            r = self.fresh()
            self.shape.append("std::" + name)
            return "call (%s %s %s) fun %s =>\n%s" % ("allOfO" if name == "all_of" else "anyOfO", p, v, r, k(r, "bool"))
        if name == "inner_product" and len(args) == 6 and "double *" in ftype:
            va = self.whole_range(args[0], args[1])
            kb, vb = self.iter_of(args[2])
            plus = strip(args[4])
            if kb != "begin" or "std::plus<" not in qtype(plus).replace("plus<void>", "plus<>") + "<":
                raise Refuse("%s: inner_product arguments of unknown shape" % self.me)
            prod = self.predicate(args[5])
            r = self.fresh()
            self.shape.append("std::inner_product")
            return self.ex(args[3], lambda t, ty: "call (innerProductO o.add %s %s %s %s) fun %s =>\n%s" % (
                prod, t, va, vb, r, k(r, "dbl")))
        if name in STD1 and ps == ("dbl",) and ftype.startswith("double (double)"):
            return self.ex(args[0], lambda t, ty: k("(o.%s %s)" % (STD1[name], t), "dbl"))
        if name in STDP and ps == ("dbl",) and ftype.startswith("bool (double)"):
            return self.ex(args[0], lambda t, ty: k("(o.%s %s)" % (STDP[name], t), "bool"))
        if name == "max" and ps == ("dbl", "dbl"):
            return self.seq(args, lambda a: k("(stdMax c %s %s)" % (a[0][0], a[1][0]), "dbl"))
        if name in ("min", "max") and ps == ("nat", "nat"):
            return self.seq(args, lambda a: k("(%s %s %s)" % (name, a[0][0], a[1][0]), "nat"))
        if name == "epsilon" and not args and ftype.startswith("double ()"):
            return k("(o.lit %s)" % dbits(2.0 ** -52), "dbl")
        raise Refuse("%s: call to %r of type %r" % (self.me, name, ftype))

    # ---- statements --------------------------------------------------------
    def assigned(self, n):
        """C++ names of the locals / vectors a statement assigns"""
        out = []
        for m in walk(n):
            kd = m.get("kind")
            if kd in ("BinaryOperator", "CompoundAssignOperator") and \
                    (kd == "CompoundAssignOperator" or m.get("opcode") == "="):
                lhs = strip(kids(m)[0])
                el = self.element_ref(lhs)
                if el is not None:
                    out.append(el[0])
                elif lhs.get("kind") == "DeclRefExpr":
                    name = lhs.get("referencedDecl", {}).get("name")
                    if name in self.vars:
                        out.append(self.vars[name][0])
                    else:
                        out.append(name)
        return out

    def stmts(self, ss, end):
        """`end()` renders what happens when control reaches the end of the list (None: it must not)."""
        if not ss:
            if end is None:
                raise Refuse("%s: control reaches the end of a non-void function" % self.me)
            return end()
        s, rest = ss[0], ss[1:]
        kd = s.get("kind")
        ks = kids(s)
        if kd == "CompoundStmt":
            return self.stmts(ks + rest, end)
        if kd == "NullStmt":
            return self.stmts(rest, end)
        if kd == "ReturnStmt":
            return self.ex(ks[0], lambda t, ty: self.ret(t))
        if kd == "IfStmt":
            if s.get("hasInit") or s.get("hasVar"):
                raise Refuse("%s: if with initialiser" % self.me)

            def cond(t, ty):
                if ty != "bool":
                    raise Refuse("%s: if condition of kind %s" % (self.me, ty))
                saved = dict(self.vars)
                th = self.stmts([ks[1]] + rest, end)
                self.vars = dict(saved)
                el = self.stmts(([ks[2]] if s.get("hasElse") else []) + rest, end)
                self.vars = saved
                return "if %s then\n%s\nelse\n%s" % (t, th, el)
            return self.ex(ks[0], cond)
        if kd == "DeclStmt":
            return self.decls(ks, rest, end)
        if kd in ("BinaryOperator", "CompoundAssignOperator"):
            return self.assign(s, rest, end)
        if kd == "ForStmt":
            return self.for_idx(s, rest, end)
        if kd == "CXXForRangeStmt":
            return self.for_range(s, rest, end)
        if kd == "CXXMemberCallExpr":
            return self.member_stmt(s, rest, end)
        if kd in ("CXXOperatorCallExpr", "CallExpr") and "ostream" in self.kinds():
            return self.stream_stmt(s, rest, end)
        if kd in WRAP and len(ks) == 1:
            return self.stmts([ks[0]] + rest, end)
        raise Refuse("%s: statement %s" % (self.me, kd))

    def kinds(self):
        return {k for (_, k) in self.vars.values()}

    def decls(self, ds, rest, end):
        def go(i):
            if i == len(ds):
                return self.stmts(rest, end)
            d = ds[i]
            if d.get("kind") == "StaticAssertDecl":
                return go(i + 1)
            if d.get("kind") != "VarDecl":
                raise Refuse("%s: declaration %s" % (self.me, d.get("kind")))
            ty = ctype(d)
            name = d["name"]
            init = kids(d)
            if ty == "vec":
                c = strip(init[0]) if init else {}
                if c.get("kind") == "CXXConstructExpr" and all(x.get("kind") == "CXXDefaultArgExpr" for x in kids(c)):
                    self.vars[name] = (name, "vec")
                    return "let %s : List F := [];\n%s" % (name, go(i + 1))
                raise Refuse("%s: vector local %s is not default-constructed" % (self.me, name))
            if ty not in ("bool", "nat", "dbl") or not init:
                raise Refuse("%s: local %s of type %s" % (self.me, name, qtype(d)))

            def bind(t, tty):
                if tty != ty:
                    raise Refuse("%s: local %s declared %s, initialiser %s" % (self.me, name, ty, tty))
                self.vars[name] = (name, ty)
                return "let %s := %s;\n%s" % (name, t, go(i + 1))
            return self.ex(init[0], bind)
        return go(0)

    def assign(self, s, rest, end):
        op = s.get("opcode")
        lhs, rhs = kids(s)
        if s.get("kind") == "BinaryOperator" and op != "=":
            raise Refuse("%s: expression statement with operator %s" % (self.me, op))
        el = self.element_ref(lhs)
        if el is not None:                   # v[i] = e / v[i] op= e   (C++17: right operand first)
            v, idx = el

            def with_rhs(t, ty):
                if ty != "dbl":
                    raise Refuse("%s: component assigned a %s" % (self.me, ty))

                def with_idx(ti, tyi):
                    if op == "=":
                        return "wr %s %s %s fun %s =>\n%s" % (v, ti, t, v, self.stmts(rest, end))
                    if op[:-1] not in ARITH:
                        raise Refuse("%s: compound assignment %s" % (self.me, op))
                    r = self.fresh()
                    return "rd %s %s fun %s =>\nwr %s %s (o.%s %s %s) fun %s =>\n%s" % (
                        v, ti, r, v, ti, ARITH[op[:-1]], r, t, v, self.stmts(rest, end))
                return self.ex(idx, with_idx)
            return self.ex(rhs, with_rhs)
        l = strip(lhs)
        name = l.get("referencedDecl", {}).get("name") if l.get("kind") == "DeclRefExpr" else None
        if name not in self.vars or self.vars[name][1] not in ("bool", "dbl", "nat"):
            raise Refuse("%s: assignment to %s" % (self.me, name or l.get("kind")))
        lean, ty = self.vars[name]

        def with_rhs(t, tty):
            if tty != ty:
                raise Refuse("%s: %s assigned a %s" % (self.me, name, tty))
            if op == "=":
                return "let %s := %s;\n%s" % (lean, t, self.stmts(rest, end))
            if ty != "dbl" or op[:-1] not in ARITH:
                raise Refuse("%s: compound assignment %s on %s" % (self.me, op, ty))
            return "let %s := (o.%s %s %s);\n%s" % (lean, ARITH[op[:-1]], lean, t, self.stmts(rest, end))
        return self.ex(rhs, with_rhs)

    def for_idx(self, s, rest, end):
        ks = kids(s)
        if len(ks) != 4:
            raise Refuse("%s: for statement of unknown shape" % self.me)
        init, cond, inc, body = ks
        iv = kids(init)[0] if init.get("kind") == "DeclStmt" and len(kids(init)) == 1 else {}
        if iv.get("kind") != "VarDecl" or ctype(iv) != "nat" or not kids(iv) or not self.is_zero(kids(iv)[0]):
            raise Refuse("%s: loop counter is not `std::size_t i(0)`" % self.me)
        i = iv["name"]
        c = strip(cond)
        if c.get("kind") != "BinaryOperator" or c.get("opcode") != "<":
            raise Refuse("%s: loop condition is not `i < n`" % self.me)
        cl, cr = [strip(x) for x in kids(c)]
        if cl.get("kind") != "DeclRefExpr" or cl.get("referencedDecl", {}).get("name") != i:
            raise Refuse("%s: loop condition is not `i < n`" % self.me)
        inc = strip(inc)
        if inc.get("kind") != "UnaryOperator" or inc.get("opcode") != "++" or \
                strip(kids(inc)[0]).get("referencedDecl", {}).get("name") != i:
            raise Refuse("%s: loop increment is not `++i`" % self.me)
        if self.mode != "opt":
            raise Refuse("%s: nested loops" % self.me)
        mut = sorted(set(self.assigned(body)))
        if i in mut:
            raise Refuse("%s: the loop body assigns the counter" % self.me)
        for m in mut:
            if m not in [v for (v, _) in self.vars.values()]:
                raise Refuse("%s: the loop body assigns %s" % (self.me, m))
        if len(mut) > 1:
            raise Refuse("%s: the loop body assigns more than one local (%s)" % (self.me, ", ".join(mut)))
        st = mut[0] if mut else None
        pat, val = (st, st) if st else ("(_u : Unit)", "()")

        def with_bound(t, ty):
            if ty != "nat":
                raise Refuse("%s: loop bound of kind %s" % (self.me, ty))
            if st and st in t.split("."):       # `i < size()` of the vector the body writes: `wr` keeps the length
                pass
            saved = dict(self.vars)
            self.vars[i] = (i, "nat")
            self.mode = "step"
            b = self.stmts([body], lambda: ".next %s" % val)
            self.mode = "opt"
            self.vars = saved
            after = self.stmts(rest, end)
            return "Step.andThen (forIdx %s (fun %s %s =>\n%s) %s) fun %s =>\n%s" % (t, i, pat, b, val, pat, after)
        return self.ex(cr, with_bound)

    def for_range(self, s, rest, end):
        ks = kids(s)
        if len(ks) != 7:
            raise Refuse("%s: range-for of unknown shape" % self.me)
        rng, _b, _e, _c, _i, var, body = ks
        rv = kids(rng)[0]
        v = self.vec(kids(rv)[0])
        lv = kids(var)[0]
        if lv.get("kind") != "VarDecl" or "&" not in lv.get("type", {}).get("qualType", "") or \
                "const" in lv.get("type", {}).get("qualType", "") or ctype(lv) != "dbl":
            raise Refuse("%s: range-for variable is not `auto &` over doubles" % self.me)
        x = lv["name"]
        sub = Tr(self.me)
        sub.n = self.n
        sub.vars = {nm: val for nm, val in self.vars.items() if val[1] not in ("vec", "mm")}   # only scalars
        sub.vars[x] = (x, "dbl")
        for nm in sub.assigned(body):
            if nm != x:
                raise Refuse("%s: the range-for body assigns %s" % (self.me, nm))
        if any(m.get("kind") == "ReturnStmt" for m in walk(body)):
            raise Refuse("%s: return inside a range-for" % self.me)
        b = sub.stmts([body], lambda: "some %s" % x)
        self.n = sub.n
        self.deps |= sub.deps
        return "call (mapO (fun %s =>\n%s) %s) fun %s =>\n%s" % (x, b, v, v, self.stmts(rest, end))

    def member_stmt(self, s, rest, end):
        ks = kids(s)
        m = strip(ks[0])
        if m.get("kind") != "MemberExpr":
            raise Refuse("%s: member call of unknown shape" % self.me)
        v = self.vec(kids(m)[0])
        if m.get("name") == "reserve" and len(ks) == 2:
            # capacity only: the value of the vector does not change (the container is C20's subject)
            return self.ex(ks[1], lambda t, ty: self.stmts(rest, end))
        if m.get("name") == "insert" and len(ks) == 4:
            kp, vp = self.iter_of(ks[1])
            src = self.whole_range(ks[2], ks[3])
            if vp != v or kp not in ("begin", "end"):
                raise Refuse("%s: insert position is not begin/end of the same vector" % self.me)
            new = "(%s ++ %s)" % ((v, src) if kp == "end" else (src, v))
            return "let %s := %s;\n%s" % (v, new, self.stmts(rest, end))
        raise Refuse("%s: member call %s" % (self.me, m.get("name")))

    # ---- `operator<<` --------------------------------------------------------
    def stream_expr(self, n):
        """`o << 'c'` -> the new stream contents"""
        n = strip(n)
        if n.get("kind") == "CXXOperatorCallExpr" and callee_name(n) == "operator<<" and len(kids(n)) == 3:
            o = strip(kids(n)[1])
            ch = strip(kids(n)[2])
            if o.get("kind") == "DeclRefExpr" and self.vars.get(o.get("referencedDecl", {}).get("name"), ("", ""))[1] \
                    == "ostream" and ch.get("kind") == "CharacterLiteral":
                c = chr(int(ch["value"]))
                if c in '"\\' or not (32 <= ord(c) < 127):
                    raise Refuse("%s: character literal %r" % (self.me, c))
                return '(out ++ "%s")' % c
        raise Refuse("%s: stream expression of unknown shape" % self.me)

    def stream_stmt(self, s, rest, end):
        if s.get("kind") == "CallExpr" and callee_name(s) == "copy" and len(kids(s)) == 4:
            a = kids(s)[1:]
            v = self.whole_range(a[0], a[1])
            it = strip(a[2])
            if it.get("kind") != "CXXTemporaryObjectExpr" or "infix_iterator<double>" not in qtype(it) or \
                    len(kids(it)) != 2:
                raise Refuse("%s: std::copy target is not an infix_iterator<double>(o, sep)" % self.me)
            sep = strip(kids(it)[1])
            if sep.get("kind") != "StringLiteral":
                raise Refuse("%s: infix_iterator separator is not a string literal" % self.me)
            return "let out := (copyInfix fmt out %s %s);\n%s" % (v, sep["value"], self.stmts(rest, end))
        return "let out := %s;\n%s" % (self.stream_expr(s), self.stmts(rest, end))


# ---------------------------------------------------------------------------

def specialisations(tmpl):
    """the `double` instantiations (with body) of a function template"""
    out = []
    for f in kids(tmpl):
        if f.get("kind") != "FunctionDecl":
            continue
        inner = f.get("inner", [])
        targs = [c for c in inner if c.get("kind") == "TemplateArgument"]
        if targs and targs[0].get("type", {}).get("qualType") == "double" and \
                any(c.get("kind") == "CompoundStmt" for c in inner):
            out.append(f)
    return out


def fn_key(f, member=False):
    ps = [c for c in kids(f) if c.get("kind") == "ParmVarDecl"]
    ks = tuple(ctype(p) for p in ps)
    if member:
        ks = ("self",) + ks
    return (f.get("name"), ks), ps


def collect():
    found = {}

    def add(key, f, ps, member=False):
        if key not in LEAN:
            return
        if key in found:
            raise Refuse("two definitions of %s%s" % key)
        found[key] = (f, ps, member)

    seen_ids = set()
    names = {k[0] for k, _ in FUNCS}
    for d in ast_dump("fitness_tu.cc", "vita::"):
        for m in walk(d):
            kd = m.get("kind")
            if kd not in ("FunctionTemplateDecl", "FunctionDecl", "CXXMethodDecl") or m.get("name") not in names:
                continue
            if m.get("id") in seen_ids:
                continue
            seen_ids.add(m.get("id"))
            if kd == "FunctionTemplateDecl":
                for f in specialisations(m):
                    seen_ids.add(f.get("id"))
                    key, ps = fn_key(f)
                    add(key, f, ps)
            elif kd == "FunctionDecl" and any(c.get("kind") == "CompoundStmt" for c in kids(m)):
                key, ps = fn_key(m)
                if key == ("operator>=", ("mm", "mm")):
                    add(key, m, ps)
            elif kd == "CXXMethodDecl" and m.get("name") in ("operator+=", "operator-=", "operator*=") \
                    and any(c.get("kind") == "CompoundStmt" for c in kids(m)) and \
                    "basic_fitness_t<double>" in m.get("type", {}).get("qualType", ""):
                key, ps = fn_key(m, member=True)
                add(key, m, ps, member=True)
    missing = [k for k, _ in FUNCS if k not in found]
    if missing:
        raise Refuse("no definition found for %s" % ", ".join("%s%s" % k for k in missing))
    return found


def translate_fn(key, f, ps, member):
    ln = LEAN[key]
    t = Tr(ln)
    params = []
    if member:
        t.vars["self"] = ("self", "vec")
        params.append(("self", "vec"))
    for p, kd in zip(ps, key[1][1:] if member else key[1]):
        nm = p.get("name")
        if nm is None:
            raise Refuse("%s: unnamed parameter" % ln)
        t.vars[nm] = ("out" if kd == "ostream" else nm, kd)
        params.append((nm, kd))
    body = [c for c in kids(f) if c.get("kind") == "CompoundStmt"][0]
    rtype = split_params(f.get("type", {}).get("qualType", ""))[0]
    rk = kind_of(rtype)
    if rk == "ostream":          # `operator<<`: the function denotes the characters written to `o`
        if key[1] != ("ostream", "vec"):
            raise Refuse("%s: stream result" % ln)
        txt = 'let out := "";\n' + t.stmts([body], None)
        rk = "str"
    else:
        txt = t.stmts([body], None)
    return ln, params, rk, txt, t.deps, t.shape


def render_params(params):
    out, i = [], 0
    while i < len(params):
        j = i
        while j + 1 < len(params) and params[j + 1][1] == params[i][1]:
            j += 1
        names = " ".join(p[0] for p in params[i:j + 1])
        kd = params[i][1]
        if kd == "ostream":
            out.append("(fmt : F → String)")
        elif kd == "mm":
            out.append("(%s : MM F)" % names)
        else:
            out.append("(%s : %s)" % (names, LEAN_TY[kd]))
        i = j + 1
    return " ".join(out)


def indent(txt):
    """purely cosmetic: indent by the nesting of `if/else` and of open parentheses"""
    out, depth = [], 1
    stack = []
    for ln in txt.split("\n"):
        ln = ln.strip()
        if ln == "else" and stack:
            depth = stack[-1]
            out.append("  " * depth + ln)
            depth += 1
            continue
        out.append("  " * depth + ln)
        if ln.startswith("if ") and ln.endswith(" then"):
            stack.append(depth)
            depth += 1
        opens = ln.count("(") - ln.count(")")
        if opens < 0 and stack:
            # leaving a lambda closes the conditionals opened inside it
            while stack and stack[-1] >= depth + opens:
                stack.pop()
            depth = max(1, depth + opens)
        elif opens > 0:
            depth += opens
    return "\n".join(out)


def translate():
    found = collect()
    defs = {}
    for key, (f, ps, member) in found.items():
        ln, params, rk, txt, deps, shape = translate_fn(key, f, ps, member)
        defs[ln] = (key, params, rk, txt, deps, shape)
    order, state = [], {}

    def visit(n, path):
        if state.get(n) == 2:
            return
        if state.get(n) == 1:
            raise Refuse("recursive derivation: %s" % " -> ".join(path + [n]))
        state[n] = 1
        for d in sorted(defs[n][4]):
            if d != n:
                visit(d, path + [n])
            else:
                raise Refuse("%s calls itself" % n)
        state[n] = 2
        order.append(n)

    for _, ln in FUNCS:
        visit(ln, [])
    return order, defs


def emit(path):
    order, defs = translate()
    L = ["-- GENERATED by tools/translate_fitness_ops.py from the clang AST of src/kernel/fitness.tcc,",
         "-- src/utility/utility.h and src/kernel/model_measurements.h of the working tree",
         "-- (regenerated on every check run; do not edit).  Bodies, as terms of the loop language of Loop.lean.",
         "import Vita.C18.Loop", "set_option linter.unusedVariables false", "namespace Vita.C18.Gen",
         "open Vita.C18", ""]
    table = []
    for ln in order:
        key, params, rk, txt, deps, shape = defs[ln]
        sig = "%s(%s)" % (key[0], ", ".join(key[1]))
        L.append("/-- `%s`%s -/" % (sig, (" — calls " + ", ".join(sorted(set(shape)))) if shape else ""))
        L.append("def %s {F : Type} (c : Cmp F) (o : FOps F) %s : Option %s :=\n%s\n" % (
            ln, render_params(params), LEAN_TY[rk] if " " not in LEAN_TY[rk] else "(%s)" % LEAN_TY[rk], indent(txt)))
        table.append((sig, ln, " ".join(txt.split())))
    L.append("/-- the translated functions: C++ signature, Lean name -/")
    L.append("def functions : List (String × String) :=\n  [" +
             ",\n   ".join('("%s", "%s")' % (a, b) for a, b, _ in table) + "]")
    L.append("\nend Vita.C18.Gen\n")
    txt = "\n".join(L)
    old = open(path).read() if os.path.exists(path) else None
    if old != txt:
        os.makedirs(os.path.dirname(path), exist_ok=True)
        with open(path, "w") as f:
            f.write(txt)
    return table, old is not None and old != txt


if __name__ == "__main__":
    here = os.path.dirname(os.path.dirname(os.path.abspath(__file__)))
    try:
        table, changed = emit(sys.argv[1] if len(sys.argv) > 1 else
                              os.path.join(here, "lean", "Vita", "C18", "GenOps.lean"))
        for a, b, t in table:
            print("%-40s %-14s %s" % (a, b, t[:110]))
        print("(changed)" if changed else "(unchanged)")
    except Refuse as e:
        print("REFUSE:", e)
        sys.exit(2)
