#!/usr/bin/env python3
"""C12 (a) — extract the DATA-FLOW of every load function and stream constructor from the clang AST.

Each function of TARGETS is abstracted to a term of `Vita.C12.Flow.Stmt` (lean/Vita/C12/Flow.lean):

    read dst chk     an extraction from the stream parameter `in`: `in >> a >> b` (dst = a, b),
                     `std::getline(in, s)`, `load_float_from_stream(in, &x)`; manipulators (`std::ws`) are
                     not extractions.  chk = some k when the extraction is the condition of
                     `if (!(…)) <leave with k>` (also as a disjunct of `a || b`, a conjunct of
                     `return a && b`, under `c && !(…)`), none otherwise
    asg dst          any other write: assignment / compound assignment / ++ / -- / `>>` from a local stream;
                     a non-const member call on an object; an object (or its address) handed to a
                     function / constructor otherwise than by value or const reference
    sub i obj chk    `obj.load(in, …)` / `load_impl` / `load_` (entry i), a constructor or `make_unique<U>` /
                     `emplace_back` receiving the stream (entry = the stream constructor of the class), an
                     indirect call through the factory of serialize::lambda (one of the `build<U>` entries)
    fail k           `return false` (retFalse), `return nullptr` (retNull), `throw exception::data_format`
                     (throwFmt), any other throw (throwOther)
    skip / seq / loop / branch   the rest; a lambda body is a loop (called any number of times)

Locations: `tmp n` a local variable / parameter of the function (names in the comment of the entry), `mem n` a
data member of `*this` (n = index in `memberNames`, qualified by the class that declares it, so that a
base-class function and the derived-class function it calls speak about the same object), `self` the whole
object, `ext` anything else.  References / pointers / range-for variables bound to a location are aliases
of it.

Syntax only; the meaning is given in Lean.  Any statement / expression kind not listed, a stream handed to
a function that is not classified, an unresolved callee or a nested load that is not in the table make
the translator refuse.
"""
import concurrent.futures as cf
import os
import re
import sys

sys.path.insert(0, os.path.dirname(os.path.abspath(__file__)))
from cxx2lean import Refuse, ast_dump, kids, qtype  # noqa: E402
import translate_loads as TL  # noqa: E402
import c12_ast  # noqa: E402

TU = c12_ast.TU

LAMBDA = "lambda"        # one dump for every model class and the factory of serialize::lambda
IMEP = "vita::i_mep"
TEAM = "vita::team<vita::i_mep>"

# kind: load (must be commit-last), weak (documented "could be changed"), ctor, factory
# (key, dump filter, finder, kind, allowed ways of failing)
TARGETS = [
    ("vita::hash_t::load", "vita::hash_t", ("method", "hash_t", "load"), "load"),
    ("vita::i_ga::load_impl", "vita::i_ga", ("method", "i_ga", "load_impl"), "load"),
    ("vita::i_de::load_impl", "vita::i_de", ("method", "i_de", "load_impl"), "load"),
    ("vita::i_mep::load_impl", "vita::i_mep", ("method", "i_mep", "load_impl"), "load"),
    ("vita::individual<vita::i_ga>::load", "vita::individual", ("spec", "individual", ["vita::i_ga"], "load"), "load"),
    ("vita::individual<vita::i_de>::load", "vita::individual", ("spec", "individual", ["vita::i_de"], "load"), "load"),
    ("vita::individual<vita::i_mep>::load", "vita::individual", ("spec", "individual", ["vita::i_mep"], "load"), "load"),
    ("vita::team<vita::i_mep>::load", "vita::team", ("spec", "team", ["vita::i_mep"], "load"), "load"),
    ("vita::population<vita::i_mep>::load", "vita::population", ("spec", "population", ["vita::i_mep"], "load"), "load"),
    ("vita::summary<vita::i_mep>::load", "vita::summary", ("spec", "summary", ["vita::i_mep"], "load"), "load"),
    ("vita::basic_fitness_t<double>::load", "vita::basic_fitness_t", ("spec", "basic_fitness_t", ["double"], "load"), "load"),
    ("vita::matrix<int>::load", "vita::matrix", ("spec", "matrix", ["int"], "load"), "load"),
    ("vita::matrix<unsigned int>::load", "vita::matrix", ("spec", "matrix", ["unsigned int"], "load"), "load"),
    ("vita::distribution<double>::load", "vita::distribution", ("spec", "distribution", ["double"], "load"), "load"),
    ("vita::detail::class_names<true>::load", "vita::detail::class_names", ("method", "class_names", "load"), "load"),
    ("vita::detail::class_names<false>::load", "vita::detail::class_names",
     ("spec", "class_names", ["false"], "load"), "load"),
    # documented "could be changed": modelled, not required to be commit-last
    ("vita::cache::load", "vita::cache", ("method", "cache", "load"), "weak"),
    ("vita::evaluator<vita::i_mep>::load", "vita::evaluator", ("spec", "evaluator", ["vita::i_mep"], "load"), "weak"),
    ("vita::evaluator_proxy<vita::i_mep, vita::test_evaluator<vita::i_mep>>::load", "vita::evaluator",
     ("spec", "evaluator_proxy", ["vita::i_mep", "vita::test_evaluator<vita::i_mep>"], "load"), "weak"),
    # stream constructors of the models
    ("vita::detail::reg_lambda_f_storage<vita::i_mep, true, false>::(ctor)", LAMBDA,
     ("spec", "reg_lambda_f_storage", ["vita::i_mep", "true", "false"], "(ctor)"), "ctor"),
    ("vita::detail::reg_lambda_f_storage<vita::team<vita::i_mep>, true, true>::(ctor)",
     LAMBDA,
     ("spec", "reg_lambda_f_storage", ["vita::team<vita::i_mep>", "true", "true"], "(ctor)"), "ctor"),
    ("vita::basic_reg_lambda_f<vita::i_mep, true>::(ctor)", LAMBDA,
     ("spec", "basic_reg_lambda_f", ["vita::i_mep", "true"], "(ctor)"), "ctor"),
    ("vita::basic_reg_lambda_f<vita::team<vita::i_mep>, true>::(ctor)", LAMBDA,
     ("spec", "basic_reg_lambda_f", ["vita::team<vita::i_mep>", "true"], "(ctor)"), "ctor"),
]
for _n in ("true", "false"):
    for _c in ("basic_dyn_slot_lambda_f", "basic_gaussian_lambda_f", "basic_binary_lambda_f"):
        TARGETS.append(("vita::%s<vita::i_mep, true, %s>::(ctor)" % (_c, _n), LAMBDA,
                        ("spec", _c, ["vita::i_mep", "true", _n], "(ctor)"), "ctor"))
for _c in ("basic_dyn_slot_lambda_f", "basic_gaussian_lambda_f", "basic_binary_lambda_f"):
    TARGETS.append(("vita::team_class_lambda_f<vita::i_mep, true, true, vita::%s>::(ctor)" % _c,
                    LAMBDA,
                    # (clang-14's JSON does not name a template template argument: the specialisation is
                    #  recognised by the element type of its member `team_`)
                    ("spec", "team_class_lambda_f", ["vita::i_mep", "true", "true"], "(ctor)", ("team_", _c + "<")),
                    "ctor"))
REGISTERED = (["vita::basic_reg_lambda_f<%s, true>" % t for t in (IMEP, TEAM)] +
              ["vita::%s<%s, true, true>" % (c, t) for t in (IMEP, TEAM)
               for c in ("basic_dyn_slot_lambda_f", "basic_gaussian_lambda_f", "basic_binary_lambda_f")])
for _u in REGISTERED:
    TARGETS.append(("vita::serialize::lambda::detail::build<%s>" % _u, LAMBDA,
                    ("func", "build", [_u]), "builder"))
for _t in (IMEP, TEAM):
    TARGETS.append(("vita::serialize::lambda::load<%s>" % _t, LAMBDA,
                    ("func", "load", [_t]), "factory"))

ALLOW = {"load": ["retFalse"], "weak": ["retFalse"], "ctor": ["throwFmt"], "builder": ["throwFmt"],
         "factory": ["retNull", "throwFmt"]}

# a load called through a derived class resolves to the base-class entry; the team specialisations of the
# classifiers inherit the constructor of team_class_lambda_f
ALIASES = dict(TL.ALIASES)
for _c in ("basic_dyn_slot_lambda_f", "basic_gaussian_lambda_f", "basic_binary_lambda_f"):
    ALIASES["vita::%s<%s, true, true>::(ctor)" % (_c, TEAM)] = \
        "vita::team_class_lambda_f<vita::i_mep, true, true, vita::%s>::(ctor)" % _c
ALIASES["vita::test_evaluator<vita::i_mep>::load"] = "vita::evaluator<vita::i_mep>::load"

LOAD_NAMES = TL.LOAD_NAMES
ASSIGN_OPS = TL.ASSIGN_OPS
ASSIGN_OPERATORS = TL.ASSIGN_OPERATORS
# free functions that extract from their first argument into the argument at the given position
READ_FUNCS = {"getline": 1, "load_float_from_stream": 1}
# objects constructed from the stream that extract nothing (they save / restore the formatting flags)
NEUTRAL_CTORS = {"vita::ios_flag_saver"}
# RAII locks: the mutex is released when the function returns
LOCK_CTORS = ("std::unique_lock<", "std::lock_guard<", "std::shared_lock<", "std::scoped_lock<")
# stream manipulators / observers: no data is extracted
STREAM_NEUTRAL = {"ws", "good", "fail", "eof", "bad", "operator bool", "operator!", "peek", "ignore", "rdstate"}
PURE_OPERATORS = {"operator<<", "operator[]", "operator()", "operator*", "operator->", "operator!", "operator==",
                  "operator!=", "operator<", "operator>", "operator<=", "operator>=", "operator+", "operator-",
                  "operator bool"}


def norm_type(t):
    t = re.sub(r"^(const|volatile)\s+", "", t.strip())
    t = re.sub(r"\s*[*&]+\s*$", "", t).strip()
    t = re.sub(r"^(class|struct)\s+", "", t)
    t = re.sub(r"\s+(const|volatile)$", "", t)
    return t


def split_args(t):
    """'N<a, b<c>>::s' -> ('N', ['a', 'b<c>'], '::s'); no template arguments -> (t, None, '')"""
    i = t.find("<")
    if i < 0:
        return t, None, ""
    depth, j, args, start = 0, i, [], i + 1
    while j < len(t):
        ch = t[j]
        if ch == "<":
            depth += 1
        elif ch == ">":
            depth -= 1
            if depth == 0:
                args.append(t[start:j].strip())
                return t[:i], args, t[j + 1:]
        elif ch == "," and depth == 1:
            args.append(t[start:j].strip())
            start = j + 1
        j += 1
    return t, None, ""


def same_upto_defaults(short, full):
    a, b = split_args(short), split_args(full)
    if a[0] != b[0] or a[2] != b[2] or a[1] is None or b[1] is None:
        return False
    return len(a[1]) <= len(b[1]) and b[1][:len(a[1])] == a[1]


def seq(*xs):
    flat = []
    for x in xs:
        if x == ("skip",) or x == ("asg", ("ext",)):       # a write of something that is not ours
            continue
        flat.append(x)
    if not flat:
        return ("skip",)
    r = flat[-1]
    for x in reversed(flat[:-1]):
        r = ("seq", x, r)
    return r


def lean_loc(l):
    return {"self": ".self", "ext": ".ext"}.get(l[0]) or "(.%s %d)" % (l[0], l[1])


def lean_chk(c):
    return "none" if c is None else "(some .%s)" % c


def lean(t):
    k = t[0]
    if k == "skip":
        return ".skip"
    if k == "fail":
        return "(.fail .%s)" % t[1]
    if k == "read":
        return "(.read [%s] %s)" % (", ".join(lean_loc(l) for l in t[1]), lean_chk(t[2]))
    if k == "asg":
        return "(.asg %s)" % lean_loc(t[1])
    if k == "sub":
        return "(.sub %d %s %s)" % (t[1], lean_loc(t[2]), lean_chk(t[3]))
    if k == "seq":
        return "(.seq %s %s)" % (lean(t[1]), lean(t[2]))
    if k == "loop":
        return "(.loop %s)" % lean(t[1])
    if k == "branch":
        return "(.branch %s %s)" % (lean(t[1]), lean(t[2]))
    raise Refuse("internal: " + repr(t))


class Members:
    """global table of member names (qualified by the declaring class)"""

    def __init__(self):
        self.names = []
        self.classes = sorted({t[0].rsplit("::", 1)[0] for t in TARGETS if "::" in t[0]})

    def canon(self, cls):
        """one spelling per class: the one of the table (clang prints a type with or without its defaulted
        template arguments / namespaces depending on how the source wrote it)"""
        for k in self.classes:
            if cls == k or same_upto_defaults(cls + "::x", k + "::x") or k.endswith("::" + cls):
                return k
        return cls

    def index(self, q):
        cls, name = q.rsplit("::", 1)
        q = self.canon(cls) + "::" + name
        if q not in self.names:
            self.names.append(q)
        return self.names.index(q)


class Flow(TL.Fn):
    def __init__(self, key, index_of, members, ret_mode, dyn_targets):
        super().__init__(key, index_of)
        self.members = members
        self.ret = [ret_mode]              # bool | ptr | void | other
        self.dyn_targets = dyn_targets
        self.stream_ids = set()            # ParmVarDecl ids of std::istream & parameters
        self.locals = {}                   # decl id -> (index, name)
        self.alias_loc = {}                # decl id of a reference / pointer / range variable -> location
        self.cur_obj = ("ext",)            # the object a constructor expression initialises

    # ---- locations --------------------------------------------------------------------------------
    def tmp(self, d):
        """a variable DECLARED in the function (parameters, locals, loop variables)"""
        did = d.get("id")
        if did not in self.locals:
            self.locals[did] = (len(self.locals), d.get("name") or "_")
        return ("tmp", self.locals[did][0])

    def loc(self, e):
        """where the object designated by `e` lives"""
        k = e.get("kind")
        if k == "CXXThisExpr":
            return ("self",)
        if k == "MemberExpr":
            base = kids(e)[0]
            sb = self.strip_all(base)
            if sb.get("kind") == "CXXThisExpr":
                cls = norm_type(qtype(base))
                return ("mem", self.members.index(cls + "::" + e.get("name", "?")))
            return self.loc(base)
        if k == "DeclRefExpr":
            rd = e.get("referencedDecl", {})
            rid = rd.get("id")
            if rid in self.alias_loc:
                return self.alias_loc[rid]
            if rid in self.locals:
                return ("tmp", self.locals[rid][0])
            return ("ext",)      # globals, statics, captured objects of an enclosing scope
        if k == "UnaryOperator" and e.get("opcode") in ("*", "&"):
            return self.loc(kids(e)[0])
        if k in ("ImplicitCastExpr", "CXXStaticCastExpr", "ParenExpr", "CStyleCastExpr", "CXXConstCastExpr",
                 "MaterializeTemporaryExpr", "ExprWithCleanups", "CXXBindTemporaryExpr", "CXXFunctionalCastExpr",
                 "ArraySubscriptExpr"):
            return self.loc(kids(e)[0])
        if k == "CXXOperatorCallExpr":
            if self.callee_name(e) in ("operator[]", "operator()", "operator*", "operator->"):
                return self.loc(kids(e)[1])
            return ("ext",)
        if k == "CXXMemberCallExpr":
            me = self.strip(kids(e)[0])
            if me.get("kind") == "MemberExpr":
                return self.loc(kids(me)[0])     # v.front(), m.begin(): the object the call is made on
            return ("ext",)
        if k == "CallExpr" and self.callee_name(e) in ("move", "forward") and len(kids(e)) == 2:
            return self.loc(kids(e)[1])
        return ("ext",)

    @staticmethod
    def strip_all(e):
        while e.get("kind") in ("ImplicitCastExpr", "ParenExpr", "ExprWithCleanups", "MaterializeTemporaryExpr",
                                "CXXBindTemporaryExpr", "CXXStaticCastExpr") and len(kids(e)) == 1:
            e = kids(e)[0]
        return e

    def root(self, e):
        l = self.loc(e)
        return "this" if l[0] in ("mem", "self") else ("local" if l[0] == "tmp" else "other")

    # ---- the stream -------------------------------------------------------------------------------
    def stream_root(self, e):
        """'in' if the expression denotes the stream parameter (possibly after extractions / manipulators),
        'local' for another stream object, None if it is not a stream"""
        e = self.strip_all(e)
        k = e.get("kind")
        if k == "DeclRefExpr":
            rid = e.get("referencedDecl", {}).get("id")
            if rid in self.stream_ids:
                return "in"
            return "local" if "stream" in qtype(e) else None
        if k == "CXXOperatorCallExpr" and self.callee_name(e) in ("operator>>", "operator<<"):
            return self.stream_root(kids(e)[1])
        if k == "CallExpr" and (self.callee_name(e) in READ_FUNCS or self.callee_name(e) in STREAM_NEUTRAL):
            a = kids(e)[1:]
            return self.stream_root(a[0]) if a else None
        if k == "CXXMemberCallExpr":
            me = self.strip(kids(e)[0])
            if me.get("kind") == "MemberExpr" and me.get("name") in STREAM_NEUTRAL:
                return self.stream_root(kids(me)[0])
        if k == "MemberExpr":
            return "local" if "stream" in qtype(e) else None
        return None

    def mentions_in(self, e):
        if e.get("kind") == "DeclRefExpr" and e.get("referencedDecl", {}).get("id") in self.stream_ids:
            return True
        return any(self.mentions_in(c) for c in kids(e))

    @staticmethod
    def is_manipulator(e):
        e = Flow.strip_all(e)
        if e.get("kind") == "DeclRefExpr" and e.get("referencedDecl", {}).get("kind") in ("FunctionDecl",
                                                                                          "FunctionTemplateDecl"):
            return True          # std::ws, std::fixed, …
        # std::setprecision(n), std::setw(n): a temporary manipulator object; data is extracted into lvalues
        return e.get("valueCategory") == "prvalue" and qtype(e).startswith("std::_")

    def read_expr(self, e):
        """(root, dsts, pre) if `e` is an extraction expression, else None"""
        e = self.strip_all(e)
        k = e.get("kind")
        if k == "CXXOperatorCallExpr" and self.callee_name(e) == "operator>>":
            lhs, rhs = kids(e)[1], kids(e)[2]
            inner = self.read_expr(lhs)
            if inner is None:
                r = self.stream_root(lhs)
                if r is None:
                    return None
                inner = (r, [], [self.eff(lhs)])
            root, dsts, pre = inner
            if self.is_manipulator(rhs):
                return (root, dsts, pre)
            return (root, dsts + [self.loc(rhs)], pre + [self.eff_noread(rhs)])
        if k == "CallExpr" and self.callee_name(e) in READ_FUNCS:
            a = kids(e)[1:]
            r = self.stream_root(a[0])
            if r is None:
                return None
            inner = self.read_expr(a[0])
            dsts, pre = (inner[1], inner[2]) if inner else ([], [])
            d = a[READ_FUNCS[self.callee_name(e)]]
            return (r, dsts + [self.loc(d)], pre + [self.eff_noread(x) for x in a[1:]])
        return None

    def eff_noread(self, e):
        # the operand of an extraction: evaluating it has no effect of its own beside nested calls
        s = self.strip_all(e)
        if s.get("kind") in ("DeclRefExpr", "MemberExpr", "CXXThisExpr"):
            return ("skip",)
        if s.get("kind") == "UnaryOperator" and s.get("opcode") in ("&", "*"):
            return self.eff_noread(kids(s)[0])
        return self.eff(e)

    def read_atoms(self, rd, chk):
        root, dsts, pre = rd
        if root == "in" and not dsts and chk is None:
            return seq(*pre)          # manipulators only (`in >> std::fixed >> std::setprecision(n)`): no extraction
        if root == "in":
            return seq(*pre, ("read", dsts, chk))
        # a local stream: plain writes of the destinations (the check, if any, is a test on local data)
        w = seq(*pre, *[("asg", d) for d in dsts])
        return w if chk is None else seq(w, ("branch", ("fail", chk), ("skip",)))

    # ---- nested loads / constructors -----------------------------------------------------------------
    def entry(self, key):
        key = ALIASES.get(key, key)
        if key not in self.index_of:
            # the type may be spelled without its defaulted template arguments
            cand = [k for k in self.index_of if same_upto_defaults(key, k)]
            if len(cand) == 1:
                return self.index_of[cand[0]]
            cand = [k for k in ALIASES if same_upto_defaults(key, k)]
            if len(cand) == 1:
                return self.index_of[ALIASES[cand[0]]]
            # … or without its namespaces (clang prints the type as written)
            cand = [k for k in self.index_of if k.endswith("::" + key)]
            if len(cand) == 1:
                return self.index_of[cand[0]]
        if key not in self.index_of:
            raise Refuse("%s: nested load / stream constructor %s is not in the table" % (self.key, key))
        return self.index_of[key]

    def load_call(self, e):
        """(entry, obj location, pre) if `e` is obj.load(in, …) / load_impl / load_, else None"""
        e = self.strip_all(e)
        if e.get("kind") != "CXXMemberCallExpr":
            return None
        me = self.strip(kids(e)[0])
        if me.get("kind") != "MemberExpr" or me.get("name") not in LOAD_NAMES:
            return None
        args = kids(e)[1:]
        if not args or self.stream_root(args[0]) != "in":
            if any(self.mentions_in(a) for a in args):
                raise Refuse("%s: load called with the stream in an unexpected position" % self.key)
            return None
        obj = kids(me)[0]
        cls = norm_type(qtype(obj))
        return (self.entry(cls + "::" + me.get("name")), self.loc(obj),
                [self.eff(obj)] + [self.eff(a) for a in args[1:]])

    def ctor_key(self, t):
        return norm_type(t) + "::(ctor)"

    # ---- expressions -------------------------------------------------------------------------------
    def eff(self, e):
        k = e.get("kind")
        if k is None or k in TL.LEAF:
            return ("skip",)
        if k == "MemberExpr":
            return self.eff(kids(e)[0])
        if k == "CXXThrowExpr":
            ks = kids(e)
            kind = "throwFmt" if ks and "data_format" in qtype(ks[0]) else "throwOther"
            return seq(*[self.eff(c) for c in ks], ("fail", kind))
        rd = self.read_expr(e)
        if rd is not None:
            return self.read_atoms(rd, None)
        lc = self.load_call(e)
        if lc is not None:
            return seq(*lc[2], ("sub", lc[0], lc[1], None))
        if k in ("BinaryOperator", "CompoundAssignOperator"):
            a, b = kids(e)
            if e.get("opcode") in ("&&", "||"):
                return seq(self.eff(a), ("branch", self.eff(b), ("skip",)))
            w = ("asg", self.loc(a)) if e.get("opcode") in ASSIGN_OPS else ("skip",)
            return seq(self.eff(a), self.eff(b), w)
        if k == "UnaryOperator":
            a = kids(e)[0]
            w = ("asg", self.loc(a)) if e.get("opcode") in ("++", "--") else ("skip",)
            return seq(self.eff(a), w)
        if k == "CXXOperatorCallExpr":
            name = self.callee_name(e)
            args = kids(e)[1:]
            pre = [self.eff(a) for a in args]
            if name in ASSIGN_OPERATORS and args and not self.is_const_view(args[0]):
                return seq(*pre, ("asg", self.loc(args[0])))
            if name == "operator>>":
                raise Refuse("%s: operator>> on something that is not a stream" % self.key)
            if name not in PURE_OPERATORS:
                raise Refuse("%s: operator %s not classified" % (self.key, name))
            if any(self.stream_root(a) == "in" for a in args) and name not in ("operator!", "operator bool"):
                raise Refuse("%s: stream used with %s" % (self.key, name))
            return seq(*pre)
        if k == "CXXMemberCallExpr":
            me = self.strip(kids(e)[0])
            args = kids(e)[1:]
            if me.get("kind") != "MemberExpr":
                # call through a pointer to function / member (the factory of serialize::lambda)
                return self.indirect(e, args)
            obj = kids(me)[0]
            name = me.get("name")
            if self.stream_root(obj) == "in":
                if name in STREAM_NEUTRAL:
                    return seq(*[self.eff(a) for a in args])
                raise Refuse("%s: stream member %s not classified" % (self.key, name))
            pre = [self.eff(obj)] + [self.eff(a) for a in args]
            if any(self.stream_root(a) == "in" for a in args):
                # the stream goes into a container member function: emplace_back(in, ss) constructs an element
                if name in ("emplace_back", "emplace"):
                    el = self.element_type(qtype(obj))
                    return seq(*pre, ("sub", self.entry(self.ctor_key(el)), self.loc(obj), None))
                raise Refuse("%s: stream handed to member function %s" % (self.key, name))
            argw = [("asg", self.loc(a)) for a in args if self.arg_writes2(a)]
            if not self.is_const_view(obj) and not qtype(self.strip(obj)).startswith("const "):
                return seq(*pre, *argw, ("asg", self.loc(obj)))
            return seq(*pre, *argw)
        if k == "CallExpr":
            name = None
            f = self.strip(kids(e)[0])
            if f.get("kind") == "DeclRefExpr":
                name = f.get("referencedDecl", {}).get("name")
            args = kids(e)[1:]
            if name is None:
                return self.indirect(e, args)
            if name in STREAM_NEUTRAL and args and self.stream_root(args[0]) is not None:
                return seq(*[self.eff(a) for a in args[1:]])
            if any(self.stream_root(a) == "in" for a in args):
                if name == "make_unique":
                    m = re.match(r"^std::unique_ptr<(.*)>$", re.sub(r",\s*std::default_delete<.*>\s*>$", ">",
                                                                    norm_type(qtype(e))))
                    if not m:
                        raise Refuse("%s: make_unique of %s" % (self.key, qtype(e)))
                    return seq(*[self.eff(a) for a in args[1:]], ("sub", self.entry(self.ctor_key(m.group(1))),
                                                                  ("ext",), None))
                raise Refuse("%s: stream handed to function %s (not classified)" % (self.key, name))
            pre = [self.eff(a) for a in args]
            argw = [("asg", self.loc(a)) for a in args if self.arg_writes2(a)]
            return seq(*pre, *argw)
        if k in ("CXXConstructExpr", "CXXTemporaryObjectExpr", "CXXNewExpr", "CXXUnresolvedConstructExpr"):
            ks = kids(e)
            if any(self.stream_root(a) == "in" for a in ks):
                if norm_type(qtype(e)) in NEUTRAL_CTORS:
                    return ("skip",)
                return seq(*[self.eff(a) for a in ks if self.stream_root(a) != "in"],
                           ("sub", self.entry(self.ctor_key(qtype(e))), self.cur_obj, None))
            if norm_type(qtype(e)).startswith(LOCK_CTORS):
                return ("skip",)
            pre = [self.eff(a) for a in ks]
            argw = [("asg", self.loc(a)) for a in ks if self.arg_writes2(a)]
            return seq(*pre, *argw)
        if k == "LambdaExpr":
            body = [c for c in kids(e) if c.get("kind") == "CompoundStmt"]
            if not body:
                return ("skip",)
            self.ret.append("other")
            b = self.stmt(body[0])
            self.ret.pop()
            return ("loop", b)
        if k in TL.TRANSPARENT:
            return seq(*[self.eff(c) for c in kids(e)])
        raise Refuse("%s: expression kind %s not handled" % (self.key, k))

    def indirect(self, e, args):
        if any(self.stream_root(a) == "in" for a in args):
            if not self.dyn_targets:
                raise Refuse("%s: indirect call receiving the stream" % self.key)
            r = ("sub", self.dyn_targets[-1], ("ext",), None)
            for t in reversed(self.dyn_targets[:-1]):
                r = ("branch", ("sub", t, ("ext",), None), r)
            return seq(*[self.eff(a) for a in args if self.stream_root(a) != "in"], r)
        return seq(*[self.eff(c) for c in kids(e)])

    @staticmethod
    def element_type(t):
        t = norm_type(t)
        m = re.match(r"^std::vector<(.*)>$", t)
        if not m:
            raise Refuse("emplace_back on %s" % t)
        inner = m.group(1)
        # drop a trailing allocator argument
        depth = 0
        for i, ch in enumerate(inner):
            if ch == "<":
                depth += 1
            elif ch == ">":
                depth -= 1
            elif ch == "," and depth == 0 and "allocator" in inner[i:]:
                return inner[:i].strip()
        return inner.strip()

    def arg_writes2(self, a):
        """an argument position hands an object out in a writable way (any location)"""
        s = a
        while True:
            k = s.get("kind")
            if k in ("ParenExpr", "ExprWithCleanups", "MaterializeTemporaryExpr", "CXXBindTemporaryExpr") and \
                    len(kids(s)) == 1:
                s = kids(s)[0]
            elif k == "ImplicitCastExpr" and s.get("castKind") in ("NoOp", "DerivedToBase", "UncheckedDerivedToBase") \
                    and len(kids(s)) == 1:
                if qtype(s).startswith("const "):
                    return False          # bound to a reference / pointer to const
                s = kids(s)[0]
            else:
                break
        if s.get("kind") == "ImplicitCastExpr":
            return False                  # LValueToRValue and the value conversions: passed by value
        if self.is_const_view(s) or self.stream_root(s) is not None:
            return False
        if s.get("kind") == "UnaryOperator" and s.get("opcode") == "&":
            inner = kids(s)[0]
            return not qtype(inner).startswith("const ") and self.loc(inner)[0] != "ext"
        if s.get("valueCategory") not in ("lvalue", "xvalue"):
            return False
        if s.get("kind") == "DeclRefExpr" and s.get("referencedDecl", {}).get("kind") not in ("VarDecl", "ParmVarDecl",
                                                                                            "BindingDecl"):
            return False
        if s.get("kind") == "CallExpr" and self.callee_name(s) in ("move", "forward"):
            return self.arg_writes2(kids(s)[1])
        return self.loc(s)[0] != "ext"

    # ---- conditions ---------------------------------------------------------------------------------
    def negated(self, c):
        """X if c is `!X` (built-in or the stream's operator!), else None"""
        c = self.strip_all(c)
        if c.get("kind") == "UnaryOperator" and c.get("opcode") == "!":
            return kids(c)[0]
        if c.get("kind") == "CXXOperatorCallExpr" and self.callee_name(c) == "operator!":
            return kids(c)[1]
        return None

    def fail_if(self, c, k):
        """IR of `if (c) <leave with k>`"""
        s = self.strip_all(c)
        if s.get("kind") == "BinaryOperator" and s.get("opcode") == "||":
            a, b = kids(s)
            return seq(self.fail_if(a, k), self.fail_if(b, k))
        if s.get("kind") == "BinaryOperator" and s.get("opcode") == "&&":
            a, b = kids(s)
            return seq(self.eff(a), ("branch", self.fail_if(b, k), ("skip",)))
        n = self.negated(s)
        if n is not None:
            return self.fail_unless(n, k)
        return seq(self.eff(c), ("branch", ("fail", k), ("skip",)))

    def fail_unless(self, c, k):
        """IR of `if (!c) <leave with k>`"""
        s = self.strip_all(c)
        if s.get("kind") == "BinaryOperator" and s.get("opcode") == "&&":
            a, b = kids(s)
            return seq(self.fail_unless(a, k), self.fail_unless(b, k))
        n = self.negated(s)
        if n is not None:
            return self.fail_if(n, k)
        rd = self.read_expr(s)
        if rd is not None:
            return self.read_atoms(rd, k)
        lc = self.load_call(s)
        if lc is not None:
            return seq(*lc[2], ("sub", lc[0], lc[1], k))
        if s.get("kind") == "CXXBoolLiteralExpr":
            return ("skip",) if s.get("value") else ("fail", k)
        return seq(self.eff(c), ("branch", ("fail", k), ("skip",)))

    def pure_fail(self, s):
        """k if the statement is exactly `return false;` / `return nullptr;` / `throw …;`"""
        k = s.get("kind")
        if k == "CompoundStmt" and len(kids(s)) == 1:
            return self.pure_fail(kids(s)[0])
        if k == "ReturnStmt" and kids(s):
            v = self.strip_all(kids(s)[0])
            if v.get("kind") == "CXXBoolLiteralExpr" and not v.get("value"):
                return "retFalse"
            if v.get("kind") in ("CXXNullPtrLiteralExpr", "GNUNullExpr"):
                return "retNull"
            if self.ret[-1] == "ptr" and v.get("kind") == "CXXConstructExpr" and \
                    [self.strip_all(c).get("kind") for c in kids(v)] == ["CXXNullPtrLiteralExpr"]:
                return "retNull"
            return None
        if k in ("ExprWithCleanups", "CXXThrowExpr"):
            t = self.strip_all(s) if k != "CXXThrowExpr" else s
            if t.get("kind") == "CXXThrowExpr":
                ks = kids(t)
                if all(self.eff(c) == ("skip",) for c in ks):
                    return "throwFmt" if ks and "data_format" in qtype(ks[0]) else "throwOther"
        return None

    # ---- statements ---------------------------------------------------------------------------------
    def bind(self, v, init):
        """aliases: references / pointers bound to a location"""
        t = v.get("type", {}).get("qualType", "")
        if ("&" in t and not t.lstrip().startswith("const ")) or t.rstrip().endswith("*"):
            l = self.loc(init)
            if l[0] != "ext" or True:
                self.alias_loc[v.get("id")] = l

    def decl(self, d):
        out = []
        for v in kids(d):
            if v.get("kind") == "VarDecl":
                self.tmp(v)
                init = [c for c in kids(v) if "Expr" in c.get("kind", "") or c.get("kind", "").endswith("Operator")
                        or c.get("kind") in ("InitListExpr",)]
                for i in init:
                    old, self.cur_obj = self.cur_obj, self.tmp(v)
                    out.append(self.eff(i))
                    self.cur_obj = old
                    self.bind(v, i)
            elif v.get("kind") in ("TypedefDecl", "TypeAliasDecl", "StaticAssertDecl", "UsingDecl", "CXXRecordDecl"):
                pass
            else:
                raise Refuse("%s: declaration kind %s not handled" % (self.key, v.get("kind")))
        return seq(*out)

    def stmt(self, s):
        k = s.get("kind")
        if k is None:
            return ("skip",)
        if k == "CompoundStmt":
            return seq(*[self.stmt(c) for c in kids(s)])
        if k == "DeclStmt":
            return self.decl(s)
        if k == "NullStmt":
            return ("skip",)
        pf = self.pure_fail(s)
        if pf is not None:
            return ("fail", pf)
        if k == "ReturnStmt":
            ks = kids(s)
            if not ks:
                return ("skip",)
            mode = self.ret[-1]
            v = self.strip_all(ks[0])
            if mode == "bool":
                return self.fail_unless(ks[0], "retFalse")
            # pointer / value returning functions: the value of a nested call, or a local
            return self.eff(ks[0])
        if k == "IfStmt":
            inner = s.get("inner", [])
            pos = 0
            pre = []
            if s.get("hasInit"):
                pre.append(self.stmt(inner[pos])); pos += 1
            if s.get("hasVar"):
                pre.append(self.stmt(inner[pos])); pos += 1
            cond_node = inner[pos]; pos += 1
            then_node = inner[pos]; pos += 1
            els_node = inner[pos] if s.get("hasElse") and pos < len(inner) else None
            pf = self.pure_fail(then_node)
            if pf is not None and els_node is None:
                return seq(*pre, self.fail_if(cond_node, pf))
            if els_node is not None:
                pe = self.pure_fail(els_node)
                if pe is not None:
                    return seq(*pre, self.fail_unless(cond_node, pe), self.stmt(then_node))
            return seq(*pre, self.eff(cond_node),
                       ("branch", self.stmt(then_node), self.stmt(els_node) if els_node is not None else ("skip",)))
        if k == "ForStmt":
            inner = s.get("inner", [])
            init, condvar, cond, inc, body = (inner + [{}] * 5)[:5]
            return seq(self.stmt(init) if init.get("kind", "").endswith("Stmt") else self.eff(init),
                       ("loop", seq(self.stmt(condvar), self.eff(cond), self.stmt(body), self.eff(inc))))
        if k == "CXXForRangeStmt":
            inner = s.get("inner", [])
            decls = [c for c in inner if c.get("kind") == "DeclStmt"]
            body = inner[-1]
            pre = []
            if decls:
                rv = kids(decls[0])[0]
                ri = [c for c in kids(rv) if c.get("kind")]
                lv = kids(decls[-1])[0]
                self.tmp(lv)
                if ri:
                    pre.append(self.eff(ri[0]))
                    t = lv.get("type", {}).get("qualType", "")
                    if "&" in t and not t.lstrip().startswith("const ") and not self.is_const_view(ri[0]):
                        self.alias_loc[lv.get("id")] = self.loc(ri[0])      # an element of the range
            return seq(*pre, ("loop", self.stmt(body)))
        if k in ("WhileStmt", "DoStmt"):
            ks = kids(s)
            if k == "WhileStmt":
                cond, body = ks[-2], ks[-1]
            else:
                body, cond = ks[0], ks[1]
            return ("loop", seq(self.eff(cond), self.stmt(body)))
        if k in ("BreakStmt", "ContinueStmt"):
            return ("skip",)
        if k.endswith("Expr") or k.endswith("Operator") or k == "ExprWithCleanups":
            return self.eff(s)
        raise Refuse("%s: statement kind %s not handled" % (self.key, k))

    # ---- a whole function ----------------------------------------------------------------------------
    def function(self, d):
        for p in kids(d):
            if p.get("kind") == "ParmVarDecl":
                self.tmp(p)
                if "istream" in qtype(p) and "&" in p.get("type", {}).get("qualType", ""):
                    self.stream_ids.add(p.get("id"))
        if not self.stream_ids:
            raise Refuse("%s: no std::istream & parameter" % self.key)
        out = []
        cls = None
        for c in kids(d):
            if c.get("kind") == "CXXCtorInitializer":
                ex = kids(c)
                if c.get("anyInit"):
                    fld = c["anyInit"]
                    if cls is None:
                        cls = self.key.rsplit("::", 1)[0]
                    obj = ("mem", self.members.index(cls + "::" + fld.get("name", "?")))
                else:
                    obj = ("self",)           # base-class subobject / delegating constructor
                old, self.cur_obj = self.cur_obj, obj
                for x in ex:
                    out.append(self.eff(x))
                self.cur_obj = old
        body = [c for c in kids(d) if c.get("kind") == "CompoundStmt"]
        if not body:
            raise Refuse("%s: no body" % self.key)
        out.append(self.stmt(body[0]))
        return seq(*out)


# ---- locating the definitions ----------------------------------------------------------------------
def find_def(docs, how, key):
    if how[0] == "method":
        _, cls, name = how
        owners = {d.get("id") for d in docs if d.get("kind") in ("CXXRecordDecl", "ClassTemplateSpecializationDecl")
                  and d.get("name") == cls}
        for d in docs:
            if d.get("kind") == "CXXMethodDecl" and d.get("name") == name and TL.has_body(d) and \
                    d.get("parentDeclContextId") and (not owners or d.get("parentDeclContextId") in owners):
                return d
        raise Refuse("out-of-line definition of %s::%s not found" % (cls, name))
    if how[0] == "func":
        _, name, args = how
        want = [TL_norm(a) for a in args]

        def walk(n):
            if n.get("kind") == "FunctionTemplateDecl" and n.get("name") == name:
                for f in kids(n):
                    if f.get("kind") == "FunctionDecl" and TL.has_body(f):
                        ta = [TL_norm(a) for a in TL.template_args(f)]
                        if ta[:len(want)] == want:
                            return f
            for c in n.get("inner", []):
                if isinstance(c, dict) and c.get("kind") in ("NamespaceDecl", "FunctionTemplateDecl"):
                    r = walk(c)
                    if r is not None:
                        return r
            return None

        for d in docs:
            r = walk(d)
            if r is not None:
                return r
        raise Refuse("specialization %s not found (is it instantiated in tools/tu/%s?)" % (key, TU))
    tmpl, args, name = how[1], how[2], how[3]
    field = how[4] if len(how) > 4 else None
    want = [TL_norm(a) for a in args]

    def has_field(n):
        if field is None:
            return True
        return any(c.get("kind") == "FieldDecl" and c.get("name") == field[0] and
                   field[1] in c.get("type", {}).get("qualType", "") for c in kids(n))

    def walk(n):
        if n.get("kind") == "ClassTemplateSpecializationDecl" and n.get("name") == tmpl:
            ta = [TL_norm(a) for a in TL.template_args(n)]
            if ta[:len(want)] == want and has_field(n):
                for m in kids(n):
                    if name == "(ctor)":
                        if m.get("kind") == "CXXConstructorDecl" and TL.has_body(m) and \
                                "istream" in m.get("type", {}).get("qualType", ""):
                            return m
                    elif m.get("kind") == "CXXMethodDecl" and m.get("name") == name and TL.has_body(m):
                        return m
        for c in n.get("inner", []):
            if isinstance(c, dict) and c.get("kind") in ("ClassTemplateDecl", "ClassTemplateSpecializationDecl",
                                                         "NamespaceDecl"):
                r = walk(c)
                if r is not None:
                    return r
        return None

    for d in docs:
        r = walk(d)
        if r is not None:
            return r
    raise Refuse("definition of %s not found (is it instantiated in tools/tu/%s?)" % (key, TU))


def TL_norm(a):
    a = re.sub(r"\s+", " ", str(a).strip())
    return {"true": "1", "false": "0", "-1": "1"}.get(a, a)


def translate():
    index_of = {t[0]: i for i, t in enumerate(TARGETS)}
    filters = sorted({t[1] for t in TARGETS})
    c12_ast.prefetch(filters)
    dumps = {f: c12_ast.dump(f) for f in filters}
    members = Members()
    dyn = [index_of[t[0]] for t in TARGETS if t[0].startswith("vita::serialize::lambda::detail::build<")]
    out = []
    for key, filt, how, kind in TARGETS:
        d = find_def(dumps[filt], how, key)
        rt = d.get("type", {}).get("qualType", "")
        mode = "void" if d.get("kind") == "CXXConstructorDecl" else "bool" if rt.startswith("bool") else \
            "ptr" if "unique_ptr" in rt else "other"
        fn = Flow(key, index_of, members, mode, dyn)
        body = fn.function(d)
        out.append((key, kind, body, sorted(fn.locals.values())))
    return out, members.names


def render(entries, members):
    n = len(entries)
    L = ["/- GENERATED by tools/translate_flow.py from the clang AST of the load functions and stream constructors",
         "   of the current working tree — do not edit.  One entry per function, in the order of `names`. -/",
         "import Vita.C12.Flow",
         "namespace Vita.C12.GenF",
         "open Vita.C12.Flow",
         "",
         "def memberNames : List String := ["]
    L += ["  \"%s\"%s" % (m, "," if i + 1 < len(members) else "") for i, m in enumerate(members)]
    L += ["]", "", "def names : List String := ["]
    L += ["  \"%s\"%s" % (k, "," if i + 1 < n else "") for i, (k, _, _, _) in enumerate(entries)]
    L += ["]", "", "/-- load = must be commit-last; weak = documented \"could be changed\"; ctor = stream constructor; builder =",
          "    serialize::lambda::detail::build<U>; factory = serialize::lambda::load<T> -/",
          "def kinds : List Kind := ["]
    L += ["  .%s%s" % (kd, "," if i + 1 < n else "") for i, (_, kd, _, _) in enumerate(entries)]
    L += ["]", "", "/-- the documented ways of reporting failure, per entry -/", "def allowTab : List (List FK) := ["]
    L += ["  [%s]%s" % (", ".join("." + a for a in ALLOW[kd]), "," if i + 1 < n else "")
          for i, (_, kd, _, _) in enumerate(entries)]
    L += ["]", "", "def table : List Stmt := ["]
    for i, (k, kd, t, locs) in enumerate(entries):
        L.append("  -- %d: %s   [%s]   locals: %s" % (i, k, kd, " ".join("%d=%s" % (j, nm) for j, nm in locs) or "-"))
        L.append("  %s%s" % (lean(t), "," if i + 1 < n else ""))
    L += ["]", "", "end Vita.C12.GenF", ""]
    return "\n".join(L)


def emit(path):
    entries, members = translate()
    txt = render(entries, members)
    old = open(path).read() if os.path.exists(path) else None
    if old != txt:
        with open(path, "w") as f:
            f.write(txt)
    return [k for k, _, _, _ in entries], old is not None and old != txt


if __name__ == "__main__":
    e, m = translate()
    print(render(e, m))
