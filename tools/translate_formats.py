#!/usr/bin/env python3
"""C11 — extract the FIELD SEQUENCE of every save()/load() pair from the clang AST.

Every function of the current tree that writes a persistable object to a stream or reads it back
(save / save_impl / load / load_impl / the stream constructors of the trained models / the
serialize:: entry points / evaluator_proxy and search file handling) is abstracted to a term of
`Vita.C11.Fmt.Fmt` (lean/Vita/C11/Format.lean):

    sep c        `out << ' '`, `'\\n'`, `std::endl`, each white-space character of a string literal
    lit s        every other literal text written
    fld t name var  `out << e` / `in >> v` / `getline(in, v)` of a scalar (`var`: the local variable read into,
                 else ""): `t` is the C++ type of the operand the
                 selected `operator<<` / `operator>>` overload formats, `name` the data member the value is
                 taken from (accessor or member on *this) / ends up in (member read directly, or the member
                 the local variable is later assigned / pushed to); "?" when there is no such unique member
    manip m      `fixed`, `scientific`, `setprecision:<arg>`, `ws`, `save_flags` (SAVE_FLAGS),
                 `line_window` (a getline whose line is re-read through an istringstream)
    sub k        call of a function that receives the stream: `k` = class of the object + "::" + name
                 (constructors: "::ctor"; free functions: qualified name + template arguments)
    dyn          call through a pointer to a polymorphic base / a function pointer (the factory)
    fail         `return false`, `return nullptr`, `throw`
    seq / rep / alt     sequence; any loop (for, range-for, while, do, std algorithms taking a lambda that
                 touches the stream); `if`, `?:`, the right operand of `&&` / `||`

Statements and expressions in which no stream variable occurs are `skip`.  Anything that touches a stream in a
way not listed above makes the translator refuse: it never silently skips stream traffic.
Syntax only; Lean gives the meaning (`agrees`, `separated`) and closes the obligations by `decide`.
"""
import concurrent.futures as cf
import os
import re
import sys

sys.path.insert(0, os.path.dirname(os.path.abspath(__file__)))
from cxx2lean import Refuse, ast_dump, kids, qtype  # noqa: E402

TU = "formats_tu.cc"

IMEP = "vita::i_mep"
TEAM = "vita::team<vita::i_mep>"

# (key, dump filter, how to find the definition)
#   ("method", name)                 out-of-line member definition (top-level doc named `name`)
#   ("spec", tmpl, [args], name)     member `name` ("ctor" = the stream constructor) of tmpl<args...>
#   ("record", cls, name)            in-class member of the (explicitly specialised / plain) class `cls`
#   ("func", name, [args])           function (template specialisation with these leading arguments)
def _spec(key, tmpl, args, name):
    return (key, "vita::" + tmpl.split("::")[-1] if "::" not in tmpl else tmpl, ("spec", tmpl.split("::")[-1], args, name))


TARGETS = []


def T(key, filt, how):
    TARGETS.append((key, filt, how))


for fn in ("save", "load"):
    T("vita::hash_t::" + fn, "vita::hash_t::" + fn, ("method", fn))
    T("vita::cache::" + fn, "vita::cache::" + fn, ("method", fn))
    T("vita::basic_fitness_t<double>::" + fn, "vita::basic_fitness_t", ("spec", "basic_fitness_t", ["double"], fn))
    T("vita::matrix<int>::" + fn, "vita::matrix", ("spec", "matrix", ["int"], fn))
    T("vita::matrix<unsigned int>::" + fn, "vita::matrix", ("spec", "matrix", ["unsigned int"], fn))
    T("vita::distribution<double>::" + fn, "vita::distribution", ("spec", "distribution", ["double"], fn))
    for ind in ("i_ga", "i_de", "i_mep"):
        T("vita::individual<vita::%s>::%s" % (ind, fn), "vita::individual", ("spec", "individual", ["vita::" + ind], fn))
        T("vita::%s::%s_impl" % (ind, fn), "vita::%s::%s_impl" % (ind, fn), ("method", fn + "_impl"))
        T("vita::population<vita::%s>::%s" % (ind, fn), "vita::population", ("spec", "population", ["vita::" + ind], fn))
        T("vita::summary<vita::%s>::%s" % (ind, fn), "vita::summary", ("spec", "summary", ["vita::" + ind], fn))
    T("vita::team<vita::i_mep>::" + fn, "vita::team", ("spec", "team", [IMEP], fn))
    T("vita::detail::class_names<true>::" + fn, "vita::detail::class_names", ("method", fn))
    T("vita::detail::class_names<false>::" + fn, "vita::detail::class_names", ("spec", "class_names", ["false"], fn))
    T("vita::evaluator<vita::i_mep>::" + fn, "vita::evaluator", ("spec", "evaluator", [IMEP], fn))
    T("vita::evaluator_proxy<vita::i_mep, vita::test_evaluator<vita::i_mep>>::" + fn, "vita::evaluator_proxy",
      ("spec", "evaluator_proxy", [IMEP, "vita::test_evaluator<vita::i_mep>"], fn))
    T("vita::search<vita::i_mep, vita::std_es>::" + fn, "vita::search", ("spec", "search", [IMEP], fn))

T("vita::save_float_to_stream<double>", "vita::save_float_to_stream", ("func", "save_float_to_stream", ["double"]))
T("vita::load_float_from_stream<double>", "vita::load_float_from_stream", ("func", "load_float_from_stream", ["double"]))

LAMBDA_CLASSES = [
    # (class key, template name, template arguments)
    ("vita::detail::reg_lambda_f_storage<vita::i_mep, true, false>", "reg_lambda_f_storage", [IMEP, "true", "false"]),
    ("vita::detail::reg_lambda_f_storage<vita::team<vita::i_mep>, true, true>", "reg_lambda_f_storage", [TEAM, "true", "true"]),
    ("vita::basic_reg_lambda_f<vita::i_mep, true>", "basic_reg_lambda_f", [IMEP, "true"]),
    ("vita::basic_reg_lambda_f<vita::team<vita::i_mep>, true>", "basic_reg_lambda_f", [TEAM, "true"]),
    ("vita::basic_dyn_slot_lambda_f<vita::i_mep, true, true>", "basic_dyn_slot_lambda_f", [IMEP, "true", "true"]),
    ("vita::basic_dyn_slot_lambda_f<vita::i_mep, true, false>", "basic_dyn_slot_lambda_f", [IMEP, "true", "false"]),
    ("vita::basic_gaussian_lambda_f<vita::i_mep, true, true>", "basic_gaussian_lambda_f", [IMEP, "true", "true"]),
    ("vita::basic_gaussian_lambda_f<vita::i_mep, true, false>", "basic_gaussian_lambda_f", [IMEP, "true", "false"]),
    ("vita::basic_binary_lambda_f<vita::i_mep, true, true>", "basic_binary_lambda_f", [IMEP, "true", "true"]),
    ("vita::basic_binary_lambda_f<vita::i_mep, true, false>", "basic_binary_lambda_f", [IMEP, "true", "false"]),
    ("vita::team_class_lambda_f<vita::i_mep, true, true, vita::basic_dyn_slot_lambda_f>", "team_class_lambda_f",
     [IMEP, "true", "true", "vita::basic_dyn_slot_lambda_f"]),
    ("vita::team_class_lambda_f<vita::i_mep, true, true, vita::basic_gaussian_lambda_f>", "team_class_lambda_f",
     [IMEP, "true", "true", "vita::basic_gaussian_lambda_f"]),
    ("vita::team_class_lambda_f<vita::i_mep, true, true, vita::basic_binary_lambda_f>", "team_class_lambda_f",
     [IMEP, "true", "true", "vita::basic_binary_lambda_f"]),
]
for ck, tn, ta in LAMBDA_CLASSES:
    T(ck + "::save", "lambda_f", ("spec", tn, ta, "save"))
    T(ck + "::ctor", "lambda_f", ("spec", tn, ta, "ctor"))

T("vita::serialize::save", "vita::serialize::save", ("func", "save", ["*"]))
T("vita::serialize::lambda::load<vita::i_mep>", "vita::serialize::lambda::load", ("func", "load", [IMEP]))
T("vita::serialize::lambda::load<vita::team<vita::i_mep>>", "vita::serialize::lambda::load", ("func", "load", [TEAM]))

KEYS = {k for k, _, _ in TARGETS}

class _StreamType:
    """the type (reference / const stripped) IS an iostream class, not merely mentions one"""
    rx = re.compile(r"^std::(basic_)?(i|o|io)?(f|string)?stream(<.*>)?$")

    def search(self, t):
        return self.rx.match(norm_type(t))


STREAM_RE = _StreamType()
DYN_BASES = ("vita::basic_src_lambda_f", "vita::evaluator<")
INT_TY = {
    "unsigned short": "u16", "unsigned int": "u32", "unsigned long": "u64", "unsigned long long": "u64",
    "short": "i16", "int": "i32", "long": "i64", "long long": "i64",
    "double": "f64", "char": "chr", "signed char": "chr", "unsigned char": "chr",
}
STR_TY = ("std::basic_string<char>", "std::string", "std::__cxx11::basic_string<char>")
LOOP_ALGOS = {"any_of", "all_of", "none_of", "for_each", "generate_n", "generate", "count_if", "find_if", "transform"}
STREAM_OK_METHODS = {"good", "fail", "bad", "eof", "operator bool", "operator!", "rdstate", "clear", "flags"}
TRANSPARENT = {"ExprWithCleanups", "MaterializeTemporaryExpr", "CXXBindTemporaryExpr", "ParenExpr", "ConstantExpr",
               "ImplicitCastExpr", "CXXStaticCastExpr", "CXXFunctionalCastExpr", "CStyleCastExpr", "CXXConstCastExpr",
               "CXXReinterpretCastExpr", "CXXDefaultArgExpr", "CXXDefaultInitExpr", "SubstNonTypeTemplateParmExpr"}


# ---- terms ---------------------------------------------------------------------------------
SKIP = ("skip",)
FAIL = ("fail",)


def seq(*xs):
    xs = [x for x in xs if x != SKIP]
    if not xs:
        return SKIP
    r = xs[-1]
    for x in reversed(xs[:-1]):
        r = ("seq", x, r)
    return r


def alt(a, b):
    return SKIP if a == SKIP and b == SKIP else ("alt", a, b)


def rep(a):
    return SKIP if a == SKIP else ("rep", a)


def lstr(s):
    return '"' + s.replace("\\", "\\\\").replace('"', '\\"') + '"'


def lean(t):
    k = t[0]
    if k in ("skip", "fail", "dyn"):
        return "." + k
    if k == "sep":
        return "(.sep %d)" % t[1]
    if k == "lit":
        return "(.lit %s)" % lstr(t[1])
    if k == "fld":
        return "(.fld .%s %s %s)" % (t[1], lstr(t[2]), lstr(t[3]))
    if k == "manip":
        return "(.manip %s)" % lstr(t[1])
    if k == "sub":
        return "(.sub %s)" % lstr(t[1])
    if k == "seq":
        return "(.seq %s %s)" % (lean(t[1]), lean(t[2]))
    if k == "rep":
        return "(.rep %s)" % lean(t[1])
    if k == "alt":
        return "(.alt %s %s)" % (lean(t[1]), lean(t[2]))
    raise Refuse("internal: " + repr(t))


def text(t, ind=0):
    """human-readable rendering for the comments of the generated file"""
    k = t[0]
    pad = "  " * ind
    if k == "seq":
        return text(t[1], ind) + text(t[2], ind)
    if k == "rep":
        return pad + "loop\n" + text(t[1], ind + 1)
    if k == "alt":
        return pad + "either\n" + text(t[1], ind + 1) + pad + "or\n" + (text(t[2], ind + 1) if t[2] != SKIP else pad + "  -\n")
    if k == "sep":
        return pad + "sep %r\n" % chr(t[1])
    return pad + " ".join(str(x) for x in t) + "\n"


def norm_type(t):
    t = re.sub(r"\b(const|volatile|class|struct)\b", "", t)
    t = t.replace("*", "").replace("&", "")
    t = re.sub(r"\s+", " ", t).strip()
    t = re.sub(r"\s*<\s*", "<", t)
    t = re.sub(r"\s*>", ">", t)
    t = re.sub(r"\s*,\s*", ", ", t)
    t = t.replace("std::__cxx11::", "std::")
    # default trailing arguments that clang prints
    t = re.sub(r", \(?vita::team_composition\)?(::wta|::standard|1)?>", ">", t)
    t = re.sub(r", vita::team_composition::(wta|standard)>", ">", t)
    return t


def strip(e):
    while e.get("kind") in TRANSPARENT and len(kids(e)) == 1:
        e = kids(e)[0]
    return e


class Fn:
    """Translation of one function."""

    def __init__(self, key, decl):
        self.key = key
        self.fdecl = decl
        self.streams = set()
        self.lambdas = {}          # VarDecl id -> LambdaExpr
        self.reparsed = set()      # ids of std::string locals re-read through an istringstream
        self.subs = []
        self.accounted = set()     # ids of the stream insertions / extractions that were translated
        for p in kids(decl):
            if p.get("kind") == "ParmVarDecl" and STREAM_RE.search(qtype(p)):
                self.streams.add(p.get("id"))
        self.body = [c for c in kids(decl) if c.get("kind") == "CompoundStmt"][0]
        self.prescan(self.body)
        self.targets = {}          # local VarDecl id -> set of member names it flows to
        self.flow(self.body)

    # -- pre-passes -------------------------------------------------------------------------
    def prescan(self, n):
        if n.get("kind") == "VarDecl":
            t = qtype(n)
            if STREAM_RE.search(t) and "ios_flag_saver" not in t:
                self.streams.add(n.get("id"))
                if "istringstream" in t or "basic_istringstream" in t:
                    for r in self.refs(n):
                        self.reparsed.add(r)
            for c in kids(n):
                if strip(c).get("kind") == "LambdaExpr":
                    self.lambdas[n.get("id")] = strip(c)
        for c in n.get("inner", []):
            if isinstance(c, dict):
                self.prescan(c)

    def refs(self, n, out=None):
        out = set() if out is None else out
        if n.get("kind") == "DeclRefExpr":
            out.add(n.get("referencedDecl", {}).get("id"))
        for c in n.get("inner", []):
            if isinstance(c, dict):
                self.refs(c, out)
        return out

    def member_of(self, e):
        """last data-member component of an lvalue expression, or None"""
        e = strip(e)
        if e.get("kind") == "MemberExpr" and qtype(e) != "<bound member function type>":
            return e.get("name", "").rstrip("_")
        return None

    def flow(self, n):
        """local variable -> the data members it is assigned / pushed to"""
        k = n.get("kind")
        lhs = rhs = None
        if k in ("BinaryOperator", "CompoundAssignOperator") and n.get("opcode") == "=":
            lhs, rhs = kids(n)
        elif k == "CXXOperatorCallExpr" and self.callee(n) == "operator=":
            lhs, rhs = kids(n)[1], kids(n)[2]
        elif k == "CXXMemberCallExpr":
            me = strip(kids(n)[0])
            if me.get("kind") == "MemberExpr" and me.get("name") in ("push_back", "emplace_back") and len(kids(n)) == 2:
                lhs, rhs = kids(me)[0], kids(n)[1]
        elif k == "CXXCtorInitializer":
            pass
        if lhs is not None:
            m = self.member_of(lhs)
            if m:
                for r in self.refs(rhs):
                    self.targets.setdefault(r, set()).add(m)
        for c in n.get("inner", []):
            if isinstance(c, dict):
                self.flow(c)

    def mentions_stream(self, n):
        return bool(self.refs(n) & self.streams) or self.calls_stream_lambda(n)

    def calls_stream_lambda(self, n):
        for r in self.refs(n):
            if r in self.lambdas and bool(self.refs(self.lambdas[r]) & self.streams):
                return True
        return False

    # -- helpers ----------------------------------------------------------------------------
    def callee(self, call):
        f = strip(kids(call)[0])
        if f.get("kind") == "DeclRefExpr":
            return f.get("referencedDecl", {}).get("name")
        if f.get("kind") == "MemberExpr":
            return f.get("name")
        if f.get("kind") in ("UnresolvedLookupExpr", "UnresolvedMemberExpr", "CXXDependentScopeMemberExpr"):
            raise Refuse("%s: unresolved callee %s (template not instantiated?)" % (self.key, f.get("name")))
        return None

    def is_stream_expr(self, e):
        """expression denoting one of the streams (the variable, or a chain / manipulator applied to it)"""
        e = strip(e)
        k = e.get("kind")
        if k == "DeclRefExpr":
            return e.get("referencedDecl", {}).get("id") in self.streams
        if k == "CXXOperatorCallExpr" and self.callee(e) in ("operator<<", "operator>>"):
            return self.is_stream_expr(kids(e)[1])
        if k == "UnaryOperator" and e.get("opcode") == "*":
            return self.is_stream_expr(kids(e)[0])
        # anything else of stream type that is computed from one of the streams (a function returning the
        # stream it was given, e.g. `save_float_to_stream(out, x) << '\n'`)
        if STREAM_RE.search(qtype(e)) and bool(self.refs(e) & self.streams):
            return True
        return False

    def scalar_ty(self, e, what):
        t = qtype(e).replace("const ", "").replace("&", "").strip()
        t = t.replace("std::__cxx11::", "std::")
        if t in INT_TY:
            return INT_TY[t]
        if t in STR_TY or t.startswith("std::basic_string<char"):
            return "str" if what == "out" else "word"
        raise Refuse("%s: operand of type %r %s a stream" % (self.key, t, "written to" if what == "out" else "read from"))

    def name_of_written(self, e):
        e = strip(e)
        k = e.get("kind")
        if k == "MemberExpr":
            m = self.member_of(e)
            return m or "?"
        if k == "ArraySubscriptExpr":
            b, i = kids(e)
            bm = self.member_of(b)
            i = strip(i)
            if bm and i.get("kind") == "IntegerLiteral":
                return "%s[%s]" % (bm, i.get("value"))
            return "?"
        if k == "CXXMemberCallExpr":
            me = strip(kids(e)[0])
            if me.get("kind") == "MemberExpr" and strip(kids(me)[0]).get("kind") == "CXXThisExpr":
                return me.get("name", "?").rstrip("_")
        return "?"

    def name_of_read(self, e):
        e = strip(e)
        k = e.get("kind")
        if k == "MemberExpr":
            return self.member_of(e) or "?"
        if k == "ArraySubscriptExpr":
            return self.name_of_written(e)
        if k == "DeclRefExpr":
            t = self.targets.get(e.get("referencedDecl", {}).get("id"), set())
            if len(t) == 1:
                return next(iter(t))
        return "?"

    def var_of(self, e):
        e = strip(e)
        if e.get("kind") == "DeclRefExpr":
            return e.get("referencedDecl", {}).get("name", "")
        return ""

    def class_key(self, obj):
        t = norm_type(qtype(obj))
        return t

    def sub(self, key):
        # clang prints the class of an implicit-this call as written (`class_names<true>`): complete the
        # qualification when exactly one table entry ends with it
        if key not in KEYS:
            cand = [k for k in KEYS if k.endswith("::" + key)]
            if len(cand) == 1:
                key = cand[0]
        self.subs.append(key)
        return ("sub", key)

    # -- stream insertion / extraction ----------------------------------------------------------
    def written(self, e):
        """the right operand of `stream << e`"""
        s = strip(e)
        k = s.get("kind")
        if k == "CharacterLiteral":
            v = s.get("value")
            return ("sep", v) if chr(v).isspace() else ("lit", chr(v))
        if k == "StringLiteral":
            txt = eval(s.get("value"))       # a C string literal as printed by clang: "..."
            out, run = [], ""
            for ch in txt:
                if ch.isspace():
                    if run:
                        out.append(("lit", run)); run = ""
                    out.append(("sep", ord(ch)))
                else:
                    run += ch
            if run:
                out.append(("lit", run))
            return seq(*out)
        if k == "DeclRefExpr" and "(" in qtype(s):            # a manipulator function
            n = s.get("referencedDecl", {}).get("name")
            if n in ("endl",):
                return ("sep", 10)
            if n in ("flush",):
                return SKIP
            return ("manip", n)
        if k == "CallExpr" and self.callee(s) == "setprecision":
            return ("manip", "setprecision:" + self.render_prec(kids(s)[1]))
        if k == "CallExpr" and self.callee(s) in ("setw", "setfill"):
            raise Refuse("%s: manipulator %s changes the text written" % (self.key, self.callee(s)))
        pre = self.eff(e)          # nested effects of the operand (e.g. a call that itself writes)
        return seq(pre, ("fld", self.scalar_ty(e, "out"), self.name_of_written(e), ""))

    def render_prec(self, e):
        s = strip(e)
        if s.get("kind") == "IntegerLiteral":
            return s.get("value")
        if s.get("kind") == "BinaryOperator" and s.get("opcode") == "+":
            a, b = [strip(x) for x in kids(s)]
            if a.get("kind") == "DeclRefExpr" and a.get("referencedDecl", {}).get("name") == "digits10" and \
                    b.get("kind") == "IntegerLiteral":
                return "digits10+" + b.get("value")
        return "?"

    def extracted(self, e):
        s = strip(e)
        k = s.get("kind")
        if k == "DeclRefExpr" and "(" in qtype(s):
            return ("manip", s.get("referencedDecl", {}).get("name"))
        if k == "CallExpr" and self.callee(s) == "setprecision":
            return ("manip", "setprecision:" + self.render_prec(kids(s)[1]))
        if s.get("valueCategory") != "lvalue":
            raise Refuse("%s: extraction into a non-lvalue (%s)" % (self.key, k))
        return seq(self.eff(e), ("fld", self.scalar_ty(s, "in"), self.name_of_read(s), self.var_of(s)))

    # -- expressions ------------------------------------------------------------------------------
    def eff(self, e):
        k = e.get("kind")
        if k is None:
            return SKIP
        if not self.mentions_stream(e):
            if self.contains(e, "CXXThrowExpr"):
                return self.eff_structural(e)
            return SKIP
        if k in TRANSPARENT or k in ("UnaryOperator", "MemberExpr", "ArraySubscriptExpr", "InitListExpr"):
            return seq(*[self.eff(c) for c in kids(e)])
        if k == "DeclRefExpr":
            return SKIP
        if k == "LambdaExpr":
            return SKIP                      # creating a closure does nothing; calls are handled at the call
        if k == "CXXThrowExpr":
            return seq(*[self.eff(c) for c in kids(e)], FAIL)
        if k == "BinaryOperator":
            a, b = kids(e)
            if e.get("opcode") in ("&&", "||"):
                return seq(self.eff(a), alt(self.eff(b), SKIP))
            if e.get("opcode") == ",":
                return seq(self.eff(a), self.eff(b))
            return seq(self.eff(a), self.eff(b))
        if k == "ConditionalOperator":
            c, a, b = kids(e)
            return seq(self.eff(c), alt(self.eff(a), self.eff(b)))
        if k == "CXXOperatorCallExpr":
            return self.opcall(e)
        if k == "CXXMemberCallExpr":
            return self.memcall(e)
        if k == "CallExpr":
            return self.call(e)
        if k in ("CXXConstructExpr", "CXXTemporaryObjectExpr"):
            args = kids(e)
            if any(self.is_stream_expr(a) for a in args):
                t = norm_type(qtype(e))
                if "ios_flag_saver" in t:
                    return ("manip", "save_flags")
                if STREAM_RE.search(t):
                    return SKIP
                return seq(*[self.eff(a) for a in args if not self.is_stream_expr(a)], self.sub(t + "::ctor"))
            return seq(*[self.eff(a) for a in args])
        raise Refuse("%s: expression kind %s touches a stream and is not handled" % (self.key, k))

    def contains(self, n, kind):
        if n.get("kind") == kind:
            return True
        return any(isinstance(c, dict) and self.contains(c, kind) for c in n.get("inner", []))

    def eff_structural(self, e):
        k = e.get("kind")
        if k == "CXXThrowExpr":
            return FAIL
        if k == "ConditionalOperator":
            c, a, b = kids(e)
            return seq(self.eff_structural(c), alt(self.eff_structural(a), self.eff_structural(b)))
        if k == "LambdaExpr":
            return SKIP
        return seq(*[self.eff_structural(c) for c in kids(e)])

    def opcall(self, e):
        name = self.callee(e)
        args = kids(e)[1:]
        if name in ("operator<<", "operator>>") and len(args) == 2 and self.is_stream_expr(args[0]):
            self.accounted.add(e.get("id"))
            left = self.eff(args[0])
            return seq(left, self.written(args[1]) if name == "operator<<" else self.extracted(args[1]))
        if name == "operator()":
            f = strip(args[0])
            if f.get("kind") == "DeclRefExpr" and f.get("referencedDecl", {}).get("id") in self.lambdas:
                return seq(*[self.eff(a) for a in args[1:]], self.lambda_body(self.lambdas[f["referencedDecl"]["id"]]))
            if any(self.is_stream_expr(a) for a in args[1:]):
                return seq(*[self.eff(a) for a in args[1:] if not self.is_stream_expr(a)], ("dyn",))
        if name in ("operator!", "operator bool") and len(args) == 1:
            return self.eff(args[0])
        if any(self.is_stream_expr(a) for a in args):
            raise Refuse("%s: operator %s applied to a stream" % (self.key, name))
        return seq(*[self.eff(a) for a in args])

    def lambda_body(self, lam):
        # a generic lambda: the body of the LambdaExpr is a template; the instantiated call operators hang
        # under the closure class
        insts = []
        for rec in kids(lam):
            if rec.get("kind") == "CXXRecordDecl":
                for ft in kids(rec):
                    if ft.get("kind") == "FunctionTemplateDecl" and ft.get("name") == "operator()":
                        for m in kids(ft):
                            if m.get("kind") == "CXXMethodDecl" and has_body(m) and \
                                    any(c.get("kind") == "TemplateArgument" for c in kids(m)):
                                insts.append([c for c in kids(m) if c.get("kind") == "CompoundStmt"][0])
                        if not insts:
                            raise Refuse("%s: generic lambda without an instantiated call operator" % self.key)
        if insts:
            r = self.stmt(insts[0])
            for b in insts[1:]:
                r = alt(r, self.stmt(b))
            return r
        body = [c for c in kids(lam) if c.get("kind") == "CompoundStmt"]
        return self.stmt(body[0]) if body else SKIP

    def memcall(self, e):
        me = strip(kids(e)[0])
        args = kids(e)[1:]
        if me.get("kind") != "MemberExpr":
            raise Refuse("%s: member call through %s" % (self.key, me.get("kind")))
        obj = kids(me)[0]
        name = me.get("name")
        if self.is_stream_expr(obj):
            if name in STREAM_OK_METHODS:
                return seq(self.eff(obj), *[self.eff(a) for a in args])
            raise Refuse("%s: stream method %s()" % (self.key, name))
        pre = [self.eff(obj)] + [self.eff(a) for a in args if not self.is_stream_expr(a)]
        if any(self.is_stream_expr(a) for a in args):
            if name in ("emplace_back", "emplace"):
                t = norm_type(qtype(obj))
                m = re.match(r"std::vector<(.*?)(, std::allocator<.*>)?>$", t)
                if not m:
                    raise Refuse("%s: emplace_back(stream) on %s" % (self.key, t))
                return seq(*pre, self.sub(m.group(1) + "::ctor"))
            cls = self.class_key(obj)
            if cls.startswith(DYN_BASES) and me.get("isArrow"):
                return seq(*pre, ("dyn",))
            return seq(*pre, self.sub(cls + "::" + name))
        return seq(*pre)

    def call(self, e):
        name = self.callee(e)
        args = kids(e)[1:]
        f = strip(kids(e)[0])
        if name == "getline":
            s, var = args[0], strip(args[1])
            pre = self.eff(s)
            if var.get("kind") == "DeclRefExpr" and var.get("referencedDecl", {}).get("id") in self.reparsed:
                return seq(pre, ("manip", "line_window"))
            return seq(pre, ("fld", "line", self.name_of_read(var), self.var_of(var)))
        if name == "ws" and len(args) == 1:
            return ("manip", "ws")
        if name in LOOP_ALGOS:
            lams = [strip(a) for a in args if strip(a).get("kind") == "LambdaExpr"]
            lams += [self.lambdas[strip(a)["referencedDecl"]["id"]] for a in args
                     if strip(a).get("kind") == "DeclRefExpr" and strip(a).get("referencedDecl", {}).get("id") in self.lambdas]
            others = [self.eff(a) for a in args if strip(a).get("kind") != "LambdaExpr"]
            return seq(*others, rep(seq(*[self.lambda_body(l) for l in lams])))
        if f.get("kind") != "DeclRefExpr":
            if any(self.is_stream_expr(a) for a in args):
                return seq(*[self.eff(a) for a in args if not self.is_stream_expr(a)], ("dyn",))
            return seq(*[self.eff(a) for a in args])
        if any(self.is_stream_expr(a) for a in args):
            pre = [self.eff(a) for a in args if not self.is_stream_expr(a)]
            fd = f.get("referencedDecl", {})
            if name in ("save_float_to_stream", "load_float_from_stream"):
                return seq(*pre, self.sub("vita::%s<double>" % name))
            if name == "save" and "basic_src_lambda_f" in qtype(f):
                return seq(*pre, self.sub("vita::serialize::save"))
            raise Refuse("%s: call of %s (%s) with a stream argument" % (self.key, name, fd.get("type", {}).get("qualType")))
        return seq(*[self.eff(a) for a in args])

    # -- statements -------------------------------------------------------------------------------
    def decl(self, d):
        out = []
        for v in kids(d):
            if v.get("kind") == "VarDecl":
                t = qtype(v)
                inits = [c for c in kids(v) if c.get("kind")]
                if "ios_flag_saver" in t and any(self.mentions_stream(c) for c in inits):
                    out.append(("manip", "save_flags"))
                    continue
                for i in inits:
                    out.append(self.eff(i))
            elif v.get("kind") in ("TypedefDecl", "TypeAliasDecl", "StaticAssertDecl", "UsingDecl", "CXXRecordDecl",
                                   "UsingDirectiveDecl"):
                pass
            else:
                raise Refuse("%s: declaration kind %s not handled" % (self.key, v.get("kind")))
        return seq(*out)

    def terminates(self, s):
        """the statement always leaves the function"""
        k = s.get("kind")
        if k == "ReturnStmt" or k == "CXXThrowExpr":
            return True
        if k == "ExprWithCleanups":
            return any(self.terminates(c) for c in kids(s))
        if k == "CompoundStmt":
            ks = kids(s)
            return bool(ks) and self.terminates(ks[-1])
        if k == "IfStmt" and s.get("hasElse"):
            inner = [c for c in s.get("inner", [])]
            return self.terminates(inner[-2]) and self.terminates(inner[-1])
        return False

    def block(self, stmts):
        """a statement list; `if (c) { …; return …; }  rest`  is  `c; either { … } or { rest }`"""
        out = []
        for i, s in enumerate(stmts):
            if s.get("kind") == "IfStmt" and not s.get("hasInit") and not s.get("hasVar"):
                inner = s.get("inner", [])
                cond, then = inner[0], inner[1]
                els = inner[2] if s.get("hasElse") and len(inner) > 2 else None
                if self.terminates(then) and (els is None or not self.terminates(els)):
                    rest = self.block(([els] if els is not None else []) + list(stmts[i + 1:]))
                    out.append(seq(self.eff(cond), alt(self.stmt(then), rest)))
                    return seq(*out)
            out.append(self.stmt(s))
        return seq(*out)

    def stmt(self, s):
        k = s.get("kind")
        if k is None:
            return SKIP
        if k == "CompoundStmt":
            return self.block(kids(s))
        if k == "DeclStmt":
            return self.decl(s)
        if k == "NullStmt":
            return SKIP
        if k == "ReturnStmt":
            ks = kids(s)
            if not ks:
                return SKIP
            v = strip(ks[0])
            while v.get("kind") in ("CXXConstructExpr",) and len(kids(v)) == 1:
                v = strip(kids(v)[0])
            if v.get("kind") == "CXXBoolLiteralExpr":
                return SKIP if v.get("value") else FAIL
            if v.get("kind") == "CXXNullPtrLiteralExpr":
                return FAIL
            return self.eff(ks[0])
        if k == "IfStmt":
            inner = s.get("inner", [])
            pos = 0
            pre = []
            if s.get("hasInit"):
                pre.append(self.stmt(inner[pos])); pos += 1
            if s.get("hasVar"):
                pre.append(self.stmt(inner[pos])); pos += 1
            cond = self.eff(inner[pos]); pos += 1
            then = self.stmt(inner[pos]); pos += 1
            els = self.stmt(inner[pos]) if s.get("hasElse") and pos < len(inner) else SKIP
            return seq(*pre, cond, alt(then, els))
        if k == "ForStmt":
            inner = s.get("inner", [])
            init, condvar, cond, inc, body = (inner + [{}] * 5)[:5]
            return seq(self.stmt(init) if init.get("kind", "").endswith("Stmt") else self.eff(init),
                       rep(seq(self.stmt(condvar), self.eff(cond), self.stmt(body), self.eff(inc))))
        if k == "CXXForRangeStmt":
            inner = s.get("inner", [])
            decls = [c for c in inner if c.get("kind") == "DeclStmt"]
            body = inner[-1]
            pre = [self.decl(decls[0])] if decls else []
            return seq(*pre, rep(self.stmt(body)))
        if k in ("WhileStmt", "DoStmt"):
            ks = kids(s)
            if k == "WhileStmt":
                cond, body = ks[-2], ks[-1]
            else:
                body, cond = ks[0], ks[1]
            return rep(seq(self.eff(cond), self.stmt(body)))
        if k in ("BreakStmt", "ContinueStmt"):
            return SKIP
        if k.endswith("Expr") or k.endswith("Operator") or k.endswith("Literal") or k == "ExprWithCleanups":
            return self.eff(s)
        if not self.mentions_stream(s) and not self.contains(s, "CXXThrowExpr") and not self.contains(s, "ReturnStmt"):
            return SKIP
        raise Refuse("%s: statement kind %s not handled" % (self.key, k))

    def translate(self):
        pre = []
        if self.fdecl.get("kind") == "CXXConstructorDecl":
            for ci in kids(self.fdecl):
                if ci.get("kind") == "CXXCtorInitializer":
                    for c in kids(ci):
                        pre.append(self.eff(c))
        r = seq(*pre, self.stmt(self.body))
        self.audit(self.fdecl, False)
        return r

    def audit(self, n, in_template):
        """every `<<` / `>>` applied to an iostream inside the function must have been translated"""
        k = n.get("kind")
        if k == "CXXOperatorCallExpr" and not in_template:
            ks = kids(n)
            f = strip(ks[0]) if ks else {}
            nm = f.get("referencedDecl", {}).get("name") if f.get("kind") == "DeclRefExpr" else None
            # (a `<<` on a stream that is not computed from the function's streams is logging: vitaINFO << …)
            if nm in ("operator<<", "operator>>") and len(ks) == 3 and STREAM_RE.search(qtype(ks[1])) and \
                    bool(self.refs(ks[1]) & self.streams) and n.get("id") not in self.accounted:
                raise Refuse("%s: a stream %s was not accounted for by the translator (line %s)"
                             % (self.key, nm, n.get("range", {}).get("begin", {}).get("line", "?")))
        for c in n.get("inner", []):
            if isinstance(c, dict):
                # the uninstantiated body of a generic lambda is a template: its instances are audited instead
                t = in_template or (k == "FunctionTemplateDecl" and c.get("kind") == "CXXMethodDecl" and
                                    not any(x.get("kind") == "TemplateArgument" for x in kids(c)))
                if k == "LambdaExpr" and c.get("kind") == "CompoundStmt" and \
                        any(x.get("kind") == "CXXRecordDecl" and any(y.get("kind") == "FunctionTemplateDecl" for y in kids(x))
                            for x in kids(n)):
                    t = True
                self.audit(c, t)


# ---- locating the definitions ----------------------------------------------------------------
def has_body(n):
    return any(c.get("kind") == "CompoundStmt" for c in kids(n))


def template_args(spec):
    out = []
    for c in kids(spec):
        if c.get("kind") == "TemplateArgument":
            if "type" in c:
                out.append(norm_type(c["type"].get("qualType")))
            elif "value" in c:
                v = c["value"]        # clang 14 prints `true` as the 1-bit value -1
                out.append({1: "true", -1: "true", 0: "false"}.get(v, str(v)) if isinstance(v, int) else str(v))
            else:
                ks = [k for k in c.get("inner", []) if isinstance(k, dict)]
                v = ks[0] if ks else {}
                if v.get("kind") == "CXXBoolLiteralExpr":
                    out.append("true" if v.get("value") else "false")
                elif "value" in v or "name" in v:
                    out.append(str(v.get("value", v.get("name"))))
                else:
                    # a template template argument is not printed by clang 14: recover it from the type of the
                    # data member built with it (`std::vector<L<T, S, false>> team_`)
                    found = "?"
                    for fdecl in kids(spec):
                        if fdecl.get("kind") == "FieldDecl":
                            m = re.match(r"std::vector<(vita::\w+)<", norm_type(qtype(fdecl)))
                            if m:
                                found = m.group(1)
                                break
                    out.append(found)
    return out


def is_stream_ctor(m):
    ps = [p for p in kids(m) if p.get("kind") == "ParmVarDecl"]
    return bool(ps) and "istream" in qtype(ps[0])


def args_match(have, want):
    norm = [{"1": "true", "0": "false"}.get(a, a) for a in have]
    for h, w in zip(norm, want):
        if w == "*" or h == w:
            continue
        return False
    return len(norm) >= len(want)


def find_def(docs, how, key):
    if how[0] == "method":
        for d in docs:
            if d.get("kind") == "CXXMethodDecl" and d.get("name") == how[1] and has_body(d) and d.get("parentDeclContextId"):
                return d
        raise Refuse("out-of-line definition of %s not found" % key)
    if how[0] == "func":
        _, name, args = how

        def walkf(n):
            if n.get("kind") == "FunctionDecl" and n.get("name") == name and has_body(n):
                ta = template_args(n)
                if args == ["*"]:
                    ps = [p for p in kids(n) if p.get("kind") == "ParmVarDecl"]
                    if len(ps) == 2 and qtype(ps[1]).replace(" ", "").endswith("basic_src_lambda_f*"):
                        return n
                elif args_match(ta, args):
                    return n
            for c in n.get("inner", []):
                if isinstance(c, dict) and c.get("kind") in ("FunctionTemplateDecl", "NamespaceDecl", "FunctionDecl"):
                    r = walkf(c)
                    if r is not None:
                        return r
            return None
        for d in docs:
            r = walkf(d)
            if r is not None:
                return r
        raise Refuse("definition of %s not found (is it instantiated in tools/tu/%s?)" % (key, TU))
    _, tmpl, args, name = how

    def walk(n):
        if n.get("kind") == "ClassTemplateSpecializationDecl" and n.get("name") == tmpl:
            if args_match(template_args(n), args):
                for m in kids(n):
                    if name == "ctor":
                        if m.get("kind") == "CXXConstructorDecl" and has_body(m) and is_stream_ctor(m):
                            return m
                    elif m.get("kind") == "CXXMethodDecl" and m.get("name") == name and has_body(m):
                        return m
        for c in n.get("inner", []):
            if isinstance(c, dict) and c.get("kind") in ("ClassTemplateDecl", "ClassTemplateSpecializationDecl",
                                                         "ClassTemplatePartialSpecializationDecl", "NamespaceDecl"):
                r = walk(c)
                if r is not None:
                    return r
        return None

    for d in docs:
        r = walk(d)
        if r is not None:
            return r
    raise Refuse("definition of %s not found (is it instantiated in tools/tu/%s?)" % (key, TU))


def translate(jobs=4):
    filters = sorted({f for _, f, _ in TARGETS})
    dev = os.environ.get("VERIF_FMT_DEVCACHE")          # development aid only: reuse the dumps
    if dev and os.path.exists(dev):
        import pickle
        dumps = pickle.load(open(dev, "rb"))
    else:
        with cf.ThreadPoolExecutor(jobs) as ex:
            dumps = dict(zip(filters, ex.map(lambda f: ast_dump(TU, f), filters)))
        if dev:
            import pickle
            pickle.dump(dumps, open(dev, "wb"))
    out = []
    keys = {k for k, _, _ in TARGETS}
    for key, filt, how in TARGETS:
        d = find_def(dumps[filt], how, key)
        fn = Fn(key, d)
        term = fn.translate()
        for s in fn.subs:
            if s not in keys:
                raise Refuse("%s calls %s, which is not in the table of tools/translate_formats.py" % (key, s))
        out.append((key, term))
    return out


def render(entries):
    lines = ["/- GENERATED by tools/translate_formats.py from the clang AST of the save / load functions of the",
             "   current working tree — do not edit. -/",
             "import Vita.C11.Format",
             "namespace Vita.C11.Fmt.Gen",
             "open Vita.C11.Fmt",
             ""]
    names = []
    for i, (k, t) in enumerate(entries):
        nm = "e%d" % i
        names.append(nm)
        lines.append("/- %s" % k)
        lines += ["   " + l for l in text(t).rstrip("\n").split("\n")]
        lines.append("-/")
        lines.append("def %s : Entry := ⟨%s,\n  %s⟩" % (nm, lstr(k), lean(t)))
        lines.append("")
    lines.append("def table : Table := [%s]" % ", ".join(names))
    lines += ["", "end Vita.C11.Fmt.Gen", ""]
    return "\n".join(lines)


def emit(path, jobs=4):
    entries = translate(jobs)
    txt = render(entries)
    old = open(path).read() if os.path.exists(path) else None
    if old != txt:
        with open(path, "w") as f:
            f.write(txt)
    return [k for k, _ in entries], old is not None and old != txt


if __name__ == "__main__":
    print(render(translate()))
