#!/usr/bin/env python3
"""C17: what do the GA / DE individuals, the numeric terminals, random.h, the age book-keeping of
`individual<>` and the recombination strategies say?

Reads the clang-14 JSON AST (explicit instantiations: typed, as compiled) of $VERIF_REPO's CURRENT working tree
(tools/tu/gade_tu.cc) and writes lean/Vita/C17/Gen.lean: one value of the syntax types of
lean/Vita/C17/Code.lean per function

  age        individual<i_ga>: type of `age_`, `age()`, `inc_age()`, `set_older_age()`, `load()`
             (checked to be the same for individual<i_de>)
  randInt / randIdx   random::between / sup / in instantiated at `int` (gene values) and at the type of the
             cut points (`unsigned long`)
  randReal   random::between<double> / in<double>
  initInt / initReal   ga::detail::number<int/double>::init
  gaCtor / deCtor      i_ga(const problem &) / i_de(const problem &)
  gaMut      i_ga::mutation
  gaXo       crossover(const i_ga &, const i_ga &)
  deXo       i_de::crossover
  deRun / gaRun        recombination::de<i_de>::run / recombination::base<i_ga>::run (call sites)

Syntax only: the statement skeleton of every function is matched against the one the record type describes
(every statement must be accounted for: a part of the skeleton, or on the short list of statements without
effect on genome / age: contract checks, signature cache upkeep, statistics counters) and every expression –
index, bound, draw argument, formula operand, which individual, which configuration member – is extracted as
data.  Anything else is refused (Refuse).  Meaning and proofs are in Lean.
"""
import concurrent.futures as cf
import os
import re
import sys

sys.path.insert(0, os.path.dirname(os.path.abspath(__file__)))
import cxx2lean as X  # noqa: E402
from cxx2lean import Refuse, kids  # noqa: E402

TU = "gade_tu.cc"

TYPES = {
    "unsigned char": "u8", "unsigned short": "u16", "unsigned int": "u32", "unsigned long": "u64",
    "unsigned long long": "u64", "signed char": "i8", "short": "i16", "int": "i32", "long": "i64",
    "long long": "i64",
}
RANK = {"u8": 8, "i8": 8, "u16": 16, "i16": 16, "u32": 32, "i32": 32, "u64": 64, "i64": 64}
BIN = {"+": "add", "-": "sub", "*": "mul"}
CMP = {"<": "lt", ">": "gt", "<=": "le", ">=": "ge", "==": "eq", "!=": "ne"}
WRAP = {"ExprWithCleanups", "MaterializeTemporaryExpr", "CXXBindTemporaryExpr", "ParenExpr", "ConstantExpr"}
WHO = {"lhs": "lhs", "rhs": "rhs", "a": "a", "b": "b", "c": "c", "ret": "ret"}


def qt(n):
    t = n.get("type", {})
    return (t.get("desugaredQualType") or t.get("qualType") or "").replace("const ", "").strip()


def mty(n_or_str):
    s = n_or_str if isinstance(n_or_str, str) else qt(n_or_str)
    s = s.replace("const ", "").replace("volatile ", "").strip()
    if s not in TYPES:
        raise Refuse("type %r is not a machine integer type known to the translator" % s)
    return TYPES[s]


def strip(n):
    """remove wrappers that do not change the value or the type class"""
    while True:
        k = n.get("kind")
        ks = kids(n)
        if k in WRAP and len(ks) == 1:
            n = ks[0]
        elif k in ("ImplicitCastExpr", "CXXStaticCastExpr", "CXXFunctionalCastExpr") and \
                n.get("castKind") in ("NoOp", "LValueToRValue", "FunctionToPointerDecay", "UncheckedDerivedToBase",
                                      "DerivedToBase", "ConstructorConversion") and len(ks) == 1:
            n = ks[0]
        elif k == "CXXConstructExpr" and len([c for c in ks if c.get("kind") != "CXXDefaultArgExpr"]) == 1 and \
                not qt(n).startswith("std::vector") and not qt(n).startswith("std::uniform"):
            n = [c for c in ks if c.get("kind") != "CXXDefaultArgExpr"][0]
        elif k == "InitListExpr" and len(ks) == 1:
            n = ks[0]
        else:
            return n


def callee(n):
    """name of the function / method / operator called by a call node"""
    ks = kids(n)
    if not ks:
        return None
    f = strip(ks[0])
    if f.get("kind") == "DeclRefExpr":
        return f.get("referencedDecl", {}).get("name")
    if f.get("kind") == "MemberExpr":
        return f.get("name")
    return None


def call_args(n):
    """arguments of a call (CallExpr: after the callee; CXXMemberCallExpr: after the MemberExpr;
    CXXOperatorCallExpr: after the operator reference, the object first)"""
    return [c for c in kids(n)[1:] if c.get("kind") != "CXXDefaultArgExpr"]


def member_object(n):
    """object of a member call: the base of the MemberExpr callee"""
    f = strip(kids(n)[0])
    if f.get("kind") != "MemberExpr":
        raise Refuse("member call without MemberExpr")
    return strip(kids(f)[0])


def who_of(n):
    """which individual an expression denotes"""
    n = strip(n)
    if n.get("kind") == "CXXThisExpr":
        return "self"
    if n.get("kind") == "UnaryOperator" and n.get("opcode") == "*" and strip(kids(n)[0]).get("kind") == "CXXThisExpr":
        return "self"
    if n.get("kind") == "DeclRefExpr":
        nm = n.get("referencedDecl", {}).get("name")
        if nm in WHO:
            return WHO[nm]
    raise Refuse("expression does not name an individual: %s" % n.get("kind"))


# ----------------------------------------------------------------------------------------------------------
# machine-integer expressions
# ----------------------------------------------------------------------------------------------------------
class MT:
    """translator of integer expressions; `vars` maps C++ names to variable indices, `members` maps data
    member names (on `this`) to variable indices, `calls` maps (method name) -> function(object node) -> term"""

    def __init__(self, vars_=None, members=None, calls=None):
        self.vars = dict(vars_ or {})
        self.members = dict(members or {})
        self.calls = dict(calls or {})

    def e(self, n):
        k = n.get("kind")
        ks = kids(n)
        if k in WRAP and len(ks) == 1:
            return self.e(ks[0])
        if k == "InitListExpr" and len(ks) == 1:
            return self.e(ks[0])
        if k == "IntegerLiteral":
            return ("lit", int(n["value"]))
        if k == "DeclRefExpr":
            nm = n.get("referencedDecl", {}).get("name")
            if nm in self.vars:
                return ("var", self.vars[nm])
            raise Refuse("reference to %r, which is not a variable of this fragment" % nm)
        if k == "MemberExpr":
            base = strip(ks[0])
            if base.get("kind") == "CXXThisExpr" and n.get("name") in self.members:
                return ("var", self.members[n["name"]])
            if base.get("kind") == "DeclRefExpr" and \
                    (base.get("referencedDecl", {}).get("name"), n.get("name")) in self.members:
                return ("var", self.members[(base["referencedDecl"]["name"], n["name"])])
            raise Refuse("member %r of %s" % (n.get("name"), base.get("kind")))
        if k in ("ImplicitCastExpr", "CXXStaticCastExpr", "CXXFunctionalCastExpr", "CStyleCastExpr"):
            ck = n.get("castKind")
            if ck in ("NoOp", "LValueToRValue"):
                return self.e(ks[-1])
            if ck == "IntegralCast":
                inner = self.e(ks[-1])
                dst = mty(n)
                if inner[0] == "lit" and self.fits(dst, inner[1]):
                    return inner
                return ("cast", dst, inner)
            raise Refuse("cast kind %s in an integer expression" % ck)
        if k == "BinaryOperator":
            op = n.get("opcode")
            if op in BIN:
                return ("bin", BIN[op], mty(n), self.e(ks[0]), self.e(ks[1]))
            if op in CMP:
                return ("cmp", CMP[op], self.e(ks[0]), self.e(ks[1]))
            raise Refuse("binary operator %s" % op)
        if k == "CXXMemberCallExpr":
            nm = callee(n)
            if nm in self.calls and not call_args(n):
                return self.calls[nm](member_object(n))
            raise Refuse("call of %r in an integer expression" % nm)
        raise Refuse("integer expression node %s" % k)

    @staticmethod
    def fits(ty, v):
        bits = RANK[ty]
        return (0 <= v < (1 << bits)) if ty[0] == "u" else (-(1 << (bits - 1)) <= v < (1 << (bits - 1)))

    def incremented(self, n):
        """value of an integer lvalue after `++x` / `x++` (integral promotion, then conversion back)"""
        ty = mty(n)
        wide = ty if RANK[ty] >= 32 else "i32"
        v = ("bin", "add", wide, self.e(kids(n)[0]), ("lit", 1))
        return v if wide == ty else ("cast", ty, v)


def rE(t):
    h = t[0]
    if h == "lit":
        return "(.lit (%d))" % t[1]
    if h == "var":
        return "(.var %d)" % t[1]
    if h == "bin":
        return "(.bin .%s .%s %s %s)" % (t[1], t[2], rE(t[3]), rE(t[4]))
    if h == "cast":
        return "(.cast .%s %s)" % (t[1], rE(t[2]))
    if h == "cmp":
        return "(.cmp .%s %s %s)" % (t[1], rE(t[2]), rE(t[3]))
    raise Refuse("render " + h)


def rRE(t):
    h = t[0]
    if h in ("rf", "cur", "draw"):
        return "RE." + h
    if h == "gene":
        return "(RE.gene .%s %s)" % (t[1], rE(t[2]))
    if h == "par":
        return "(RE.par %d)" % t[1]
    if h in ("add", "sub", "mul", "nextafter"):
        return "(RE.%s %s %s)" % (h, rRE(t[1]), rRE(t[2]))
    if h == "iteLt":
        return "(RE.iteLt %s %s %s %s)" % tuple(rRE(x) for x in t[1:])
    raise Refuse("render real " + h)


def rDraw(t):
    if t[0] == "sup":
        return "(.sup %s)" % rE(t[1])
    return "(.between %s %s)" % (rE(t[1]), rE(t[2]))


def rCoord(t):
    h = t[0]
    if h == "parent":
        return "(.parent %d)" % t[1]
    if h == "pickup":
        return "(.pickup %s)" % rCoord(t[1])
    if h == "ifParents":
        return "(.ifParents %d %s %s)" % (t[1], rCoord(t[2]), rCoord(t[3]))
    if h == "flip":
        return "(.flip %s %s)" % (rCoord(t[1]), rCoord(t[2]))
    raise Refuse("render coord " + h)


def rConf(t):
    if t[0] == "other":
        return '(.other "%s")' % t[1].replace("\\", "\\\\").replace('"', '\\"')
    return "." + t[0]


def rBool(b):
    return "true" if b else "false"


# ----------------------------------------------------------------------------------------------------------
# helpers on statements
# ----------------------------------------------------------------------------------------------------------
def body_of(fn):
    bs = [c for c in kids(fn) if c.get("kind") == "CompoundStmt"]
    if len(bs) != 1:
        raise Refuse("function %s has no single body" % fn.get("name"))
    return bs[0]


def stmts(body):
    """statements of a compound, without the empty ones (contracts compiled out: `Expects`/`Ensures`/assert)"""
    out = []
    for s in kids(body):
        if s.get("kind") == "NullStmt":
            continue
        if s.get("kind") == "ParenExpr" and "ToVoid" in str(s):      # assert(...) under NDEBUG: ((void)0)
            inner = strip(s)
            if inner.get("kind") == "CXXStaticCastExpr" and inner.get("castKind") == "ToVoid":
                continue
        out.append(s)
    return out


def is_signature_upkeep(s):
    """`x.signature_ = x.hash()`, `x.signature_.clear()`, `if (n) signature_ = hash()` – the cached signature
    (property C03) – no effect on genome or age"""
    s = strip(s)
    k = s.get("kind")
    if k == "IfStmt":
        ks = kids(s)
        return len(ks) == 2 and is_signature_upkeep(ks[1])
    if k == "CXXOperatorCallExpr" and callee(s) == "operator=":
        a = call_args(s)
        lhs = strip(a[0])
        rhs = strip(a[1])
        return lhs.get("kind") == "MemberExpr" and lhs.get("name") == "signature_" and \
            rhs.get("kind") == "CXXMemberCallExpr" and callee(rhs) == "hash"
    if k == "CXXMemberCallExpr" and callee(s) == "clear":
        o = member_object(s)
        return o.get("kind") == "MemberExpr" and o.get("name") == "signature_"
    return False


def var_decl(s):
    """(name, VarDecl, init node) of a one-variable DeclStmt"""
    if s.get("kind") != "DeclStmt" or len(kids(s)) != 1 or kids(s)[0].get("kind") != "VarDecl":
        raise Refuse("expected the declaration of one variable, found %s" % s.get("kind"))
    d = kids(s)[0]
    ini = kids(d)
    if len(ini) != 1:
        raise Refuse("variable %s without a single initialiser" % d.get("name"))
    return d.get("name"), d, ini[0]


def for_parts(s, mt):
    """canonical `for (T i = from; i < to; ++i) body` -> (name, ty, from, to, body).  Any other loop is refused."""
    if s.get("kind") != "ForStmt":
        raise Refuse("expected a for loop, found %s" % s.get("kind"))
    parts = s.get("inner", [])
    if len(parts) != 5:
        raise Refuse("for loop with %d parts" % len(parts))
    init, condvar, cond, inc, body = parts
    if condvar.get("kind") is not None:
        raise Refuse("for loop with a condition variable")
    nm, d, ini = var_decl(init)
    ty = mty(d)
    frm = mt.e(ini)
    if frm[0] == "cast" and frm[1] == ty and frm[2][0] == "lit" and MT.fits(ty, frm[2][1]):
        frm = frm[2]
    mt.vars[nm] = max(list(mt.vars.values()) + [-1]) + 1
    c = strip(cond)
    if c.get("kind") != "BinaryOperator" or c.get("opcode") != "<":
        raise Refuse("loop condition is not `i < bound`")
    l, r = kids(c)
    if mt.e(l) != ("var", mt.vars[nm]):
        raise Refuse("loop condition does not test the loop variable")
    to = mt.e(r)
    i = strip(inc)
    if i.get("kind") != "UnaryOperator" or i.get("opcode") != "++" or mt.e(kids(i)[0]) != ("var", mt.vars[nm]):
        raise Refuse("loop step is not `++i`")
    return nm, ty, frm, to, body


def block(s):
    """statements of a branch (compound or single statement)"""
    return stmts(s) if s.get("kind") == "CompoundStmt" else [s]


def boolean_arg(n):
    """`random::boolean(x)` -> the node x (None for the default argument)"""
    n = strip(n)
    if n.get("kind") != "CallExpr" or callee(n) != "boolean":
        raise Refuse("condition is not random::boolean(...)")
    a = call_args(n)
    return strip(a[0]) if a else None


def is_ref(n, name):
    n = strip(n)
    return n.get("kind") == "DeclRefExpr" and n.get("referencedDecl", {}).get("name") == name


# ----------------------------------------------------------------------------------------------------------
# individual<Derived>: ages
# ----------------------------------------------------------------------------------------------------------
def spec_of(docs, name, targ):
    for d in docs:
        if d.get("kind") == "ClassTemplateSpecializationDecl" and d.get("name") == name:
            ta = [c for c in d.get("inner", []) if c.get("kind") == "TemplateArgument"]
            if ta and ta[0].get("type", {}).get("qualType", "").endswith(targ) and \
                    any(c.get("kind") == "CXXMethodDecl" and any(b.get("kind") == "CompoundStmt" for b in kids(c))
                        for c in kids(d)):
                return d
    raise Refuse("instantiation %s<%s> not found" % (name, targ))


def method(cls, name):
    ms = [c for c in kids(cls) if c.get("kind") in ("CXXMethodDecl", "CXXConstructorDecl") and c.get("name") == name and
          any(b.get("kind") == "CompoundStmt" for b in kids(c))]
    if len(ms) != 1:
        raise Refuse("%d definitions of %s" % (len(ms), name))
    return ms[0]


def age_code(cls):
    f = [c for c in kids(cls) if c.get("kind") == "FieldDecl" and c.get("name") == "age_"]
    if len(f) != 1:
        raise Refuse("data member age_ not found")
    field = mty(f[0])
    # age()
    m = method(cls, "age")
    get_ty = mty(m["type"]["qualType"].split("(")[0])
    ss = stmts(body_of(m))
    if len(ss) != 1 or ss[0].get("kind") != "ReturnStmt":
        raise Refuse("age() is not a single return")
    get = MT(members={"age_": 0}).e(kids(ss[0])[0])
    age_of = lambda obj: get                                    # noqa: E731  (age() of the same object)
    # inc_age()
    m = method(cls, "inc_age")
    ss = stmts(body_of(m))
    if len(ss) != 1:
        raise Refuse("inc_age() is not a single statement")
    inc = assigned_value(ss[0], MT(members={"age_": 0}, calls={"age": age_of}), field, "age_")
    # set_older_age(p)
    m = method(cls, "set_older_age")
    ps = [c for c in kids(m) if c.get("kind") == "ParmVarDecl"]
    if len(ps) != 1:
        raise Refuse("set_older_age takes %d parameters" % len(ps))
    param_ty = mty(ps[0])
    mt = MT(vars_={ps[0]["name"]: 1}, members={"age_": 0}, calls={"age": age_of})
    ss = stmts(body_of(m))
    if len(ss) != 1 or ss[0].get("kind") != "IfStmt" or len(kids(ss[0])) != 2:
        raise Refuse("set_older_age is not a single `if` without else")
    cond, then = kids(ss[0])
    older_cond = mt.e(strip(cond))
    th = block(then)
    if len(th) != 1:
        raise Refuse("set_older_age: the branch is not a single assignment")
    older_new = assigned_value(th[0], mt, field, "age_")
    # load(in, ss)
    m = method(cls, "load")
    tmp = None
    load_new = None
    for s in stmts(body_of(m)):
        k = s.get("kind")
        if k == "DeclStmt":
            nm, d, _ini = (kids(s)[0].get("name"), kids(s)[0], None)
            if kids(d):
                raise Refuse("load: initialised local %s" % nm)
            if tmp is not None:
                raise Refuse("load: second local variable")
            tmp = (nm, mty(d))
        elif k == "IfStmt":
            ks = kids(s)
            if len(ks) != 2 or not all(r.get("kind") == "ReturnStmt" for r in block(ks[1])):
                raise Refuse("load: an `if` that does more than return")
            txt = str(ks[0])
            if "age_" in txt and "'name': 'age_'" in txt:
                raise Refuse("load: condition mentions age_")
        elif k == "BinaryOperator" and s.get("opcode") == "=":
            if tmp is None:
                raise Refuse("load: assignment before the temporary is declared")
            load_new = assigned_value(s, MT(vars_={tmp[0]: 1}, members={"age_": 0}), field, "age_")
        elif is_signature_upkeep(s) or k == "ReturnStmt":
            continue
        else:
            raise Refuse("load: statement %s" % k)
    if tmp is None or load_new is None:
        raise Refuse("load: the age is not read into a temporary and assigned")
    # the temporary must be the operand of an extraction `in >> tmp`
    if ("'name': 'operator>>'" not in str(body_of(m))):
        raise Refuse("load: no stream extraction")
    return dict(field=field, getTy=get_ty, get=get, inc=inc, paramTy=param_ty, olderCond=older_cond,
                olderNew=older_new, tmpTy=tmp[1], loadNew=load_new)


def assigned_value(s, mt, field_ty, member):
    """value stored into data member `member` by the statement `s` (`++m`, `m++`, `m = e`, `m += e`), converted to
    the member's type"""
    s = strip(s)
    k = s.get("kind")
    if k == "UnaryOperator" and s.get("opcode") == "++":
        t = strip(kids(s)[0])
        if t.get("kind") == "MemberExpr" and t.get("name") == member:
            return mt.incremented(s)
    if k == "BinaryOperator" and s.get("opcode") == "=":
        l, r = kids(s)
        t = strip(l)
        if t.get("kind") == "MemberExpr" and t.get("name") == member:
            v = mt.e(r)
            return v
    if k == "CompoundAssignOperator" and s.get("opcode") == "+=":
        l, r = kids(s)
        t = strip(l)
        if t.get("kind") == "MemberExpr" and t.get("name") == member:
            ct = s.get("computeResultType", {}).get("qualType", qt(s))
            wide = mty(ct)
            v = ("bin", "add", wide, ("cast", wide, mt.e(l)) if wide != field_ty else mt.e(l), mt.e(r))
            return v if wide == field_ty else ("cast", field_ty, v)
    raise Refuse("statement does not assign %s: %s" % (member, k))


# ----------------------------------------------------------------------------------------------------------
# random.h
# ----------------------------------------------------------------------------------------------------------
def fn_inst(docs, name, first_param_type):
    """instantiated FunctionDecl `name` whose first parameter has the given (desugared) type"""
    found = []
    for d in docs:
        if d.get("kind") == "FunctionTemplateDecl" and d.get("name") == name:
            for c in kids(d):
                if c.get("kind") == "FunctionDecl" and any(b.get("kind") == "CompoundStmt" for b in kids(c)) and \
                        any(t.get("kind") == "TemplateArgument" for t in kids(c)):
                    ps = [p for p in kids(c) if p.get("kind") == "ParmVarDecl"]
                    if ps and qt(ps[0]) == first_param_type:
                        found.append(c)
    if len(found) != 1:
        raise Refuse("%d instantiations of random::%s(%s)" % (len(found), name, first_param_type))
    return found[0]


def single_return(fn):
    ss = stmts(body_of(fn))
    if len(ss) != 1 or ss[0].get("kind") != "ReturnStmt":
        raise Refuse("%s is not a single return" % fn.get("name"))
    return strip(kids(ss[0])[0])


def dist_decl(fn, dist):
    """`std::<dist><T> d(a, b); return d(engine);` -> (nodes a, b, returned node, name of d)"""
    ss = stmts(body_of(fn))
    if len(ss) != 2 or ss[1].get("kind") != "ReturnStmt":
        raise Refuse("%s: not `distribution d(a, b); return …;`" % fn.get("name"))
    nm, d, ini = var_decl(ss[0])
    if dist not in qt(d):
        raise Refuse("%s: local of type %s" % (fn.get("name"), qt(d)))
    c = ini
    while c.get("kind") in WRAP:
        c = kids(c)[0]
    if c.get("kind") != "CXXConstructExpr":
        raise Refuse("%s: distribution not constructed from two arguments" % fn.get("name"))
    a = [x for x in kids(c) if x.get("kind") != "CXXDefaultArgExpr"]
    if len(a) != 2:
        raise Refuse("%s: distribution constructed from %d arguments" % (fn.get("name"), len(a)))
    return a[0], a[1], kids(ss[1])[0], nm


def is_dist_call(n, dname):
    """`d(engine)`"""
    n = strip(n)
    if n.get("kind") != "CXXOperatorCallExpr" or callee(n) != "operator()":
        return False
    a = call_args(n)
    return len(a) == 2 and is_ref(a[0], dname) and is_ref(a[1], "engine")


def rand_int(docs, cty, ty, need_sup, need_in):
    """between<T> (always), sup<T> / in<T> when the caller uses them (absent parts are rendered as the identity
    on their parameters and never interpreted)"""
    fb = fn_inst(docs, "between", cty)
    ps = [p["name"] for p in kids(fb) if p.get("kind") == "ParmVarDecl"]
    a, b, ret, dn = dist_decl(fb, "uniform_int_distribution<")
    if not is_dist_call(ret, dn):
        raise Refuse("between<%s> does not return d(engine)" % cty)
    mt = MT(vars_={ps[0]: 0, ps[1]: 1})
    out = {"ty": ty, "betA": mt.e(a), "betB": mt.e(b), "supA": ("var", 0), "supB": ("var", 0),
           "inA": ("var", 0), "inB": ("var", 1)}
    if need_sup:
        fs = fn_inst(docs, "sup", cty)
        p = [p["name"] for p in kids(fs) if p.get("kind") == "ParmVarDecl"]
        r = single_return(fs)
        if r.get("kind") != "CallExpr" or callee(r) != "between" or len(call_args(r)) != 2:
            raise Refuse("sup<%s> does not return between(…, …)" % cty)
        mt = MT(vars_={p[0]: 0})
        out["supA"], out["supB"] = [mt.e(x) for x in call_args(r)]
    if need_in:
        fi = fn_inst(docs, "in", "std::pair<%s, %s>" % (cty, cty))
        p = [p["name"] for p in kids(fi) if p.get("kind") == "ParmVarDecl"]
        r = single_return(fi)
        if r.get("kind") != "CallExpr" or callee(r) != "between" or len(call_args(r)) != 2:
            raise Refuse("in<%s> does not return between(…, …)" % cty)
        mt = MT(members={(p[0], "first"): 0, (p[0], "second"): 1})
        out["inA"], out["inB"] = [mt.e(x) for x in call_args(r)]
    return out


class RT:
    """real expressions"""

    def __init__(self, pars=None, locals_=None, mt=None, dist=None):
        self.pars = dict(pars or {})
        self.locals = dict(locals_ or {})
        self.mt = mt
        self.dist = dist

    def e(self, n):
        n = strip(n)
        k = n.get("kind")
        ks = kids(n)
        if k == "DeclRefExpr":
            nm = n.get("referencedDecl", {}).get("name")
            if nm in self.locals:
                return self.locals[nm]
            if nm in self.pars:
                return ("par", self.pars[nm])
            raise Refuse("real expression refers to %r" % nm)
        if k == "MemberExpr":
            base = strip(ks[0])
            key = (base.get("referencedDecl", {}).get("name"), n.get("name"))
            if base.get("kind") == "DeclRefExpr" and key in self.pars:
                return ("par", self.pars[key])
            raise Refuse("real expression: member %r" % (n.get("name"),))
        if k == "BinaryOperator" and n.get("opcode") in ("+", "-", "*") and qt(n) == "double":
            return ({"+": "add", "-": "sub", "*": "mul"}[n["opcode"]], self.e(ks[0]), self.e(ks[1]))
        if k == "ConditionalOperator":
            c = strip(ks[0])
            if c.get("kind") == "BinaryOperator" and c.get("opcode") == "<":
                return ("iteLt", self.e(kids(c)[0]), self.e(kids(c)[1]), self.e(ks[1]), self.e(ks[2]))
            raise Refuse("real expression: conditional on %s" % c.get("opcode"))
        if k == "CallExpr" and callee(n) == "nextafter" and len(call_args(n)) == 2:
            return ("nextafter",) + tuple(self.e(x) for x in call_args(n))
        if k == "CXXOperatorCallExpr" and callee(n) == "operator()" and self.dist and is_dist_call(n, self.dist):
            return ("draw",)
        if k in ("CXXOperatorCallExpr", "CXXMemberCallExpr") and callee(n) == "operator[]" and self.mt is not None:
            if k == "CXXOperatorCallExpr":
                obj, idx = call_args(n)
            else:
                obj, idx = member_object(n), call_args(n)[0]
            return ("gene", who_of(obj), self.mt.e(idx))
        raise Refuse("real expression node %s" % k)


def is_wide_guard(s, ps):
    """`if (!std::isfinite(sup - min)) return 2 * between(min / 2, sup / 2);`"""
    if s.get("kind") != "IfStmt" or len(kids(s)) != 2:
        return False
    c, th = kids(s)
    c = strip(c)
    if c.get("kind") != "UnaryOperator" or c.get("opcode") != "!":
        return False
    f = strip(kids(c)[0])
    if f.get("kind") != "CallExpr" or callee(f) != "isfinite" or len(call_args(f)) != 1:
        return False
    d = strip(call_args(f)[0])
    if not (d.get("kind") == "BinaryOperator" and d.get("opcode") == "-" and is_ref(kids(d)[0], ps[1]) and
            is_ref(kids(d)[1], ps[0])):
        return False
    tb = block(th)
    if len(tb) != 1 or tb[0].get("kind") != "ReturnStmt":
        return False
    r = strip(kids(tb[0])[0])
    if r.get("kind") != "BinaryOperator" or r.get("opcode") != "*":
        return False
    two, call = [strip(x) for x in kids(r)]
    while two.get("kind") == "ImplicitCastExpr":
        two = strip(kids(two)[0])
    if two.get("kind") not in ("IntegerLiteral", "FloatingLiteral") or float(two.get("value")) != 2.0:
        return False
    if call.get("kind") != "CallExpr" or callee(call) != "between" or len(call_args(call)) != 2:
        return False

    def half(n, nm):
        n = strip(n)
        if n.get("kind") != "BinaryOperator" or n.get("opcode") != "/" or not is_ref(kids(n)[0], nm):
            return False
        t = strip(kids(n)[1])
        while t.get("kind") == "ImplicitCastExpr":
            t = strip(kids(t)[0])
        return t.get("kind") in ("IntegerLiteral", "FloatingLiteral") and float(t.get("value")) == 2.0
    a = call_args(call)
    return half(a[0], ps[0]) and half(a[1], ps[1])


def rand_real(docs):
    fb = fn_inst(docs, "between", "double")
    ps = [p["name"] for p in kids(fb) if p.get("kind") == "ParmVarDecl"]
    ss = stmts(body_of(fb))
    out = {"halvesWhenWide": False}
    if ss and ss[0].get("kind") == "IfStmt":
        if not is_wide_guard(ss[0], ps):
            raise Refuse("between<double>: leading `if` is not the wide-interval guard")
        out["halvesWhenWide"] = True
        ss = ss[1:]
    if len(ss) < 2 or ss[-1].get("kind") != "ReturnStmt":
        raise Refuse("between<double>: no final return")
    nm, d, ini = var_decl(ss[0])
    if "uniform_real_distribution<" not in qt(d):
        raise Refuse("between<double>: first local is a %s" % qt(d))
    c = ini
    while c.get("kind") in WRAP:
        c = kids(c)[0]
    a = [x for x in kids(c) if x.get("kind") != "CXXDefaultArgExpr"]
    if c.get("kind") != "CXXConstructExpr" or len(a) != 2:
        raise Refuse("between<double>: distribution not constructed from two arguments")
    rt = RT(pars={ps[0]: 0, ps[1]: 1}, dist=nm)
    out.update({"ctorA": rt.e(a[0]), "ctorB": rt.e(a[1])})
    for s in ss[1:-1]:                       # const locals naming sub-expressions
        n2, d2, i2 = var_decl(s)
        if "const" not in d2.get("type", {}).get("qualType", ""):
            raise Refuse("between<double>: mutable local %s" % n2)
        rt.locals[n2] = rt.e(i2)
    out["ret"] = rt.e(kids(ss[-1])[0])
    fi = fn_inst(docs, "in", "std::pair<double, double>")
    p = [p["name"] for p in kids(fi) if p.get("kind") == "ParmVarDecl"]
    r = single_return(fi)
    if r.get("kind") != "CallExpr" or callee(r) != "between" or len(call_args(r)) != 2:
        raise Refuse("in<double> does not return between(…, …)")
    rt = RT(pars={(p[0], "first"): 0, (p[0], "second"): 1})
    out["inA"], out["inB"] = [rt.e(x) for x in call_args(r)]
    return out


# ----------------------------------------------------------------------------------------------------------
# ga::detail::number<T>::init
# ----------------------------------------------------------------------------------------------------------
def init_code(docs, targ):
    cls = spec_of(docs, "number", targ)
    m = method(cls, "init")
    r = kids(stmts(body_of(m))[0])[0] if len(stmts(body_of(m))) == 1 else None
    if r is None or stmts(body_of(m))[0].get("kind") != "ReturnStmt":
        raise Refuse("number<%s>::init is not a single return" % targ)
    via_double = False
    n = r
    while n.get("kind") in WRAP or n.get("kind") == "ImplicitCastExpr":
        if n.get("kind") == "ImplicitCastExpr":
            if n.get("castKind") == "IntegralToFloating":
                via_double = True
            elif n.get("castKind") not in ("NoOp", "LValueToRValue"):
                raise Refuse("number<%s>::init: conversion %s" % (targ, n.get("castKind")))
        n = kids(n)[0]
    if n.get("kind") != "CallExpr" or callee(n) != "in" or len(call_args(n)) != 1:
        raise Refuse("number<%s>::init does not return random::in(…)" % targ)
    arg = strip(call_args(n)[0])
    if arg.get("kind") != "MemberExpr" or arg.get("name") != "range_" or strip(kids(arg)[0]).get("kind") != "CXXThisExpr":
        raise Refuse("number<%s>::init: argument of random::in is not the member range_" % targ)
    f = [c for c in kids(cls) if c.get("kind") == "FieldDecl" and c.get("name") == "range_"][0]
    want = "std::pair<%s, %s>" % (targ, targ)
    if qt(f) != want:
        raise Refuse("number<%s>::range_ has type %s" % (targ, qt(f)))
    return {"src": "inRange", "elemTy": TYPES.get(targ), "viaDouble": via_double or targ == "double"}


# ----------------------------------------------------------------------------------------------------------
# constructors i_ga(problem) / i_de(problem)
# ----------------------------------------------------------------------------------------------------------
def terminal_init(n, mt):
    """`conv(p.sset.roulette_terminal(idx).init())` -> (idx term, converted to int?)"""
    to_int = False
    while True:
        k = n.get("kind")
        if k in WRAP and len(kids(n)) == 1:
            n = kids(n)[0]
        elif k in ("ImplicitCastExpr", "CXXStaticCastExpr", "CXXFunctionalCastExpr"):
            ck = n.get("castKind")
            if ck == "FloatingToIntegral":
                if mty(n) != "i32":
                    raise Refuse("terminal value converted to %s" % qt(n))
                to_int = True
            elif ck not in ("NoOp", "LValueToRValue"):
                raise Refuse("terminal value: conversion %s" % ck)
            n = kids(n)[-1]
        else:
            break
    if n.get("kind") != "CXXMemberCallExpr" or callee(n) != "init" or call_args(n):
        raise Refuse("gene value is not <terminal>.init()")
    t = member_object(n)
    if t.get("kind") != "CXXMemberCallExpr" or callee(t) != "roulette_terminal" or len(call_args(t)) != 1:
        raise Refuse("gene value is not roulette_terminal(…).init()")
    ss = member_object(t)
    if ss.get("kind") != "MemberExpr" or ss.get("name") != "sset":
        raise Refuse("roulette_terminal is not called on the problem's symbol set")
    return call_args(t)[0], to_int


def ctor_code(docs, cls_name):
    cs = [d for d in docs if d.get("kind") == "CXXConstructorDecl" and d.get("name") == cls_name and
          any(b.get("kind") == "CompoundStmt" for b in kids(d)) and
          [p for p in kids(d) if p.get("kind") == "ParmVarDecl" and "problem" in qt(p)]]
    if len(cs) != 1:
        raise Refuse("%d definitions of %s(const problem &)" % (len(cs), cls_name))
    c = cs[0]
    inits = [i for i in kids(c) if i.get("kind") == "CXXCtorInitializer"]
    size_is_cat = False
    for i in inits:
        if i.get("anyInit", {}).get("name") == "genome_":
            e = kids(i)[0]
            while e.get("kind") in WRAP:
                e = kids(e)[0]
            a = [x for x in kids(e) if x.get("kind") != "CXXDefaultArgExpr"]
            if e.get("kind") == "CXXConstructExpr" and len(a) == 1:
                x = strip(a[0])
                if x.get("kind") == "CXXMemberCallExpr" and callee(x) == "categories":
                    o = member_object(x)
                    size_is_cat = o.get("kind") == "MemberExpr" and o.get("name") == "sset"
    ss = stmts(body_of(c))
    if len(ss) != 1:
        raise Refuse("%s(problem): %d statements in the body" % (cls_name, len(ss)))
    g = strip(ss[0])
    if g.get("kind") != "CallExpr" or callee(g) != "generate" or len(call_args(g)) != 3:
        raise Refuse("%s(problem): the body is not std::generate(first, last, gen)" % cls_name)
    b, e, lam = call_args(g)

    def end_of(n, which):
        n = strip(n)
        return n.get("kind") == "CXXMemberCallExpr" and callee(n) == which and \
            member_object(n).get("kind") == "MemberExpr" and member_object(n).get("name") == "genome_"
    whole = end_of(b, "begin") and end_of(e, "end")
    lam = strip(lam)
    if lam.get("kind") != "LambdaExpr":
        raise Refuse("%s(problem): generator is not a lambda" % cls_name)
    rec = [x for x in kids(lam) if x.get("kind") == "CXXRecordDecl"][0]
    op = [m for m in kids(rec) if m.get("kind") == "CXXMethodDecl" and m.get("name") == "operator()"][0]
    fields = [f for f in kids(rec) if f.get("kind") == "FieldDecl"]
    int_fields = [f for f in fields if qt(f) in TYPES]
    if len(int_fields) != 1:
        raise Refuse("%s(problem): the lambda captures %d integer counters" % (cls_name, len(int_fields)))
    cty = mty(int_fields[0])
    caps = [x for x in kids(lam) if x.get("kind") not in ("CXXRecordDecl", "CompoundStmt")]
    ints = [x for x in caps if strip(x).get("kind") == "IntegerLiteral" or
            (x.get("kind") == "ImplicitCastExpr" and x.get("castKind") == "IntegralCast")]
    if len(ints) != 1:
        raise Refuse("%s(problem): counter initialiser not found" % cls_name)
    cinit = MT().e(ints[0])
    body = stmts(body_of(op))
    if len(body) != 1 or body[0].get("kind") != "ReturnStmt":
        raise Refuse("%s(problem): the lambda is not a single return" % cls_name)
    idx, to_int = terminal_init(kids(body[0])[0], None)
    # the index: `n++` (old value, counter + 1), `n` is the captured counter
    cast_to = None
    i2 = idx
    while i2.get("kind") in WRAP or i2.get("kind") == "ImplicitCastExpr":
        if i2.get("kind") == "ImplicitCastExpr" and i2.get("castKind") == "IntegralCast":
            cast_to = mty(i2)
        i2 = kids(i2)[-1]
    if i2.get("kind") != "UnaryOperator" or i2.get("opcode") != "++":
        raise Refuse("%s(problem): the terminal index is not a counter incremented per call" % cls_name)
    cname = strip(kids(i2)[0]).get("referencedDecl", {}).get("name")
    mt = MT(vars_={cname: 0})
    nxt = mt.incremented(i2)
    old = ("var", 0) if i2.get("isPostfix") else nxt
    term = old if cast_to is None else ("cast", cast_to, old)
    return {"sizeIsCategories": size_is_cat, "wholeGenome": whole, "counterTy": cty, "counterInit": cinit,
            "termIdx": term, "counterNext": nxt, "toInt": to_int}


# ----------------------------------------------------------------------------------------------------------
# i_ga::mutation, crossover(i_ga, i_ga)
# ----------------------------------------------------------------------------------------------------------
def genome_index(n, mt, owner):
    """`<owner>.genome_[idx]` or `<owner>[idx]` -> (who, idx term)"""
    n = strip(n)
    k = n.get("kind")
    if k == "CXXOperatorCallExpr" and callee(n) == "operator[]":
        obj, idx = call_args(n)
        o = strip(obj)
        if o.get("kind") == "MemberExpr" and o.get("name") == "genome_":
            return who_of(kids(o)[0]), mt.e(idx)
        return who_of(o), mt.e(idx)
    if k == "CXXMemberCallExpr" and callee(n) == "operator[]":
        return who_of(member_object(n)), mt.e(call_args(n)[0])
    raise Refuse("not an element of a genome: %s" % k)


def parameters_of(ini):
    x = strip(ini)
    if x.get("kind") != "CXXMemberCallExpr" or callee(x) != "parameters":
        raise Refuse("`ps` is not <individual>.parameters()")
    return who_of(member_object(x))


def mut_code(docs):
    ms = [d for d in docs if d.get("kind") == "CXXMethodDecl" and d.get("name") == "mutation" and
          any(b.get("kind") == "CompoundStmt" for b in kids(d))]
    if len(ms) != 1:
        raise Refuse("%d definitions of i_ga::mutation" % len(ms))
    m = ms[0]
    ps = [p for p in kids(m) if p.get("kind") == "ParmVarDecl"]
    pgm = ps[0]["name"]
    ss = stmts(body_of(m))
    out = {"touchesAge": "'name': 'age_'" in str(m) or "set_older_age" in str(m) or "inc_age" in str(m)}
    # unsigned n(0);  const auto ps(parameters());  for …;  [signature upkeep]  return n;
    nm_n, d_n, ini_n = var_decl(ss[0])
    out["counterTy"] = mty(d_n)
    if MT().e(ini_n) not in (("lit", 0), ("cast", out["counterTy"], ("lit", 0))):
        raise Refuse("mutation: the counter does not start at 0")
    nm_ps, d_ps, ini_ps = var_decl(ss[1])
    out["psOf"] = parameters_of(ini_ps)
    mt = MT(vars_={nm_ps: 0})
    lv, lty, frm, to, body = for_parts(ss[2], mt)
    out.update(loopTy=lty, from_=frm, to_=to)
    rest = ss[3:]
    for s in rest[:-1]:
        if not is_signature_upkeep(s):
            raise Refuse("mutation: statement %s after the loop" % s.get("kind"))
    if rest[-1].get("kind") != "ReturnStmt" or not is_ref(kids(rest[-1])[0], nm_n):
        raise Refuse("mutation does not return its counter")
    out["returnsCounter"] = True
    # body: if (boolean(pgm)) if (const auto g = conv(term.init()); g != genome_[c]) { ++n; genome_[c] = g; }
    b = block(body)
    if len(b) != 1 or b[0].get("kind") != "IfStmt" or len(kids(b[0])) != 2:
        raise Refuse("mutation: loop body is not a single `if` without else")
    g0, inner = kids(b[0])
    out["guardIsBooleanOfPgm"] = is_ref(boolean_arg(g0), pgm)
    ib = block(inner)
    if len(ib) != 1 or ib[0].get("kind") != "IfStmt":
        raise Refuse("mutation: the guarded statement is not an `if`")
    parts = kids(ib[0])
    if len(parts) != 3 or parts[0].get("kind") != "DeclStmt":
        raise Refuse("mutation: inner `if` has no initialiser / has an else branch")
    gname, gd, gini = var_decl(parts[0])
    tidx, to_int = terminal_init(gini, mt)
    out["termIdx"] = mt.e(tidx)
    c = strip(parts[1])
    if c.get("kind") != "BinaryOperator" or c.get("opcode") not in ("!=", "=="):
        raise Refuse("mutation: the new gene is not compared with the old one")
    l, r = kids(c)
    if not is_ref(l, gname):
        l, r = r, l
    if not is_ref(l, gname):
        raise Refuse("mutation: comparison does not involve the new gene")
    w, out["cmpIdx"] = genome_index(r, mt, "self")
    if w != "self":
        raise Refuse("mutation: compares with a gene of %s" % w)
    out["cmpIsNe"] = c.get("opcode") == "!="
    seen_inc = seen_set = False
    for s in block(parts[2]):
        s2 = strip(s)
        if s2.get("kind") == "UnaryOperator" and s2.get("opcode") == "++" and is_ref(kids(s2)[0], nm_n):
            seen_inc = True
        elif s2.get("kind") == "BinaryOperator" and s2.get("opcode") == "=" and is_ref(kids(s2)[1], gname):
            w, out["dstIdx"] = genome_index(kids(s2)[0], mt, "self")
            if w != "self":
                raise Refuse("mutation: assigns a gene of %s" % w)
            seen_set = True
        else:
            raise Refuse("mutation: statement %s in the change branch" % s2.get("kind"))
    if not (seen_inc and seen_set):
        raise Refuse("mutation: the change branch does not count and assign")
    return out


def draw_of(ini, mt):
    x = strip(ini)
    if x.get("kind") != "CallExpr":
        raise Refuse("cut point is not drawn by a call")
    nm = callee(x)
    a = call_args(x)
    if nm == "sup" and len(a) == 1:
        return ("sup", mt.e(a[0]))
    if nm == "between" and len(a) == 2:
        return ("between", mt.e(a[0]), mt.e(a[1]))
    raise Refuse("cut point drawn by %r" % nm)


def age_call(n):
    """`x.age()` -> who"""
    n = strip(n)
    if n.get("kind") == "CXXMemberCallExpr" and callee(n) == "age" and not call_args(n):
        return who_of(member_object(n))
    raise Refuse("not an age() call")


def older_stmt(s):
    """`r.set_older_age(x.age())` / `r.set_older_age(std::max({x.age(), …}))` -> (receiver, [who])"""
    s = strip(s)
    if s.get("kind") != "CXXMemberCallExpr" or callee(s) != "set_older_age" or len(call_args(s)) != 1:
        raise Refuse("not a set_older_age call")
    recv = who_of(member_object(s))
    a = strip(call_args(s)[0])
    if a.get("kind") == "CallExpr" and callee(a) == "max":
        lst = a
        items = []

        def collect(n):
            n2 = strip(n)
            if n2.get("kind") in ("CXXStdInitializerListExpr", "InitListExpr"):
                for c in kids(n2):
                    collect(c)
            elif n2.get("kind") == "CXXMemberCallExpr":
                items.append(age_call(n2))
            elif n2.get("kind") == "CallExpr" and callee(n2) == "max":      # std::max(x, std::max(y, z))
                for c in call_args(n2):
                    collect(c)
            else:
                raise Refuse("std::max over %s" % n2.get("kind"))
        for c in call_args(lst):
            collect(c)
        return recv, items
    return recv, [age_call(a)]


def xo_code(docs):
    fs = [d for d in docs if d.get("kind") == "FunctionDecl" and d.get("name") == "crossover" and
          any(b.get("kind") == "CompoundStmt" for b in kids(d)) and "i_ga" in d.get("type", {}).get("qualType", "")]
    if len(fs) != 1:
        raise Refuse("%d definitions of crossover(const i_ga &, const i_ga &)" % len(fs))
    ss = stmts(body_of(fs[0]))
    out = {}
    nm_ps, _, ini = var_decl(ss[0])
    out["psOf"] = parameters_of(ini)
    mt = MT(vars_={nm_ps: 0})
    nm1, _, ini = var_decl(ss[1])
    out["cut1"] = draw_of(ini, mt)
    mt.vars[nm1] = 1
    nm2, _, ini = var_decl(ss[2])
    out["cut2"] = draw_of(ini, mt)
    mt.vars[nm2] = 2
    nmr, dr, ini = var_decl(ss[3])
    if nmr != "ret" or "i_ga" not in qt(dr):
        raise Refuse("crossover: fourth statement does not declare the offspring `ret`")
    out["copyOf"] = who_of(ini)
    lv, lty, frm, to, body = for_parts(ss[4], mt)
    out.update(loopTy=lty, from_=frm, to_=to)
    b = block(body)
    if len(b) != 1:
        raise Refuse("crossover: loop body has %d statements" % len(b))
    a = strip(b[0])
    if a.get("kind") != "BinaryOperator" or a.get("opcode") != "=":
        raise Refuse("crossover: loop body is not an assignment")
    w, out["dstIdx"] = genome_index(kids(a)[0], mt, "ret")
    if w != "ret":
        raise Refuse("crossover: the loop writes a gene of %s" % w)
    out["src"], out["srcIdx"] = genome_index(kids(a)[1], mt, None)
    rest = ss[5:]
    older = [s for s in rest if strip(s).get("kind") == "CXXMemberCallExpr" and callee(strip(s)) == "set_older_age"]
    if len(older) != 1:
        raise Refuse("crossover: %d set_older_age calls" % len(older))
    recv, ws = older_stmt(older[0])
    if len(ws) != 1:
        raise Refuse("crossover: set_older_age of %d ages" % len(ws))
    out["ageRecv"], out["ageOf"] = recv, ws[0]
    for s in rest:
        if s in older or is_signature_upkeep(s):
            continue
        if s.get("kind") == "ReturnStmt":
            out["returns"] = who_of(kids(s)[0])
            continue
        raise Refuse("crossover: statement %s after the loop" % s.get("kind"))
    if "returns" not in out:
        raise Refuse("crossover: no return")
    return out


# ----------------------------------------------------------------------------------------------------------
# i_de::crossover
# ----------------------------------------------------------------------------------------------------------
def de_assign(s, mt, rt):
    s = strip(s)
    k = s.get("kind")
    if k == "CompoundAssignOperator" and s.get("opcode") == "+=" and qt(s) == "double":
        w, idx = genome_index(kids(s)[0], mt, "ret")
        if w != "ret":
            raise Refuse("i_de::crossover updates a gene of %s" % w)
        return {"idx": idx, "val": ("add", ("cur",), rt.e(kids(s)[1]))}
    if k == "BinaryOperator" and s.get("opcode") == "=":
        w, idx = genome_index(kids(s)[0], mt, "ret")
        if w != "ret":
            raise Refuse("i_de::crossover assigns a gene of %s" % w)
        return {"idx": idx, "val": rt.e(kids(s)[1])}
    raise Refuse("i_de::crossover: statement %s where an element assignment is expected" % k)


def dexo_code(docs):
    ms = [d for d in docs if d.get("kind") == "CXXMethodDecl" and d.get("name") == "crossover" and
          any(b.get("kind") == "CompoundStmt" for b in kids(d))]
    if len(ms) != 1:
        raise Refuse("%d definitions of i_de::crossover" % len(ms))
    m = ms[0]
    ps = [p["name"] for p in kids(m) if p.get("kind") == "ParmVarDecl"]
    if len(ps) != 5:
        raise Refuse("i_de::crossover takes %d parameters" % len(ps))
    pp, pf = ps[0], ps[1]
    ss = stmts(body_of(m))
    out = {}
    nm_ps, _, ini = var_decl(ss[0])
    out["psOf"] = parameters_of(ini)
    mt = MT(vars_={nm_ps: 0})
    nm_rf, _, ini = var_decl(ss[1])
    x = strip(ini)
    out["ditherIsInOfF"] = x.get("kind") == "CallExpr" and callee(x) == "in" and len(call_args(x)) == 1 and \
        is_ref(call_args(x)[0], pf)
    if not out["ditherIsInOfF"]:
        raise Refuse("i_de::crossover: the weight is not drawn by random::in(f)")
    nmr, dr, ini = var_decl(ss[2])
    if nmr != "ret" or "i_de" not in qt(dr):
        raise Refuse("i_de::crossover: third statement does not declare the trial vector `ret`")
    out["copyOf"] = who_of(ini)
    lv, lty, frm, to, body = for_parts(ss[3], mt)
    out.update(loopTy=lty, from_=frm, to_=to)
    rt = RT(locals_={nm_rf: ("rf",)}, mt=mt)
    b = block(body)
    if len(b) != 1 or b[0].get("kind") != "IfStmt" or len(kids(b[0])) != 3:
        raise Refuse("i_de::crossover: loop body is not if/else")
    g, th, el = kids(b[0])
    out["guardIsBooleanOfP"] = is_ref(boolean_arg(g), pp)
    tb, eb = block(th), block(el)
    if len(tb) != 1 or len(eb) != 1:
        raise Refuse("i_de::crossover: a branch with several statements")
    out["thenA"] = de_assign(tb[0], mt, rt)
    out["elseA"] = de_assign(eb[0], mt, rt)
    # after the loop the loop variable is out of scope
    mt2 = MT(vars_={nm_ps: 0})
    rt2 = RT(locals_={nm_rf: ("rf",)}, mt=mt2)
    out["lastA"] = de_assign(ss[4], mt2, rt2)
    rest = ss[5:]
    older = [s for s in rest if strip(s).get("kind") == "CXXMemberCallExpr" and callee(strip(s)) == "set_older_age"]
    if len(older) != 1:
        raise Refuse("i_de::crossover: %d set_older_age calls" % len(older))
    out["ageRecv"], out["ageOf"] = older_stmt(older[0])
    for s in rest:
        if s in older or is_signature_upkeep(s):
            continue
        if s.get("kind") == "ReturnStmt":
            out["returns"] = who_of(kids(s)[0])
            continue
        raise Refuse("i_de::crossover: statement %s after the loop" % s.get("kind"))
    if "returns" not in out:
        raise Refuse("i_de::crossover: no return")
    return out


# ----------------------------------------------------------------------------------------------------------
# recombination strategies
# ----------------------------------------------------------------------------------------------------------
class Flow:
    """resolves const locals of a strategy's run() to coordinates / configuration members"""

    def __init__(self):
        self.coords = {}
        self.confs = {}
        self.aliases = {}      # name -> canonical text ("pop", "env", "prob")

    def text(self, n):
        n = strip(n)
        k = n.get("kind")
        if k == "DeclRefExpr":
            nm = n.get("referencedDecl", {}).get("name")
            return self.aliases.get(nm, nm)
        if k == "MemberExpr":
            base = strip(kids(n)[0])
            if base.get("kind") == "CXXThisExpr":
                return n.get("name")
            return self.text(base) + "." + n.get("name")
        if k == "CXXMemberCallExpr":
            return self.text(member_object(n)) + "." + str(callee(n)) + "(" + \
                ",".join(self.text(a) for a in call_args(n)) + ")"
        if k == "IntegerLiteral":
            return str(n.get("value"))
        if k == "FloatingLiteral":
            return str(n.get("value"))
        if k == "CallExpr":
            return str(callee(n)) + "(" + ",".join(self.text(a) for a in call_args(n)) + ")"
        if k == "BinaryOperator":
            return "(" + self.text(kids(n)[0]) + n.get("opcode") + self.text(kids(n)[1]) + ")"
        if k == "ConditionalOperator":
            return "(" + "?".join(self.text(c) for c in kids(n)[:1]) + "?" + self.text(kids(n)[1]) + ":" + \
                self.text(kids(n)[2]) + ")"
        return "<" + str(k) + ">"

    def conf(self, n):
        n = strip(n)
        if n.get("kind") == "DeclRefExpr" and n.get("referencedDecl", {}).get("name") in self.confs:
            return self.confs[n["referencedDecl"]["name"]]
        t = self.text(n)
        table = {"pop_.get_problem().env.p_cross": "pCross", "pop_.get_problem().env.p_mutation": "pMutation",
                 "pop_.get_problem().env.de.weight": "deWeight",
                 "pop_.get_problem().env.brood_recombination": "brood"}
        if t in table:
            return (table[t],)
        return ("other", t)

    def coord(self, n):
        n = strip(n)
        k = n.get("kind")
        if k == "DeclRefExpr" and n.get("referencedDecl", {}).get("name") in self.coords:
            return self.coords[n["referencedDecl"]["name"]]
        if k == "CXXOperatorCallExpr" and callee(n) == "operator[]":
            obj, idx = call_args(n)
            if is_ref(obj, "parent"):
                i = MT().e(idx)
                if i[0] == "cast":
                    i = i[2]
                if i[0] != "lit":
                    raise Refuse("parent[…] with a non-constant index")
                return ("parent", i[1])
        if k == "CallExpr" and callee(n) == "pickup" and len(call_args(n)) == 2:
            p, near = call_args(n)
            if self.text(p) != "pop_":
                raise Refuse("pickup from %s" % self.text(p))
            return ("pickup", self.coord(near))
        if k == "ConditionalOperator":
            c, t, e = kids(n)
            c = strip(c)
            if c.get("kind") == "BinaryOperator" and c.get("opcode") == ">":
                l, r = [strip(x) for x in kids(c)]
                if l.get("kind") == "CXXMemberCallExpr" and callee(l) == "size" and is_ref(member_object(l), "parent"):
                    v = MT().e(r)
                    if v[0] == "cast":
                        v = v[2]
                    if v[0] == "lit":
                        return ("ifParents", v[1], self.coord(t), self.coord(e))
            if c.get("kind") == "CallExpr" and callee(c) == "boolean" and not call_args(c):
                return ("flip", self.coord(t), self.coord(e))
            raise Refuse("coordinate chosen by the condition %s" % self.text(c))
        raise Refuse("not a population coordinate: %s" % self.text(n))

    def pop_at(self, n):
        """`pop[coord]` -> coord"""
        n = strip(n)
        if n.get("kind") == "CXXOperatorCallExpr" and callee(n) == "operator[]":
            obj, idx = call_args(n)
            if self.text(obj) == "pop_":
                return self.coord(idx)
        raise Refuse("not an element of the population: %s" % self.text(n))

    def local(self, s):
        """const local of the preamble: alias of pop_ / problem / env, configuration member or coordinate"""
        nm, d, ini = var_decl(s)
        t = self.text(ini)
        ty = d.get("type", {}).get("qualType", "")
        if "const" not in ty:
            raise Refuse("mutable local %s in a strategy" % nm)
        if t in ("pop_", "pop_.get_problem()", "pop_.get_problem().env"):
            self.aliases[nm] = t
            return
        if "coord" in ty:
            self.coords[nm] = self.coord(ini)
            return
        c = self.conf(ini)
        if c[0] != "other":
            self.confs[nm] = c
            return
        raise Refuse("local %s = %s" % (nm, t))


def run_method(docs, cls, targ):
    s = spec_of(docs, cls, targ)
    return method(s, "run")


def derun_code(docs):
    m = run_method(docs, "de", "i_de")
    fl = Flow()
    ss = stmts(body_of(m))
    for s in ss[:-1]:
        fl.local(s)
    r = ss[-1]
    if r.get("kind") != "ReturnStmt":
        raise Refuse("de::run does not end with a return")
    calls = X.find_all(r, lambda n: isinstance(n, dict) and n.get("kind") == "CXXMemberCallExpr" and callee(n) == "crossover")
    if len(calls) != 1:
        raise Refuse("de::run: %d crossover calls in the return" % len(calls))
    c = calls[0]
    a = call_args(c)
    if len(a) != 5:
        raise Refuse("de::run: crossover with %d arguments" % len(a))
    # the returned object must be exactly {<that call>}
    others = X.find_all(r, lambda n: isinstance(n, dict) and n.get("kind") in ("CallExpr", "CXXMemberCallExpr") and n is not c
                        and callee(n) not in ("crossover",) and n.get("kind") == "CXXMemberCallExpr" and
                        callee(n) in ("mutation", "inc_age", "set_older_age"))
    if others:
        raise Refuse("de::run: the offspring is modified after the crossover")
    return {"target": fl.pop_at(member_object(c)), "p": fl.conf(a[0]), "f": fl.conf(a[1]),
            "a": fl.pop_at(a[2]), "b": fl.pop_at(a[3]), "c": fl.pop_at(a[4])}


def garun_code(docs):
    m = run_method(docs, "base", "i_ga")
    fl = Flow()
    ss = stmts(body_of(m))
    i = 0
    while i < len(ss) and ss[i].get("kind") == "DeclStmt":
        fl.local(ss[i])
        i += 1
    if i >= len(ss) or ss[i].get("kind") != "IfStmt" or len(kids(ss[i])) != 2:
        raise Refuse("base::run: no `if (random::boolean(p_cross))` without else after the preamble")
    out = {"r1": fl.coords.get("r1"), "r2": fl.coords.get("r2")}
    if out["r1"] is None or out["r2"] is None:
        raise Refuse("base::run: r1 / r2 not found")
    g, th = kids(ss[i])
    ga = boolean_arg(g)
    if ga is None:
        raise Refuse("base::run: crossover guard without probability")
    out["crossGuard"] = fl.conf(ga)
    tb = block(th)
    # the lambda cross_and_mutate
    nm_l, d_l, ini_l = var_decl(tb[0])
    lam = strip(ini_l)
    if lam.get("kind") != "LambdaExpr":
        raise Refuse("base::run: first statement of the crossover branch is not the lambda")
    rec = [x for x in kids(lam) if x.get("kind") == "CXXRecordDecl"][0]
    op = [mm for mm in kids(rec) if mm.get("kind") == "CXXMethodDecl" and mm.get("name") == "operator()"][0]
    lp = [p["name"] for p in kids(op) if p.get("kind") == "ParmVarDecl"]
    lb = stmts(body_of(op))
    nm_ret, _, ini_ret = var_decl(lb[0])
    x = strip(ini_ret)
    if x.get("kind") != "CallExpr" or callee(x) != "crossover" or len(call_args(x)) != 2:
        raise Refuse("base::run: the lambda does not start with crossover(p1, p2)")
    order = []
    for a in call_args(x):
        a = strip(a)
        nm = a.get("referencedDecl", {}).get("name") if a.get("kind") == "DeclRefExpr" else None
        if nm not in lp:
            raise Refuse("base::run: crossover argument is not a lambda parameter")
        order.append(lp.index(nm))
    mut_guard = mut_p = None
    for s in lb[1:]:
        s2 = strip(s)
        k = s2.get("kind")
        if k == "UnaryOperator" and s2.get("opcode") == "++" and "crossovers" in fl.text(kids(s2)[0]):
            continue
        if k == "ReturnStmt":
            if not is_ref(kids(s2)[0], nm_ret):
                raise Refuse("base::run: the lambda does not return the crossover child")
            continue
        if k == "IfStmt" and len(kids(s2)) == 2:
            c = strip(kids(s2)[0])
            if c.get("kind") == "BinaryOperator" and c.get("opcode") == ">" and \
                    strip(kids(c)[1]).get("kind") == "FloatingLiteral" and float(strip(kids(c)[1]).get("value")) == 0.0:
                mut_guard = fl.conf(kids(c)[0])
                wb = block(kids(s2)[1])
                if len(wb) != 1 or wb[0].get("kind") != "WhileStmt":
                    raise Refuse("base::run: mutation guard does not contain a single while loop")
                wbody = block(kids(wb[0])[1])
                if len(wbody) != 1:
                    raise Refuse("base::run: while loop with several statements")
                mc = X.find_all(wbody[0], lambda n: isinstance(n, dict) and n.get("kind") == "CXXMemberCallExpr" and
                                callee(n) == "mutation")
                if len(mc) != 1 or not is_ref(member_object(mc[0]), nm_ret):
                    raise Refuse("base::run: while loop does not mutate the child")
                mut_p = fl.conf(call_args(mc[0])[0])
                continue
        raise Refuse("base::run: statement %s in the lambda" % k)
    # calls of the lambda: all with the same population elements
    lcalls = X.find_all(th, lambda n: isinstance(n, dict) and n.get("kind") == "CXXOperatorCallExpr" and
                        callee(n) == "operator()" and len(call_args(n)) == 3 and is_ref(call_args(n)[0], nm_l))
    if not lcalls:
        raise Refuse("base::run: the lambda is never called")
    bound = None
    for c in lcalls:
        a = call_args(c)[1:]
        cur = (fl.pop_at(a[0]), fl.pop_at(a[1]))
        if bound is not None and cur != bound:
            raise Refuse("base::run: the lambda is called with different parents")
        bound = cur
    out["lhs"], out["rhs"] = bound[order[0]], bound[order[1]]
    out["mutGuardPositive"] = mut_guard if mut_guard is not None else ("other", "absent")
    out["mutP"] = mut_p if mut_p is not None else ("other", "absent")
    # brood: `if (brood > 1) { … for (i = 1; i < brood; ++i) … }`
    brood = ("other", "absent")
    for s in tb[1:]:
        if s.get("kind") == "IfStmt":
            c = strip(kids(s)[0])
            if c.get("kind") == "BinaryOperator" and c.get("opcode") == ">":
                brood = fl.conf(kids(c)[0])
                loops = X.find_all(kids(s)[1], lambda n: isinstance(n, dict) and n.get("kind") == "ForStmt")
                if len(loops) != 1:
                    raise Refuse("base::run: brood branch with %d loops" % len(loops))
                parts = loops[0].get("inner", [])
                lc = strip(parts[2])
                if lc.get("kind") != "BinaryOperator" or lc.get("opcode") != "<" or fl.conf(kids(lc)[1]) != brood:
                    raise Refuse("base::run: brood loop is not bounded by the brood size")
                nm_i, d_i, ini_i = var_decl(parts[0])
                v = MT().e(ini_i)
                if v[0] == "cast":
                    v = v[2]
                if v != ("lit", 1):
                    raise Refuse("base::run: brood loop does not start at 1")
    out["broodCount"] = brood
    # else part: T off(pop[boolean() ? r1 : r2]); stats_->mutations += off.mutation(p_mutation, prob); return {off};
    rest = ss[i + 1:]
    nm_off, _, ini_off = var_decl(rest[0])
    out["elseCopy"] = fl.pop_at(ini_off)
    mc = X.find_all(rest[1], lambda n: isinstance(n, dict) and n.get("kind") == "CXXMemberCallExpr" and callee(n) == "mutation")
    if len(mc) != 1 or not is_ref(member_object(mc[0]), nm_off):
        raise Refuse("base::run: the copied parent is not mutated")
    out["elseMutP"] = fl.conf(call_args(mc[0])[0])
    if len(rest) != 3 or rest[2].get("kind") != "ReturnStmt":
        raise Refuse("base::run: unexpected statements after the mutation of the copy")
    return out


# ----------------------------------------------------------------------------------------------------------
# vita::range(m, u)
# ----------------------------------------------------------------------------------------------------------
def range_code(docs):
    fs = [d for d in docs if d.get("kind") == "FunctionTemplateDecl" and d.get("name") == "range"]
    if len(fs) != 1:
        raise Refuse("%d templates vita::range" % len(fs))
    tps = [c.get("name") for c in kids(fs[0]) if c.get("kind") == "TemplateTypeParmDecl"]
    fd = [c for c in kids(fs[0]) if c.get("kind") == "FunctionDecl"][0]
    ps = [c.get("name") for c in kids(fd) if c.get("kind") == "ParmVarDecl"]
    if len(ps) != 2:
        raise Refuse("vita::range takes %d parameters" % len(ps))
    ret = fd.get("type", {}).get("qualType", "").split("(")[0].strip()
    m = re.match(r"^(?:std::)?pair<\s*([^,<>]+?)\s*,\s*([^,<>]+?)\s*>$", ret)

    def tyref(txt):
        txt = txt.strip()
        return ("tparam", tps.index(txt)) if txt in tps else ("other", txt)
    if m:
        first, second = tyref(m.group(1)), tyref(m.group(2))
    else:
        first = second = ("other", ret)
    ss = stmts(body_of(fd))
    if len(ss) != 1 or ss[0].get("kind") != "ReturnStmt":
        raise Refuse("vita::range is not a single return")
    c = kids(ss[0])[0]
    while c.get("kind") in WRAP:
        c = kids(c)[0]
    if c.get("kind") not in ("CXXUnresolvedConstructExpr", "CXXConstructExpr", "InitListExpr", "ParenListExpr",
                             "CXXTemporaryObjectExpr"):
        raise Refuse("vita::range returns a %s" % c.get("kind"))
    args = [a for a in kids(c) if a.get("kind") != "CXXDefaultArgExpr"]
    if len(args) != 2:
        raise Refuse("vita::range builds its result from %d values" % len(args))

    def src(a):
        a = strip(a)
        if a.get("kind") == "CallExpr":
            f = strip(kids(a)[0])
            nm = f.get("name") or f.get("referencedDecl", {}).get("name")
            if nm not in ("forward", "move") or len(call_args(a)) != 1:
                raise Refuse("vita::range: component computed by %r" % nm)
            a = strip(call_args(a)[0])
        if a.get("kind") == "DeclRefExpr" and a.get("referencedDecl", {}).get("name") in ps:
            return ps.index(a["referencedDecl"]["name"])
        raise Refuse("vita::range: a component is not one of the parameters")
    return {"firstTy": first, "secondTy": second, "firstFrom": src(args[0]), "secondFrom": src(args[1])}


# ----------------------------------------------------------------------------------------------------------
# driver
# ----------------------------------------------------------------------------------------------------------
FILTERS = ["vita::range", "vita::individual", "vita::random::", "vita::ga::detail::number", "vita::i_ga::", "vita::i_de::",
           "vita::crossover", "vita::recombination::"]


def translate():
    with cf.ThreadPoolExecutor(4) as ex:
        dumps = dict(zip(FILTERS, ex.map(lambda f: X.ast_dump(TU, f), FILTERS)))
    ind = dumps["vita::individual"]
    age = age_code(spec_of(ind, "individual", "i_ga"))
    age_de = age_code(spec_of(ind, "individual", "i_de"))
    if age != age_de:
        raise Refuse("individual<i_ga> and individual<i_de> keep their age differently")
    rnd = dumps["vita::random::"]
    out = {"age": age, "range": range_code(dumps["vita::range"]),
           "randInt": rand_int(rnd, "int", "i32", False, True),
           "randReal": rand_real(rnd),
           "initInt": init_code(dumps["vita::ga::detail::number"], "int"),
           "initReal": init_code(dumps["vita::ga::detail::number"], "double"),
           "gaCtor": ctor_code(dumps["vita::i_ga::"], "i_ga"),
           "deCtor": ctor_code(dumps["vita::i_de::"], "i_de"),
           "gaMut": mut_code(dumps["vita::i_ga::"]),
           "gaXo": xo_code(dumps["vita::crossover"]),
           "deXo": dexo_code(dumps["vita::i_de::"]),
           "deRun": derun_code(dumps["vita::recombination::"]),
           "gaRun": garun_code(dumps["vita::recombination::"])}
    # the cut points are drawn at the type of `ps`
    idx_ty = out["gaXo"]["loopTy"]
    cty = [k for k, v in TYPES.items() if v == idx_ty and k in ("unsigned long", "unsigned int", "int", "long")]
    out["randIdx"] = rand_int(rnd, cty[0], idx_ty, True, False)
    return out


def rAssign(a):
    return "{ idx := %s, val := %s }" % (rE(a["idx"]), rRE(a["val"]))


def render(o):
    L = ["-- GENERATED by tools/translate_gade.py from the clang AST of individual.h/.tcc, random.h, ga/primitive.h,",
         "-- ga/i_ga.cc, ga/i_de.cc and evolution_recombination.tcc (regenerated on every check run; do not edit)",
         "import Vita.C17.Code", "namespace Vita.C17.Gen", "open Vita.C17.M Vita.C17.Code", ""]
    a = o["age"]
    L.append("def age : AgeCode :=\n  { field := .%s, getTy := .%s, get := %s,\n    inc := %s,\n    paramTy := .%s, olderCond := %s,\n"
             "    olderNew := %s,\n    tmpTy := .%s, loadNew := %s }\n"
             % (a["field"], a["getTy"], rE(a["get"]), rE(a["inc"]), a["paramTy"], rE(a["olderCond"]),
                rE(a["olderNew"]), a["tmpTy"], rE(a["loadNew"])))
    r = o["range"]

    def rTy(t):
        return "(.tparam %d)" % t[1] if t[0] == "tparam" else '(.other "%s")' % t[1].replace('"', "'")
    L.append("def range : RangeCode :=\n  { firstTy := %s, secondTy := %s, firstFrom := %d, secondFrom := %d }\n"
             % (rTy(r["firstTy"]), rTy(r["secondTy"]), r["firstFrom"], r["secondFrom"]))
    for nm in ("randInt", "randIdx"):
        r = o[nm]
        L.append("def %s : RandInt :=\n  { ty := .%s, betA := %s, betB := %s,\n    supA := %s, supB := %s,\n    inA := %s, inB := %s }\n"
                 % (nm, r["ty"], rE(r["betA"]), rE(r["betB"]), rE(r["supA"]), rE(r["supB"]), rE(r["inA"]), rE(r["inB"])))
    r = o["randReal"]
    L.append("def randReal : RandReal :=\n  { halvesWhenWide := %s, ctorA := %s, ctorB := %s,\n    ret := %s,\n    inA := %s, inB := %s }\n"
             % (rBool(r["halvesWhenWide"]), rRE(r["ctorA"]), rRE(r["ctorB"]), rRE(r["ret"]), rRE(r["inA"]), rRE(r["inB"])))
    for nm in ("initInt", "initReal"):
        r = o[nm]
        L.append("def %s : InitCode :=\n  { src := .%s, elemTy := %s, viaDouble := %s }\n"
                 % (nm, r["src"], ("some .%s" % r["elemTy"]) if r["elemTy"] else "none", rBool(r["viaDouble"])))
    for nm in ("gaCtor", "deCtor"):
        r = o[nm]
        L.append("def %s : CtorCode :=\n  { sizeIsCategories := %s, wholeGenome := %s, counterTy := .%s, counterInit := %s,\n"
                 "    termIdx := %s,\n    counterNext := %s, toInt := %s }\n"
                 % (nm, rBool(r["sizeIsCategories"]), rBool(r["wholeGenome"]), r["counterTy"], rE(r["counterInit"]),
                    rE(r["termIdx"]), rE(r["counterNext"]), rBool(r["toInt"])))
    r = o["gaMut"]
    L.append("def gaMut : MutCode :=\n  { psOf := .%s, loopTy := .%s, from_ := %s, to_ := %s, guardIsBooleanOfPgm := %s,\n"
             "    termIdx := %s, cmpIdx := %s, dstIdx := %s, cmpIsNe := %s,\n    counterTy := .%s, returnsCounter := %s, touchesAge := %s }\n"
             % (r["psOf"], r["loopTy"], rE(r["from_"]), rE(r["to_"]), rBool(r["guardIsBooleanOfPgm"]), rE(r["termIdx"]),
                rE(r["cmpIdx"]), rE(r["dstIdx"]), rBool(r["cmpIsNe"]), r["counterTy"], rBool(r["returnsCounter"]),
                rBool(r["touchesAge"])))
    r = o["gaXo"]
    L.append("def gaXo : XoCode :=\n  { psOf := .%s,\n    cut1 := %s,\n    cut2 := %s,\n    copyOf := .%s, loopTy := .%s, from_ := %s, to_ := %s,\n"
             "    dstIdx := %s, src := .%s, srcIdx := %s,\n    ageRecv := .%s, ageOf := .%s, returns := .%s }\n"
             % (r["psOf"], rDraw(r["cut1"]), rDraw(r["cut2"]), r["copyOf"], r["loopTy"], rE(r["from_"]), rE(r["to_"]),
                rE(r["dstIdx"]), r["src"], rE(r["srcIdx"]), r["ageRecv"], r["ageOf"], r["returns"]))
    r = o["deXo"]
    L.append("def deXo : DeXoCode :=\n  { psOf := .%s, ditherIsInOfF := %s, copyOf := .%s, loopTy := .%s,\n    from_ := %s, to_ := %s,\n"
             "    guardIsBooleanOfP := %s,\n    thenA := %s,\n    elseA := %s,\n    lastA := %s,\n"
             "    ageRecv := .%s, ageOf := [%s], returns := .%s }\n"
             % (r["psOf"], rBool(r["ditherIsInOfF"]), r["copyOf"], r["loopTy"], rE(r["from_"]), rE(r["to_"]),
                rBool(r["guardIsBooleanOfP"]), rAssign(r["thenA"]), rAssign(r["elseA"]), rAssign(r["lastA"]),
                r["ageRecv"], ", ".join("." + w for w in r["ageOf"]), r["returns"]))
    r = o["deRun"]
    L.append("def deRun : DeRunCode :=\n  { target := %s, p := %s, f := %s,\n    a := %s,\n    b := %s,\n    c := %s }\n"
             % (rCoord(r["target"]), rConf(r["p"]), rConf(r["f"]), rCoord(r["a"]), rCoord(r["b"]), rCoord(r["c"])))
    r = o["gaRun"]
    L.append("def gaRun : GaRunCode :=\n  { r1 := %s,\n    r2 := %s,\n    crossGuard := %s, lhs := %s, rhs := %s,\n"
             "    mutGuardPositive := %s, mutP := %s, broodCount := %s,\n    elseCopy := %s, elseMutP := %s }\n"
             % (rCoord(r["r1"]), rCoord(r["r2"]), rConf(r["crossGuard"]), rCoord(r["lhs"]), rCoord(r["rhs"]),
                rConf(r["mutGuardPositive"]), rConf(r["mutP"]), rConf(r["broodCount"]), rCoord(r["elseCopy"]),
                rConf(r["elseMutP"])))
    L.append("end Vita.C17.Gen\n")
    return "\n".join(L)


def emit(path):
    o = translate()
    txt = render(o)
    old = open(path).read() if os.path.exists(path) else None
    if old != txt:
        os.makedirs(os.path.dirname(path), exist_ok=True)
        with open(path, "w") as f:
            f.write(txt)
    return o, old is not None and old != txt


if __name__ == "__main__":
    here = os.path.dirname(os.path.dirname(os.path.abspath(__file__)))
    try:
        o, changed = emit(os.path.join(here, "lean", "Vita", "C17", "Gen.lean"))
        print("translated:", " ".join(sorted(o)), "(changed)" if changed else "")
    except Refuse as e:
        print("REFUSE:", e)
        sys.exit(2)
