#!/usr/bin/env python3
"""Translate every `eval` body of `vita::integer::*` (int.h, current /repo working tree)
into a term of `Vita.IntE.E` (syntax only) -> lean/Vita/C14/Gen.lean.

Refuses on anything it does not understand."""
import os
import sys

sys.path.insert(0, os.path.dirname(os.path.abspath(__file__)))
from cxx2lean import (Refuse, ast_dump, kids, qtype, peel, callee_name, records_with_method,
                      int_type, SIZEOF, LIMITS)

BIN = {"+": "add", "-": "sub", "*": "mul", "/": "div", "%": "mod", "<<": "shl", ">>": "shr"}
CMP = {"<": "lt", ">": "gt", "<=": "le", ">=": "ge", "==": "eq", "!=": "ne"}
WIDTH = {"i32": 32, "i64": 64, "u32": 32, "u64": 64, "bool": 1}


def is_const(t):
    return t[0] == "lit"


def fold_bin(op, ty, a, b):
    """Compile-time folding of constant sub-expressions (as the compiler does)."""
    x, y = a[1], b[1]
    if op == "add":
        r = x + y
    elif op == "sub":
        r = x - y
    elif op == "mul":
        r = x * y
    elif op == "div":
        if y == 0:
            raise Refuse("constant division by zero")
        r = abs(x) // abs(y) * (1 if (x >= 0) == (y >= 0) else -1)
    elif op == "shl":
        r = x << y
    elif op == "shr":
        r = x >> y
    else:
        raise Refuse("cannot fold " + op)
    if ty in ("u32", "u64"):
        r %= 1 << WIDTH[ty]
    elif not (-(1 << (WIDTH[ty] - 1)) <= r < (1 << (WIDTH[ty] - 1))):
        raise Refuse("constant expression overflows")
    return ("lit", r)


class Tr:
    def __init__(self):
        self.locals = {}

    def arg_index(self, n):
        """n is `args[i]` (CXXOperatorCallExpr operator[] on the symbol_params parameter)."""
        n = peel(n)
        if n.get("kind") == "CXXOperatorCallExpr" and callee_name(n) == "operator[]":
            ks = kids(n)
            base = peel(ks[1])
            if base.get("kind") == "DeclRefExpr" and "symbol_params" in qtype(base):
                idx = self.expr(ks[2], allow_unsigned=True)
                if idx[0] != "lit":
                    raise Refuse("non-constant argument index")
                return idx[1]
        return None

    def expr(self, n, allow_unsigned=False):
        k = n.get("kind")
        if k in ("ExprWithCleanups", "MaterializeTemporaryExpr", "CXXBindTemporaryExpr",
                 "ParenExpr", "ConstantExpr"):
            return self.expr(kids(n)[0], allow_unsigned)
        if k == "IntegerLiteral":
            return ("lit", int(n["value"]))
        if k == "CXXBoolLiteralExpr":
            return ("lit", 1 if n["value"] else 0)
        if k == "UnaryExprOrTypeTraitExpr" and n.get("name") == "sizeof":
            at = n.get("argType", {})
            t = at.get("desugaredQualType", at.get("qualType"))
            if t not in SIZEOF:
                raise Refuse("sizeof(%s)" % t)
            return ("lit", SIZEOF[t])
        if k == "DeclRefExpr":
            name = n.get("referencedDecl", {}).get("name")
            if name in self.locals:
                return self.locals[name]
            raise Refuse("reference to unknown variable %r" % name)
        if k in ("ImplicitCastExpr", "CXXStaticCastExpr", "CXXFunctionalCastExpr", "CStyleCastExpr"):
            ck = n.get("castKind")
            inner = kids(n)[-1]
            if ck in ("NoOp", "LValueToRValue"):
                return self.expr(inner, allow_unsigned)
            if ck == "IntegralCast":
                src, dst = int_type(inner), int_type(n)
                e = self.expr(inner, True)
                if is_const(e):
                    v = e[1]
                    if dst in ("u32", "u64"):
                        v %= 1 << WIDTH[dst]
                    elif not (-(1 << (WIDTH[dst] - 1)) <= v < (1 << (WIDTH[dst] - 1))):
                        raise Refuse("constant narrowing changes the value")
                    return ("lit", v)
                if src in ("u32", "u64") or dst in ("u32", "u64"):
                    raise Refuse("non-constant unsigned arithmetic (%s -> %s)" % (src, dst))
                if src == "bool" or WIDTH[src] <= WIDTH[dst]:
                    return e
                return ("cast", dst, e)
            if ck == "IntegralToBoolean":
                return ("cmp", "ne", self.expr(inner), ("lit", 0))
            raise Refuse("cast kind %s" % ck)
        if k == "UnaryOperator":
            op = n.get("opcode")
            a = self.expr(kids(n)[0])
            if op == "-":
                if is_const(a):
                    return ("lit", -a[1])
                return ("bin", "sub", int_type(n), ("lit", 0), a)
            if op == "+":
                return a
            if op == "!":
                return ("not", a)
            raise Refuse("unary operator %s" % op)
        if k == "BinaryOperator":
            op = n.get("opcode")
            ks = kids(n)
            if op in ("&&", "||"):
                a, b = self.expr(ks[0]), self.expr(ks[1])
                return ("and" if op == "&&" else "or", a, b)
            a, b = self.expr(ks[0], True), self.expr(ks[1], True)
            if op in CMP:
                ta, tb = int_type(ks[0]), int_type(ks[1])
                if (ta in ("u32", "u64") or tb in ("u32", "u64")) and not (is_const(a) and is_const(b)):
                    raise Refuse("unsigned comparison")
                return ("cmp", CMP[op], a, b)
            if op in BIN:
                ty = int_type(n)
                if is_const(a) and is_const(b):
                    return fold_bin(BIN[op], ty, a, b)
                if ty not in ("i32", "i64"):
                    raise Refuse("arithmetic at type %s" % ty)
                return ("bin", BIN[op], ty, a, b)
            raise Refuse("binary operator %s" % op)
        if k == "ConditionalOperator":
            c, t, e = [self.expr(x) for x in kids(n)]
            return ("ite", c, t, e)
        if k == "CallExpr":
            name = callee_name(n)
            ks = kids(n)
            if name == "cast" and len(ks) == 2:
                i = self.arg_index(ks[1])
                if i is None:
                    raise Refuse("integer::cast of something that is not args[i]")
                return ("var", i)
            if name in ("max", "min", "lowest") and len(ks) == 1:
                f = peel(ks[0])
                ty = int_type(n)
                if (ty, name) in LIMITS and "noexcept" in qtype(f):
                    return ("lit", LIMITS[(ty, name)])
            raise Refuse("call to %r" % name)
        raise Refuse("expression node %s" % k)

    def ret(self, n):
        """Value of a `return` operand."""
        i = self.arg_index(n)
        if i is not None:
            return ("arg", i)
        p = peel(n)
        i = self.arg_index(p)
        if i is not None:
            return ("arg", i)
        return self.expr(p)

    def body(self, stmts):
        if not stmts:
            raise Refuse("control reaches the end of a non-void function")
        s, rest = stmts[0], stmts[1:]
        k = s.get("kind")
        if k == "CompoundStmt":
            return self.body(kids(s) + rest)
        if k == "DeclStmt":
            for d in kids(s):
                if d.get("kind") == "StaticAssertDecl":
                    continue
                if d.get("kind") != "VarDecl" or not kids(d):
                    raise Refuse("declaration %s" % d.get("kind"))
                if "const" not in d.get("type", {}).get("qualType", ""):
                    raise Refuse("mutable local %s" % d.get("name"))
                init = kids(d)[0]
                e = self.expr(init)
                vt, it = int_type(d), int_type(peel(init)) if qtype(peel(init)) else None
                if vt not in ("i32", "i64"):
                    raise Refuse("local of type %s" % vt)
                self.locals[d["name"]] = e
            return self.body(rest)
        if k == "IfStmt":
            ks = kids(s)
            if s.get("hasInit") or s.get("hasVar"):
                raise Refuse("if with initialiser")
            c = self.expr(ks[0])
            saved = dict(self.locals)
            t = self.body([ks[1]] if not s.get("hasElse") else [ks[1]])
            self.locals = dict(saved)
            if s.get("hasElse"):
                e = self.body([ks[2]] + rest)
            else:
                e = self.body(rest)
            self.locals = saved
            return ("ite", c, t, e)
        if k == "ReturnStmt":
            return self.ret(kids(s)[0])
        if k == "NullStmt":
            return self.body(rest)
        raise Refuse("statement %s" % k)


def render(t, ind=2):
    pad = " " * ind
    h = t[0]
    if h == "lit":
        return "(.lit (%d))" % t[1]
    if h in ("var", "arg"):
        return "(.%s %d)" % (h, t[1])
    if h == "bin":
        return "(.bin .%s .%s\n%s%s\n%s%s)" % (t[1], t[2], pad, render(t[3], ind + 2), pad, render(t[4], ind + 2))
    if h == "cmp":
        return "(.cmp .%s %s %s)" % (t[1], render(t[2], ind + 2), render(t[3], ind + 2))
    if h == "not":
        return "(.not %s)" % render(t[1], ind + 2)
    if h in ("and", "or"):
        return "(.%s\n%s%s\n%s%s)" % (h, pad, render(t[1], ind + 2), pad, render(t[2], ind + 2))
    if h == "ite":
        return "(.ite %s\n%s%s\n%s%s)" % (render(t[1], ind + 2), pad, render(t[2], ind + 2), pad, render(t[3], ind + 2))
    if h == "cast":
        return "(.cast .%s %s)" % (t[1], render(t[2], ind + 2))
    raise Refuse("render " + h)


# ---------------------------------------------------------------------------------------------
# The ephemeral constant `integer::number` (double parameter -> int), `integer::cast`, and the
# class / member tables of namespace vita::integer  ->  lean/Vita/C14/GenNum.lean
#
# `number::eval` / `number::init` mix `double` and `int`.  Only EXACT double operations are
# translated (comparisons, isnan/isfinite, int -> double, double -> int); they become calls of the
# exact bit-level model `Vita.B64` (Vita/C14/Model.lean).  The conversion double -> int is the
# checked `B64.toInt` (a fault = undefined behaviour, C++17 [conv.fpint]); the function is a term
# of `Except Fault Int`.  Rounding arithmetic on doubles is refused.
# ---------------------------------------------------------------------------------------------
import struct

import prim_classes

DBL_T = {"double", "vita::terminal_param_t", "const double", "const vita::terminal_param_t"}
INT_T = {"int", "const int", "vita::integer::base_t", "const vita::integer::base_t"}
VAL_T = ("vita::value_t", "std::variant<std::monostate, int, double, std::basic_string<char>>",
         "variant<std::monostate, int, double, std::basic_string<char>>")


def ntype(n):
    t = qtype(n).replace("const ", "").strip()
    if t in ("double", "vita::terminal_param_t"):
        return "dbl"
    if t in ("int", "vita::integer::base_t"):
        return "int"
    if t == "bool":
        return "bool"
    if t in VAL_T:
        return "val"
    raise Refuse("expression of unsupported type %r (%s)" % (qtype(n), n.get("kind")))


class TrNum:
    """expressions: k(text, type) -> text of the rest (CPS, because double -> int may fault)"""

    def __init__(self, fields=()):
        self.locals = {}
        self.fields = set(fields)
        self.n = 0

    def fresh(self, p):
        self.n += 1
        return "%s%d" % (p, self.n)

    def seq(self, nodes, k):
        def go(i, acc):
            if i == len(nodes):
                return k(acc)
            return self.ex(nodes[i], lambda t, ty: go(i + 1, acc + [(t, ty)]))
        return go(0, [])

    def ex(self, n, k):
        kd = n.get("kind")
        ks = kids(n)
        if kd in ("ExprWithCleanups", "MaterializeTemporaryExpr", "CXXBindTemporaryExpr", "ParenExpr", "ConstantExpr"):
            return self.ex(ks[0], k)
        if kd in ("ImplicitCastExpr", "CXXStaticCastExpr", "CXXFunctionalCastExpr", "CStyleCastExpr"):
            ck = n.get("castKind")
            if ck in ("NoOp", "LValueToRValue", "ConstructorConversion", "FunctionToPointerDecay"):
                return self.ex(ks[-1], k)
            if ck == "FloatingToIntegral":
                if ntype(n) != "int":
                    raise Refuse("floating-to-integral conversion to %s" % qtype(n))
                def cv(t, ty):
                    if ty != "dbl":
                        raise Refuse("floating-to-integral conversion from %s" % ty)
                    v = self.fresh("n")
                    return "(Except.bind (B64.toInt .i32 %s) fun %s =>\n%s)" % (t, v, k(v, "int"))
                return self.ex(ks[-1], cv)
            if ck == "IntegralToFloating":
                def cv2(t, ty):
                    if ty != "int":
                        raise Refuse("integral-to-floating conversion from %s" % ty)
                    return k("(B64.ofInt %s)" % t, "dbl")
                return self.ex(ks[-1], cv2)
            if ck == "IntegralCast":
                if ntype(n) == "int" and ntype(ks[-1]) == "int":
                    return self.ex(ks[-1], k)
                raise Refuse("integral cast %s -> %s" % (qtype(ks[-1]), qtype(n)))
            raise Refuse("cast kind %s" % ck)
        if kd in ("CXXConstructExpr", "CXXTemporaryObjectExpr"):
            if ntype(n) != "val" or len(ks) != 1:
                raise Refuse("construction of %s" % qtype(n))
            return self.ex(ks[0], lambda t, ty: k(t, "val:" + ty))
        if kd == "IntegerLiteral":
            return k("(%d)" % int(n["value"]), "int")
        if kd == "FloatingLiteral":
            b = struct.unpack("<Q", struct.pack("<d", float(n["value"])))[0]
            return k("(0x%016X)" % b, "dbl")
        if kd == "CXXBoolLiteralExpr":
            return k("true" if n["value"] else "false", "bool")
        if kd == "DeclRefExpr":
            name = n.get("referencedDecl", {}).get("name")
            if name in self.locals:
                return k(*self.locals[name])
            raise Refuse("reference to unknown variable %r" % name)
        if kd == "MemberExpr" and ks and ks[0].get("kind") == "CXXThisExpr":
            if n.get("name") in self.fields and ntype(n) == "int":
                return k(n["name"], "int")
            raise Refuse("member %r" % n.get("name"))
        if kd == "CXXMemberCallExpr":
            name = callee_name(n)
            obj = peel(kids(ks[0])[0]) if ks and kids(ks[0]) else {}
            if name == "fetch_param" and "symbol_params" in qtype(obj) and len(ks) == 1:
                return k("p", "dbl")
            raise Refuse("member call %s" % name)
        if kd == "CallExpr":
            name = callee_name(n)
            f = peel(ks[0])
            ftype = f.get("type", {}).get("qualType", "")
            args = ks[1:]
            if name in ("max", "min", "lowest") and not args and ntype(n) == "int" and "noexcept" in ftype:
                return k("(%d)" % LIMITS[("i32", name)], "int")
            if name in ("isnan", "isfinite") and len(args) == 1 and ftype.startswith("bool (double)"):
                fn = {"isnan": "isNaN", "isfinite": "isFinite"}[name]
                return self.ex(args[0], lambda t, ty: k("(B64.%s %s)" % (fn, t), "bool"))
            if name == "between" and len(args) == 2 and ntype(n) == "int" and \
                    all(ntype(a) == "int" for a in args):
                return self.seq(args, lambda a: k("(between %s %s)" % (a[0][0], a[1][0]), "int"))
            raise Refuse("call to %r of type %r" % (name, ftype))
        if kd == "UnaryOperator":
            op = n.get("opcode")
            if op == "!" and ntype(n) == "bool":
                return self.ex(ks[0], lambda t, ty: k("(!%s)" % t, "bool"))
            if op == "-" and ntype(n) == "int" and peel(ks[0]).get("kind") == "IntegerLiteral":
                return k("(-%d)" % int(peel(ks[0])["value"]), "int")
            raise Refuse("unary operator %s on %s" % (op, qtype(n)))
        if kd == "BinaryOperator":
            op = n.get("opcode")
            if op in ("&&", "||"):
                return self.seq(ks, lambda a: k("(%s %s %s)" % (a[0][0], op, a[1][0]), "bool"))
            ta, tb = ntype(ks[0]), ntype(ks[1])
            if ta == "dbl" and tb == "dbl":
                f = {"<": "(B64.lt %s %s)", "<=": "(B64.le %s %s)", "==": "(B64.eq %s %s)",
                     "!=": "(!(B64.eq %s %s))"}
                if op in f:
                    return self.seq(ks, lambda a: k(f[op] % (a[0][0], a[1][0]), "bool"))
                if op == ">":
                    return self.seq(ks, lambda a: k("(B64.lt %s %s)" % (a[1][0], a[0][0]), "bool"))
                if op == ">=":
                    return self.seq(ks, lambda a: k("(B64.le %s %s)" % (a[1][0], a[0][0]), "bool"))
                raise Refuse("rounding double arithmetic `%s` in integer::number" % op)
            if ta == "int" and tb == "int" and op in ("<", "<=", ">", ">=", "==", "!="):
                sym = {"==": "=", "!=": "≠", "<=": "≤", ">=": "≥"}.get(op, op)
                return self.seq(ks, lambda a: k("(decide (%s %s %s))" % (a[0][0], sym, a[1][0]), "bool"))
            raise Refuse("binary operator %s on %s, %s" % (op, qtype(ks[0]), qtype(ks[1])))
        if kd == "ConditionalOperator":
            return self.ex(ks[0], lambda t, ty: "(if %s then\n%s\nelse\n%s)" % (t, self.ex(ks[1], k), self.ex(ks[2], k)))
        raise Refuse("expression node %s" % kd)

    def body(self, stmts, ret):
        if not stmts:
            raise Refuse("control reaches the end of a non-void function")
        s, rest = stmts[0], stmts[1:]
        kd = s.get("kind")
        if kd == "CompoundStmt":
            return self.body(kids(s) + rest, ret)
        if kd == "NullStmt":
            return self.body(rest, ret)
        if kd == "DeclStmt":
            ds = kids(s)
            def go(i):
                if i == len(ds):
                    return self.body(rest, ret)
                d = ds[i]
                if d.get("kind") == "StaticAssertDecl":
                    return go(i + 1)
                if d.get("kind") != "VarDecl" or not kids(d):
                    raise Refuse("declaration %s" % d.get("kind"))
                if "const" not in d.get("type", {}).get("qualType", ""):
                    raise Refuse("mutable local %s" % d.get("name"))
                def bind(t, ty):
                    if ntype(d) != ty:
                        raise Refuse("local %s: declared %s, initialiser %s" % (d.get("name"), qtype(d), ty))
                    saved = dict(self.locals)
                    self.locals[d["name"]] = (t, ty)
                    r = go(i + 1)
                    self.locals = saved
                    return r
                return self.ex(kids(d)[0], bind)
            return go(0)
        if kd == "IfStmt":
            ks = kids(s)
            if s.get("hasInit") or s.get("hasVar"):
                raise Refuse("if with initialiser")
            def cond(t, ty):
                if ty != "bool":
                    raise Refuse("if condition of type %s" % ty)
                th = self.body([ks[1]] + rest, ret)
                el = self.body(([ks[2]] if s.get("hasElse") else []) + rest, ret)
                return "(if %s then\n%s\nelse\n%s)" % (t, th, el)
            return self.ex(ks[0], cond)
        if kd == "ReturnStmt":
            return self.ex(kids(s)[0], ret)
        raise Refuse("statement %s" % kd)


def indent_num(txt):
    out, depth = [], 1
    for ln in txt.split("\n"):
        ln = ln.strip()
        out.append("  " * max(depth - (1 if ln.startswith(")") else 0), 1) + ln)
        depth += ln.count("(") - ln.count(")")
    return "\n".join(out)


def ret_kinds(m):
    """C++ type of the operand of every `return` of an eval body, as it enters `value_t`:
    "int" (the int alternative is selected), "arg" (a raw `args[i]`), else the type's spelling."""
    out = []
    def pred(x):
        return x.get("kind") == "ReturnStmt"
    from cxx2lean import find_all
    for r in find_all(m, pred):
        e = kids(r)[0]
        tr = Tr()
        if tr.arg_index(e) is not None or tr.arg_index(peel(e)) is not None:
            out.append("arg")
            continue
        e = peel(e)      # strips the value_t construction and no-op casts
        t = qtype(e).replace("const ", "").strip()
        out.append("int" if t in ("int", "vita::integer::base_t") else t)
    return out


def translate_num():
    docs = ast_dump("int_tu.cc", "vita::integer")
    ns = [d for d in docs if d.get("kind") == "NamespaceDecl" and d.get("name") == "integer"]
    if not ns:
        raise Refuse("namespace vita::integer not found")
    classes, funcs, flags, rets, pens = [], [], [], [], []
    number_eval = number_init = cast_body = None
    for ns_doc in ns:
        classes += prim_classes.class_table(ns_doc)
        funcs += prim_classes.free_functions(ns_doc)
        for cls, base, methods, hdr in prim_classes.class_table(ns_doc):
            for mn in methods:
                m = prim_classes.method(ns_doc, cls, mn)
                if mn in ("parametric", "associative", "input"):
                    flags.append((cls, mn, prim_classes.bool_flag(m)))
                elif mn == "eval":
                    rets.append((cls, ret_kinds(m)))
                elif mn == "penalty_nvi":
                    # `return comparison_function_penalty(ci);` – the function is translated by C13
                    body = [c for c in kids(m) if c.get("kind") == "CompoundStmt"][0]
                    st = kids(body)
                    ok = len(st) == 1 and st[0].get("kind") == "ReturnStmt" and \
                        peel(kids(st[0])[0]).get("kind") == "CallExpr" and \
                        callee_name(peel(kids(st[0])[0])) == "comparison_function_penalty"
                    if not ok:
                        raise Refuse("%s::penalty_nvi is not `return comparison_function_penalty(ci)`" % cls)
                    pens.append(cls)
                elif mn in ("init", "display"):
                    pass
                else:
                    raise Refuse("member %s::%s has a body the translator does not know" % (cls, mn))
        m = prim_classes.method(ns_doc, "number", "eval")
        if m is not None:
            ps = [c for c in kids(m) if c.get("kind") == "ParmVarDecl"]
            if len(ps) != 1 or "symbol_params" not in qtype(ps[0]):
                raise Refuse("unexpected number::eval signature")
            def ret(t, ty):
                if ty != "val:int":
                    raise Refuse("integer::number::eval returns a %s, not the int alternative" % ty)
                return "(.ok %s)" % t
            number_eval = TrNum().body([c for c in kids(m) if c.get("kind") == "CompoundStmt"], ret)
        m = prim_classes.method(ns_doc, "number", "init")
        if m is not None:
            fields = [c.get("name") for c in kids([c for c in kids(ns_doc) if c.get("name") == "number" and
                                                    c.get("completeDefinition")][0]) if c.get("kind") == "FieldDecl"]
            def ret2(t, ty):
                if ty != "dbl":
                    raise Refuse("integer::number::init returns a %s" % ty)
                return t
            number_init = (fields, TrNum(fields).body([c for c in kids(m) if c.get("kind") == "CompoundStmt"], ret2))
        for c in kids(ns_doc):
            if c.get("kind") == "FunctionDecl" and c.get("name") == "cast" and \
                    any(k.get("kind") == "CompoundStmt" for k in kids(c)):
                body = [k for k in kids(c) if k.get("kind") == "CompoundStmt"][0]
                st = kids(body)
                e = peel(kids(st[0])[0]) if len(st) == 1 and st[0].get("kind") == "ReturnStmt" else {}
                ps = [k for k in kids(c) if k.get("kind") == "ParmVarDecl"]
                a = peel(kids(e)[1]) if e.get("kind") == "CallExpr" and len(kids(e)) == 2 else {}
                if not (e.get("kind") == "CallExpr" and callee_name(e) == "get" and
                        qtype(e).replace("const ", "").strip() in ("int", "vita::integer::base_t") and
                        a.get("kind") == "DeclRefExpr" and len(ps) == 1 and
                        a.get("referencedDecl", {}).get("name") == ps[0].get("name")):
                    raise Refuse("integer::cast is not `return std::get<base_t>(v)`")
                cast_body = "(B64.getInt v)"
    if number_eval is None or number_init is None or cast_body is None:
        raise Refuse("integer::number::eval / init or integer::cast not found")
    # completeness cross-check against the header text
    scan = prim_classes.header_scan().get("int.h")
    if scan is None:
        raise Refuse("int.h not found in the primitive directory")
    missing = [c for c in scan["classes"] if c not in [x[0] for x in classes]]
    if missing:
        raise Refuse("classes spelled in int.h but absent from the AST table: %s" % missing)
    return dict(classes=classes, funcs=funcs, flags=flags, rets=rets, pens=pens,
                number_eval=number_eval, number_init=number_init, cast=cast_body)


def emit_num(path):
    t = translate_num()
    L = ["-- GENERATED by tools/translate_int.py from /repo/src/kernel/gp/src/primitive/int.h",
         "-- (integer::number, integer::cast, class / member tables; regenerated on every check run; do not edit)",
         "import Vita.C14.Model", "namespace Vita.C14.GenNum", "open Vita Vita.IntE", ""]
    L.append("/-- every class of namespace vita::integer: (name, base, members defined with a body, header) -/")
    L.append("def classes : List (String × String × List String × String) :=\n  [" + ",\n   ".join(
        '("%s", "%s", %s, "%s")' % (c, b, prim_classes.lean_str_list(ms), h) for c, b, ms, h in t["classes"]) + "]\n")
    L.append("/-- free functions of the namespace -/")
    L.append("def functions : List String := " + prim_classes.lean_str_list(t["funcs"]) + "\n")
    L.append("/-- constant boolean members: (class, member, value) -/")
    L.append("def flags : List (String × String × Bool) :=\n  [" + ", ".join(
        '("%s", "%s", %s)' % (c, m, "true" if v else "false") for c, m, v in t["flags"]) + "]\n")
    L.append("/-- classes whose `penalty_nvi` is `comparison_function_penalty(ci)` (translated by C13) -/")
    L.append("def penalties : List String := " + prim_classes.lean_str_list(t["pens"]) + "\n")
    L.append("/-- how the operand of every `return` of an `eval` enters `value_t`: \"int\" = the int alternative,\n"
             "    \"arg\" = an argument handed back unchanged -/")
    L.append("def retKinds : List (String × List String) :=\n  [" + ", ".join(
        '("%s", %s)' % (c, prim_classes.lean_str_list(r)) for c, r in t["rets"]) + "]\n")
    L.append("/-- `vita::integer::number::eval`: `p` is the bit pattern of `p.fetch_param()` -/")
    L.append("def numberEval (p : Nat) : Except Fault Int :=\n" + indent_num(t["number_eval"]) + "\n")
    fields, init = t["number_init"]
    L.append("/-- `vita::integer::number::init`: `between` stands for `random::between<int>`; the result is the\n"
             "    bit pattern of the `terminal_param_t` returned -/")
    L.append("def numberInit (between : Int → Int → Int) %s: Nat :=\n%s\n" % (
        "".join("(%s : Int) " % f for f in fields), indent_num(init)))
    L.append("/-- `vita::integer::cast` = `std::get<int>`: `none` is `std::bad_variant_access` -/")
    L.append("def cast {F : Type} (v : Val F) : Option Int :=\n  " + t["cast"] + "\n")
    L.append("end Vita.C14.GenNum\n")
    txt = "\n".join(L)
    old = open(path).read() if os.path.exists(path) else None
    if old != txt:
        os.makedirs(os.path.dirname(path), exist_ok=True)
        with open(path, "w") as f:
            f.write(txt)
    return t, old is not None and old != txt


def translate():
    docs = ast_dump("int_tu.cc", "vita::integer")
    ns = [d for d in docs if d.get("kind") == "NamespaceDecl" and d.get("name") == "integer"]
    if not ns:
        raise Refuse("namespace vita::integer not found")
    out = []
    for ns_doc in ns:
        for cls, m in records_with_method(ns_doc, "eval"):
            if cls == "number":      # the ephemeral constant: fetch_param, not an arithmetic body
                continue
            body = [c for c in kids(m) if c.get("kind") == "CompoundStmt"][0]
            out.append((cls, Tr().body([body])))
    if not out:
        raise Refuse("no integer primitive found")
    return out


def emit(path):
    prims = translate()
    L = ["-- GENERATED by tools/translate_int.py from /repo/src/kernel/gp/src/primitive/int.h",
         "-- (regenerated on every check run; do not edit)",
         "import Vita.Common.IntE", "namespace Vita.C14.Gen", "open Vita.IntE", ""]
    for name, t in prims:
        L.append("def %sE : E :=\n  %s\n" % (name, render(t, 4)))
    L.append("def ops : List (String × E) :=\n  [" + ", ".join('("%s", %sE)' % (n, n) for n, _ in prims) + "]")
    L.append("\nend Vita.C14.Gen\n")
    txt = "\n".join(L)
    old = open(path).read() if os.path.exists(path) else None
    if old != txt:
        os.makedirs(os.path.dirname(path), exist_ok=True)
        with open(path, "w") as f:
            f.write(txt)
    return [n for n, _ in prims], old is not None and old != txt


if __name__ == "__main__":
    here = os.path.dirname(os.path.dirname(os.path.abspath(__file__)))
    try:
        names, changed = emit(os.path.join(here, "lean", "Vita", "C14", "Gen.lean"))
        print("translated:", " ".join(names), "(changed)" if changed else "")
        t, changed = emit_num(os.path.join(here, "lean", "Vita", "C14", "GenNum.lean"))
        print("classes:", " ".join(c[0] for c in t["classes"]), "(changed)" if changed else "")
    except Refuse as e:
        print("REFUSE:", e)
        sys.exit(2)
