#!/usr/bin/env python3
"""Translate every `eval` body of `vita::integer::*` (int.h, current /repo working tree)
into a term of `Vita.IntE.E` (syntax only) -> lean/Vita/C14/Gen.lean.

Refuses on anything it does not understand."""
import os
import sys

sys.path.insert(0, os.path.dirname(os.path.abspath(__file__)))
from cxx2lean import (Refuse, ast_dump, kids, qtype, peel, callee_name, records_with_method,
                      int_type, SIZEOF, LIMITS)

BIN = {"+": "add", "-": "sub", "*": "mul", "/": "div", "%": "mod", "<<": "shl", ">>": "shr"}
CMP = {"<": "lt", ">": "gt", "<=": "le", ">=": "ge", "==": "eq", "!=": "ne"}
WIDTH = {"i32": 32, "i64": 64, "u32": 32, "u64": 64, "bool": 1}


def is_const(t):
    return t[0] == "lit"


def fold_bin(op, ty, a, b):
    """Compile-time folding of constant sub-expressions (as the compiler does)."""
    x, y = a[1], b[1]
    if op == "add":
        r = x + y
    elif op == "sub":
        r = x - y
    elif op == "mul":
        r = x * y
    elif op == "div":
        if y == 0:
            raise Refuse("constant division by zero")
        r = abs(x) // abs(y) * (1 if (x >= 0) == (y >= 0) else -1)
    elif op == "shl":
        r = x << y
    elif op == "shr":
        r = x >> y
    else:
        raise Refuse("cannot fold " + op)
    if ty in ("u32", "u64"):
        r %= 1 << WIDTH[ty]
    elif not (-(1 << (WIDTH[ty] - 1)) <= r < (1 << (WIDTH[ty] - 1))):
        raise Refuse("constant expression overflows")
    return ("lit", r)


class Tr:
    def __init__(self):
        self.locals = {}

    def arg_index(self, n):
        """n is `args[i]` (CXXOperatorCallExpr operator[] on the symbol_params parameter)."""
        n = peel(n)
        if n.get("kind") == "CXXOperatorCallExpr" and callee_name(n) == "operator[]":
            ks = kids(n)
            base = peel(ks[1])
            if base.get("kind") == "DeclRefExpr" and "symbol_params" in qtype(base):
                idx = self.expr(ks[2], allow_unsigned=True)
                if idx[0] != "lit":
                    raise Refuse("non-constant argument index")
                return idx[1]
        return None

    def expr(self, n, allow_unsigned=False):
        k = n.get("kind")
        if k in ("ExprWithCleanups", "MaterializeTemporaryExpr", "CXXBindTemporaryExpr",
                 "ParenExpr", "ConstantExpr"):
            return self.expr(kids(n)[0], allow_unsigned)
        if k == "IntegerLiteral":
            return ("lit", int(n["value"]))
        if k == "CXXBoolLiteralExpr":
            return ("lit", 1 if n["value"] else 0)
        if k == "UnaryExprOrTypeTraitExpr" and n.get("name") == "sizeof":
            at = n.get("argType", {})
            t = at.get("desugaredQualType", at.get("qualType"))
            if t not in SIZEOF:
                raise Refuse("sizeof(%s)" % t)
            return ("lit", SIZEOF[t])
        if k == "DeclRefExpr":
            name = n.get("referencedDecl", {}).get("name")
            if name in self.locals:
                return self.locals[name]
            raise Refuse("reference to unknown variable %r" % name)
        if k in ("ImplicitCastExpr", "CXXStaticCastExpr", "CXXFunctionalCastExpr", "CStyleCastExpr"):
            ck = n.get("castKind")
            inner = kids(n)[-1]
            if ck in ("NoOp", "LValueToRValue"):
                return self.expr(inner, allow_unsigned)
            if ck == "IntegralCast":
                src, dst = int_type(inner), int_type(n)
                e = self.expr(inner, True)
                if is_const(e):
                    v = e[1]
                    if dst in ("u32", "u64"):
                        v %= 1 << WIDTH[dst]
                    elif not (-(1 << (WIDTH[dst] - 1)) <= v < (1 << (WIDTH[dst] - 1))):
                        raise Refuse("constant narrowing changes the value")
                    return ("lit", v)
                if src in ("u32", "u64") or dst in ("u32", "u64"):
                    raise Refuse("non-constant unsigned arithmetic (%s -> %s)" % (src, dst))
                if src == "bool" or WIDTH[src] <= WIDTH[dst]:
                    return e
                return ("cast", dst, e)
            if ck == "IntegralToBoolean":
                return ("cmp", "ne", self.expr(inner), ("lit", 0))
            raise Refuse("cast kind %s" % ck)
        if k == "UnaryOperator":
            op = n.get("opcode")
            a = self.expr(kids(n)[0])
            if op == "-":
                if is_const(a):
                    return ("lit", -a[1])
                return ("bin", "sub", int_type(n), ("lit", 0), a)
            if op == "+":
                return a
            if op == "!":
                return ("not", a)
            raise Refuse("unary operator %s" % op)
        if k == "BinaryOperator":
            op = n.get("opcode")
            ks = kids(n)
            if op in ("&&", "||"):
                a, b = self.expr(ks[0]), self.expr(ks[1])
                return ("and" if op == "&&" else "or", a, b)
            a, b = self.expr(ks[0], True), self.expr(ks[1], True)
            if op in CMP:
                ta, tb = int_type(ks[0]), int_type(ks[1])
                if (ta in ("u32", "u64") or tb in ("u32", "u64")) and not (is_const(a) and is_const(b)):
                    raise Refuse("unsigned comparison")
                return ("cmp", CMP[op], a, b)
            if op in BIN:
                ty = int_type(n)
                if is_const(a) and is_const(b):
                    return fold_bin(BIN[op], ty, a, b)
                if ty not in ("i32", "i64"):
                    raise Refuse("arithmetic at type %s" % ty)
                return ("bin", BIN[op], ty, a, b)
            raise Refuse("binary operator %s" % op)
        if k == "ConditionalOperator":
            c, t, e = [self.expr(x) for x in kids(n)]
            return ("ite", c, t, e)
        if k == "CallExpr":
            name = callee_name(n)
            ks = kids(n)
            if name == "cast" and len(ks) == 2:
                i = self.arg_index(ks[1])
                if i is None:
                    raise Refuse("integer::cast of something that is not args[i]")
                return ("var", i)
            if name in ("max", "min", "lowest") and len(ks) == 1:
                f = peel(ks[0])
                ty = int_type(n)
                if (ty, name) in LIMITS and "noexcept" in qtype(f):
                    return ("lit", LIMITS[(ty, name)])
            raise Refuse("call to %r" % name)
        raise Refuse("expression node %s" % k)

    def ret(self, n):
        """Value of a `return` operand."""
        i = self.arg_index(n)
        if i is not None:
            return ("arg", i)
        p = peel(n)
        i = self.arg_index(p)
        if i is not None:
            return ("arg", i)
        return self.expr(p)

    def body(self, stmts):
        if not stmts:
            raise Refuse("control reaches the end of a non-void function")
        s, rest = stmts[0], stmts[1:]
        k = s.get("kind")
        if k == "CompoundStmt":
            return self.body(kids(s) + rest)
        if k == "DeclStmt":
            for d in kids(s):
                if d.get("kind") == "StaticAssertDecl":
                    continue
                if d.get("kind") != "VarDecl" or not kids(d):
                    raise Refuse("declaration %s" % d.get("kind"))
                if "const" not in d.get("type", {}).get("qualType", ""):
                    raise Refuse("mutable local %s" % d.get("name"))
                init = kids(d)[0]
                e = self.expr(init)
                vt, it = int_type(d), int_type(peel(init)) if qtype(peel(init)) else None
                if vt not in ("i32", "i64"):
                    raise Refuse("local of type %s" % vt)
                self.locals[d["name"]] = e
            return self.body(rest)
        if k == "IfStmt":
            ks = kids(s)
            if s.get("hasInit") or s.get("hasVar"):
                raise Refuse("if with initialiser")
            c = self.expr(ks[0])
            saved = dict(self.locals)
            t = self.body([ks[1]] if not s.get("hasElse") else [ks[1]])
            self.locals = dict(saved)
            if s.get("hasElse"):
                e = self.body([ks[2]] + rest)
            else:
                e = self.body(rest)
            self.locals = saved
            return ("ite", c, t, e)
        if k == "ReturnStmt":
            return self.ret(kids(s)[0])
        if k == "NullStmt":
            return self.body(rest)
        raise Refuse("statement %s" % k)


def render(t, ind=2):
    pad = " " * ind
    h = t[0]
    if h == "lit":
        return "(.lit (%d))" % t[1]
    if h in ("var", "arg"):
        return "(.%s %d)" % (h, t[1])
    if h == "bin":
        return "(.bin .%s .%s\n%s%s\n%s%s)" % (t[1], t[2], pad, render(t[3], ind + 2), pad, render(t[4], ind + 2))
    if h == "cmp":
        return "(.cmp .%s %s %s)" % (t[1], render(t[2], ind + 2), render(t[3], ind + 2))
    if h == "not":
        return "(.not %s)" % render(t[1], ind + 2)
    if h in ("and", "or"):
        return "(.%s\n%s%s\n%s%s)" % (h, pad, render(t[1], ind + 2), pad, render(t[2], ind + 2))
    if h == "ite":
        return "(.ite %s\n%s%s\n%s%s)" % (render(t[1], ind + 2), pad, render(t[2], ind + 2), pad, render(t[3], ind + 2))
    if h == "cast":
        return "(.cast .%s %s)" % (t[1], render(t[2], ind + 2))
    raise Refuse("render " + h)


def translate():
    docs = ast_dump("int_tu.cc", "vita::integer")
    ns = [d for d in docs if d.get("kind") == "NamespaceDecl" and d.get("name") == "integer"]
    if not ns:
        raise Refuse("namespace vita::integer not found")
    out = []
    for ns_doc in ns:
        for cls, m in records_with_method(ns_doc, "eval"):
            if cls == "number":      # the ephemeral constant: fetch_param, not an arithmetic body
                continue
            body = [c for c in kids(m) if c.get("kind") == "CompoundStmt"][0]
            out.append((cls, Tr().body([body])))
    if not out:
        raise Refuse("no integer primitive found")
    return out


def emit(path):
    prims = translate()
    L = ["-- GENERATED by tools/translate_int.py from /repo/src/kernel/gp/src/primitive/int.h",
         "-- (regenerated on every check run; do not edit)",
         "import Vita.Common.IntE", "namespace Vita.C14.Gen", "open Vita.IntE", ""]
    for name, t in prims:
        L.append("def %sE : E :=\n  %s\n" % (name, render(t, 4)))
    L.append("def ops : List (String × E) :=\n  [" + ", ".join('("%s", %sE)' % (n, n) for n, _ in prims) + "]")
    L.append("\nend Vita.C14.Gen\n")
    txt = "\n".join(L)
    old = open(path).read() if os.path.exists(path) else None
    if old != txt:
        os.makedirs(os.path.dirname(path), exist_ok=True)
        with open(path, "w") as f:
            f.write(txt)
    return [n for n, _ in prims], old is not None and old != txt


if __name__ == "__main__":
    here = os.path.dirname(os.path.dirname(os.path.abspath(__file__)))
    try:
        names, changed = emit(os.path.join(here, "lean", "Vita", "C14", "Gen.lean"))
        print("translated:", " ".join(names), "(changed)" if changed else "")
    except Refuse as e:
        print("REFUSE:", e)
        sys.exit(2)
