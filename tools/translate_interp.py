#!/usr/bin/env python3
"""C01 translator: the member functions of vita's interpreters, as they are in the CURRENT working
tree, become terms of the small statement language of lean/Vita/C01/Lang.lean
(-> lean/Vita/C01/GenInterp.lean).  Syntax only, from the clang-14 JSON AST (tools/tu/interp_tu.cc):

  interpreter<i_mep>   run_locus run_nvi fetch_param fetch_arg fetch_opaque_arg fetch_index
                       penalty_locus penalty_nvi  (+ the constructor's initialiser list, as text)
  core_interpreter     run penalty                       symbol_params   operator[] fetch_var
  src_interpreter<i_mep>  run(example) fetch_var  (+ constructor)
  symbol               penalty penalty_nvi               comparison_function_penalty
  basic_gene<4>        locus_of_argument
  every class of vita::real / integer / boolean / str: symbol name, arity, `penalty_nvi` override

Statements: `const gene &g((*prg_)[L])`, `const locus x(L)`, `auto &e(cache_(L))`, `const auto v(call)`,
`ip_ = L`, `for (auto &e : cache_) e.valid = false`, `e.valid = b`, `e.value = v | call`,
`example_ = &ex`, `if ([!]e.valid) … [else …]`, `return …`; compiled-out assertions are skipped.
Anything else is REFUSED (exit 2 / `Refuse`): the translator never skips code it does not understand.
"""
import concurrent.futures as cf
import hashlib
import json
import os
import subprocess
import sys

sys.path.insert(0, os.path.dirname(os.path.abspath(__file__)))
import cxx2lean  # noqa: E402
from cxx2lean import Refuse, kids, qtype, find_all  # noqa: E402

TU = "interp_tu.cc"
FILTERS = ["vita::interpreter", "vita::core_interpreter", "vita::symbol_params", "vita::src_interpreter",
           "vita::symbol::penalty", "vita::symbol::penalty_nvi", "vita::comparison_function_penalty",
           "vita::basic_gene", "vita::real", "vita::integer", "vita::boolean", "vita::str"]
_DUMPS = {}


def ast_dump(tu, filt):
    """the twelve dumps are independent compilations: fetched together, four at a time"""
    if not _DUMPS:
        with cf.ThreadPoolExecutor(4) as ex:
            futs = {f: ex.submit(cxx2lean.ast_dump, tu, f) for f in FILTERS}
            for f, fu in futs.items():
                _DUMPS[f] = fu.result()
    if filt not in _DUMPS:
        _DUMPS[filt] = cxx2lean.ast_dump(tu, filt)
    return _DUMPS[filt]


def source_key():
    """hash of the preprocessed translation unit (= everything the AST can depend on) and of this script"""
    repo = cxx2lean.REPO
    cmd = ["clang++-14", "-std=c++17", "-I" + os.path.join(repo, "src"), "-isystem",
           os.path.join(repo, "src", "third_party"), "-w", "-E", "-P", "-DVITA_VERIF", "-DNDEBUG",
           os.path.join(cxx2lean.HERE, "tu", TU)]
    p = subprocess.run(cmd, stdout=subprocess.PIPE, stderr=subprocess.PIPE)
    if p.returncode != 0:
        raise Refuse("clang -E failed on %s: %s" % (TU, p.stderr.decode("utf-8", "replace")[-2000:]))
    h = hashlib.sha256(p.stdout)
    h.update(open(os.path.abspath(__file__), "rb").read())
    h.update(open(os.path.join(cxx2lean.HERE, "cxx2lean.py"), "rb").read())
    return h.hexdigest()
WRAP = {"ExprWithCleanups", "MaterializeTemporaryExpr", "CXXBindTemporaryExpr", "ParenExpr", "ConstantExpr"}
PASS_CASTS = {"NoOp", "LValueToRValue", "DerivedToBase", "UncheckedDerivedToBase", "FunctionToPointerDecay"}
WIDTH = {"bool": 1, "unsigned short": 16, "unsigned int": 32, "unsigned long": 64, "unsigned long long": 64}


def ty(n):
    t = qtype(n)
    for w in ("const ", "volatile "):
        t = t.replace(w, "")
    return t.replace(" const", "").strip()


def strip(n):
    """remove wrappers that change neither value nor identity (casts to base, copies of a locus / value)"""
    while True:
        k = n.get("kind")
        ks = kids(n)
        if k in WRAP and len(ks) == 1:
            n = ks[0]
        elif k in ("ImplicitCastExpr", "CXXStaticCastExpr") and n.get("castKind") in PASS_CASTS and len(ks) == 1:
            n = ks[0]
        elif k == "CXXConstructExpr" and len(ks) == 1 and ty(n) == ty(ks[0]) and (is_locus(n) or is_value(n)):
            n = ks[0]          # copy construction
        else:
            return n


def is_locus(n):
    return ty(n) in ("vita::locus", "locus")


def is_gene(n):
    return ty(n).rstrip(" &") in ("vita::basic_gene<4>", "vita::gene", "basic_gene<4>")


def is_value(n):
    t = ty(n)
    return t.startswith("std::variant<std::monostate, int, double") or t in ("vita::value_t", "value_t") or \
        t.startswith("variant<std::monostate, int, double")


def is_elem(n):
    return "elem_" in qtype(n)


def member(n, name):
    """n is `X.name` / `X->name`: return X, else None"""
    if n.get("kind") == "MemberExpr" and n.get("name") == name and kids(n):
        return kids(n)[0]
    return None


def ref_name(n):
    if n.get("kind") == "DeclRefExpr":
        return n.get("referencedDecl", {}).get("name")
    return None


def callee(n):
    """(name, object-or-None, args) of a call node"""
    ks = kids(n)
    k = n.get("kind")
    if k == "CXXMemberCallExpr":
        m = ks[0]
        if m.get("kind") != "MemberExpr":
            raise Refuse("member call through %s" % m.get("kind"))
        return m.get("name"), kids(m)[0], ks[1:]
    if k == "CXXOperatorCallExpr":
        f = strip(ks[0])
        return ref_name(f), ks[1], ks[2:]
    if k == "CallExpr":
        f = strip(ks[0])
        return ref_name(f), None, ks[1:]
    return None, None, []


class Fun:
    """translation of one function body"""

    def __init__(self, what, this, params):
        self.what = what
        self.this = this              # 'interp' | 'symbol' | 'gene' | 'free'
        self.params = params          # name -> 'iarg' | 'larg' | 'xarg' | 'ci'
        self.locals = {}              # name -> (kind, id); kind: loc gene elem idx val thisptr
        self.nloc = self.nidx = self.nval = 0

    def refuse(self, msg):
        raise Refuse("%s: %s" % (self.what, msg))

    # ---- who is the interpreter object ----------------------------------------------------------
    def is_self(self, n):
        n = strip(n)
        while n.get("kind") in ("ImplicitCastExpr", "CXXStaticCastExpr") and \
                n.get("castKind") in ("BaseToDerived",) and len(kids(n)) == 1:
            n = strip(kids(n)[0])
        if n.get("kind") == "CXXThisExpr":
            return self.this == "interp"
        if n.get("kind") == "UnaryOperator" and n.get("opcode") == "*":
            return self.is_self(kids(n)[0])
        nm = ref_name(n)
        if nm is not None:
            if self.params.get(nm) == "ci":
                return True
            if self.locals.get(nm, (None,))[0] == "thisptr":
                return True
        return False

    def is_symbol_this(self, n):
        n = strip(n)
        return n.get("kind") == "CXXThisExpr" and self.this == "symbol"

    def local(self, n, kind):
        nm = ref_name(strip(n))
        if nm is not None and self.locals.get(nm, (None,))[0] == kind:
            return self.locals[nm][1]
        return None

    # ---- expressions -----------------------------------------------------------------------------
    def loc(self, n):
        n = strip(n)
        k = n.get("kind")
        b = member(n, "ip_")
        if b is not None and self.is_self(b):
            return ".ip"
        nm = ref_name(n)
        if nm is not None:
            if self.params.get(nm) == "larg":
                return ".arg"
            if self.locals.get(nm, (None,))[0] == "loc":
                return "(.var %d)" % self.locals[nm][1]
            self.refuse("locus expression refers to %r" % nm)
        if k == "CXXMemberCallExpr":
            name, obj, args = callee(n)
            if name == "best" and not args:
                p = member(strip(obj), "prg_")
                if p is not None and self.is_self(p):
                    return ".best"
            if name == "locus_of_argument" and len(args) == 1:
                return "(.argOf %s %s)" % (self.gene(obj), self.idx(args[0]))
            self.refuse("locus-valued call of %r" % name)
        if k in ("InitListExpr", "CXXConstructExpr", "CXXTemporaryObjectExpr") and is_locus(n) and len(kids(n)) == 2:
            return "(.mk %s %s)" % (self.idx(kids(n)[0]), self.idx(kids(n)[1]))
        self.refuse("locus expression %s" % k)

    def gene(self, n):
        n = strip(n)
        k = n.get("kind")
        if k == "CXXOperatorCallExpr":
            name, obj, args = callee(n)
            if name == "operator[]" and len(args) == 1 and is_gene(n):
                o = strip(obj)
                if o.get("kind") == "UnaryOperator" and o.get("opcode") == "*":
                    p = member(strip(kids(o)[0]), "prg_")
                    if p is not None and self.is_self(p):
                        return "(.at %s)" % self.loc(args[0])
            self.refuse("gene expression through operator %s" % name)
        i = self.local(n, "gene")
        if i is not None:
            return "(.ref %d)" % i
        self.refuse("gene expression %s" % k)

    def gene_locus(self, g):
        """the locus expression of a gene expression (text)"""
        if g.startswith("(.at "):
            return g[5:-1]
        if g.startswith("(.ref "):
            return "(.var %s)" % g[6:-1]
        self.refuse("internal: gene text %r" % g)

    def idx(self, n):
        # integral conversions: value preserving only
        while True:
            k = n.get("kind")
            ks = kids(n)
            if k in WRAP and len(ks) == 1:
                n = ks[0]
                continue
            if k in ("ImplicitCastExpr", "CXXStaticCastExpr", "CXXFunctionalCastExpr", "CStyleCastExpr") and len(ks) == 1:
                ck = n.get("castKind")
                if ck in PASS_CASTS:
                    n = ks[0]
                    continue
                if ck == "IntegralCast":
                    src, dst = ty(ks[0]), ty(n)
                    inner = strip(ks[0])
                    if inner.get("kind") == "IntegerLiteral" and int(inner["value"]) >= 0 and dst in WIDTH and \
                            int(inner["value"]) < 2 ** WIDTH[dst]:
                        n = ks[0]
                        continue
                    if src == "bool" and dst == "int":
                        n = ks[0]
                        continue
                    if src in WIDTH and dst in WIDTH and WIDTH[src] <= WIDTH[dst]:
                        n = ks[0]
                        continue
                    self.refuse("integral conversion %s -> %s may change the value" % (src, dst))
                if ck == "IntegralToFloating" and ty(ks[0]) in ("int", "bool") or ck == "IntegralToFloating" and \
                        ty(ks[0]) in WIDTH:
                    n = ks[0]
                    continue
                self.refuse("cast %s in an integer expression" % ck)
            break
        k = n.get("kind")
        ks = kids(n)
        if k == "IntegerLiteral":
            return "(.lit %d)" % int(n["value"])
        if k == "FloatingLiteral":
            v = float(n["value"])
            if v != int(v) or v < 0:
                self.refuse("floating literal %r in an integer expression" % n["value"])
            return "(.lit %d)" % int(v)
        nm = ref_name(n)
        if nm is not None:
            if self.params.get(nm) == "iarg":
                return ".arg"
            if self.locals.get(nm, (None,))[0] == "idx":
                return "(.var %d)" % self.locals[nm][1]
            self.refuse("integer expression refers to %r" % nm)
        if k == "CXXOperatorCallExpr":
            name, obj, args = callee(n)
            if name == "operator[]" and len(args) == 1:
                b = member(strip(obj), "args")
                if b is not None:
                    return "(.argsAt %s %s)" % (self.gene(b), self.idx(args[0]))
            self.refuse("integer expression through operator %s" % name)
        if k == "MemberExpr" and n.get("name") in ("index", "category") and is_locus(ks[0]):
            return "(.%s %s)" % ("indexOf" if n["name"] == "index" else "catOf", self.loc(ks[0]))
        if k == "CXXMemberCallExpr":
            name, obj, args = callee(n)
            if name == "fetch_index" and len(args) == 1 and self.is_self(obj):
                return "(.fetchIndex %s)" % self.idx(args[0])
            self.refuse("integer-valued call of %r" % name)
        if k == "BinaryOperator" and n.get("opcode") == "==":
            return "(.eqb %s %s)" % (self.idx(ks[0]), self.idx(ks[1]))
        if k == "BinaryOperator" and n.get("opcode") == "+":
            return "(.add %s %s)" % (self.idx(ks[0]), self.idx(ks[1]))
        self.refuse("integer expression %s" % k)

    def call(self, n):
        """(Fn, locus text, index text) when n is a call of a function of the model, else None"""
        n = strip(n)
        k = n.get("kind")
        if k == "CXXMemberCallExpr":
            name, obj, args = callee(n)
            o = strip(obj)
            s = member(o, "sym")
            if s is not None and name in ("eval", "penalty") and len(args) == 1 and self.is_self(args[0]):
                g = self.gene(s)
                return ("eval" if name == "eval" else "symPenalty"), self.gene_locus(g), "(.lit 0)"
            if self.is_self(obj):
                if name in ("fetch_opaque_arg", "fetch_arg") and len(args) == 1:
                    return ("fetchOpaqueArg" if name == "fetch_opaque_arg" else "fetchArg"), ".ip", self.idx(args[0])
                if name in ("run_locus", "penalty_locus") and len(args) == 1:
                    return ("runLocus" if name == "run_locus" else "penaltyLocus"), self.loc(args[0]), "(.lit 0)"
                if name in ("run_nvi", "penalty_nvi", "run", "penalty") and not args:
                    return {"run_nvi": "runNvi", "penalty_nvi": "penaltyNvi", "run": "run",
                            "penalty": "penalty"}[name], ".ip", "(.lit 0)"
                if name == "fetch_index":
                    return None
                self.refuse("call of member %r" % name)
            if self.is_symbol_this(obj) and name == "penalty_nvi" and len(args) == 1 and self.is_self(args[0]):
                return "symPenaltyNvi", ".arg", "(.lit 0)"
            return None
        if k == "CallExpr":
            name, _, args = callee(n)
            if name == "comparison_function_penalty" and len(args) == 1 and self.is_self(args[0]):
                return "cmpPenalty", ".arg", "(.lit 0)"
            return None
        return None

    # ---- statements ------------------------------------------------------------------------------
    def elem_of(self, n, field):
        b = member(strip(n), field)
        if b is None:
            return None
        return self.local(b, "elem")

    def body(self, stmts):
        if not stmts:
            self.refuse("control reaches the end of the function")
        s, rest = stmts[0], stmts[1:]
        k = s.get("kind")
        ks = kids(s)
        if k == "CompoundStmt":
            return self.body(ks + rest)
        if k == "NullStmt":
            return self.body(rest)
        if k == "ParenExpr" and ty(s) == "void":
            c = strip(s)
            if c.get("kind") == "CXXStaticCastExpr" and c.get("castKind") == "ToVoid" and \
                    strip(kids(c)[0]).get("kind") == "IntegerLiteral":
                return self.body(rest)        # assert() / Expects() under NDEBUG
            self.refuse("void expression statement")
        if k == "DeclStmt":
            def go(i):
                if i == len(ks):
                    return self.body(rest)
                d = ks[i]
                if d.get("kind") != "VarDecl" or len(kids(d)) != 1:
                    self.refuse("declaration %s" % d.get("kind"))
                name, init = d["name"], kids(d)[0]
                qt = d.get("type", {}).get("qualType", "")
                dq = qtype(d)
                saved = dict(self.locals)
                if is_gene(d) and dq.endswith("&") and "const" in dq:
                    g = self.gene(init)
                    if not g.startswith("(.at "):
                        self.refuse("gene reference %s bound to another reference" % name)
                    self.locals[name] = ("gene", self.nloc)
                    head = ".letGene %d %s" % (self.nloc, g[5:-1])
                    self.nloc += 1
                elif is_locus(d) and not dq.endswith("&"):
                    if "const" not in qt:
                        self.refuse("mutable locus local %s" % name)
                    e = self.loc(init)
                    self.locals[name] = ("loc", self.nloc)
                    head = ".letLoc %d %s" % (self.nloc, e)
                    self.nloc += 1
                elif is_elem(d) and dq.endswith("&"):
                    c = strip(init)
                    nm, obj, args = callee(c) if c.get("kind") == "CXXOperatorCallExpr" else (None, None, [])
                    b = member(strip(obj), "cache_") if obj is not None else None
                    if nm != "operator()" or b is None or not self.is_self(b):
                        self.refuse("memo reference %s not bound to cache_(…)" % name)
                    if len(args) == 1:
                        e = self.loc(args[0])
                    elif len(args) == 2:
                        e = "(.mk %s %s)" % (self.idx(args[0]), self.idx(args[1]))
                    else:
                        self.refuse("cache_() with %d arguments" % len(args))
                    self.locals[name] = ("elem", self.nloc)
                    head = ".letElem %d %s" % (self.nloc, e)
                    self.nloc += 1
                elif is_value(d) and not dq.endswith("&"):
                    if "const" not in qt:
                        self.refuse("mutable value local %s" % name)
                    c = self.call(init)
                    if c is None:
                        self.refuse("value local %s not initialised by a call" % name)
                    self.locals[name] = ("val", self.nval)
                    head = ".call %d .%s %s %s" % (self.nval, c[0], c[1], c[2])
                    self.nval += 1
                elif ty(d) in WIDTH and ty(d) != "bool":
                    if "const" not in qt:
                        self.refuse("mutable integer local %s" % name)
                    e = self.idx(init)
                    self.locals[name] = ("idx", self.nidx)
                    head = ".letIdx %d %s" % (self.nidx, e)
                    self.nidx += 1
                elif dq.endswith("*") and "interpreter<" in dq and self.is_self(init):
                    self.locals[name] = ("thisptr", 0)
                    r = go(i + 1)
                    self.locals = saved
                    return r
                else:
                    self.refuse("local %s of type %r" % (name, dq))
                r = "(%s <|\n%s)" % (head, go(i + 1))
                self.locals = saved
                return r
            return go(0)
        if k in WRAP:
            return self.body(ks + rest) if len(ks) == 1 else self.refuse("statement %s" % k)
        if k == "CXXOperatorCallExpr":
            name, lhs, args = callee(s)
            if name == "operator=" and len(args) == 1:
                l = strip(lhs)
                b = member(l, "ip_")
                if b is not None and self.is_self(b):
                    return "(.setIp %s <|\n%s)" % (self.loc(args[0]), self.body(rest))
                e = self.elem_of(l, "value")
                if e is not None:
                    c = self.call(args[0])
                    if c is not None:
                        t = self.nval
                        self.nval += 1
                        return "(.call %d .%s %s %s <|\n.setValue %d %d <|\n%s)" % (t, c[0], c[1], c[2], e, t, self.body(rest))
                    v = self.local(args[0], "val")
                    if v is not None:
                        return "(.setValue %d %d <|\n%s)" % (e, v, self.body(rest))
                    self.refuse("memo value assigned from something that is neither a call nor a local")
            self.refuse("statement through operator %s" % name)
        if k == "BinaryOperator" and s.get("opcode") == "=":
            e = self.elem_of(ks[0], "valid")
            r = strip(ks[1])
            if e is not None and r.get("kind") == "CXXBoolLiteralExpr":
                return "(.setValid %d %s <|\n%s)" % (e, "true" if r["value"] else "false", self.body(rest))
            b = member(strip(ks[0]), "example_")
            if b is not None and strip(b).get("kind") == "CXXThisExpr" and r.get("kind") == "UnaryOperator" and \
                    r.get("opcode") == "&" and self.params.get(ref_name(strip(kids(r)[0]))) == "xarg":
                return "(.setExample <|\n%s)" % self.body(rest)
            self.refuse("assignment not understood")
        if k == "CXXForRangeStmt":
            # for (auto &e : cache_) e.valid = false;
            rng = [d for d in find_all(ks[0], lambda x: x.get("kind") == "VarDecl")]
            ok = len(rng) == 1 and member(strip(kids(rng[0])[0]), "cache_") is not None and \
                self.is_self(member(strip(kids(rng[0])[0]), "cache_"))
            var = [d for d in find_all(ks[-2], lambda x: x.get("kind") == "VarDecl")]
            ok = ok and len(var) == 1 and qtype(var[0]).endswith("&") and is_elem(var[0])
            b = ks[-1]
            while b.get("kind") == "CompoundStmt" and len(kids(b)) == 1:
                b = kids(b)[0]
            ok = ok and b.get("kind") == "BinaryOperator" and b.get("opcode") == "="
            if ok:
                l, r = strip(kids(b)[0]), strip(kids(b)[1])
                lb = member(l, "valid")
                ok = lb is not None and ref_name(strip(lb)) == var[0]["name"] and \
                    r.get("kind") == "CXXBoolLiteralExpr" and r["value"] is False
            if not ok:
                self.refuse("range-for that is not `for (auto &e : cache_) e.valid = false;`")
            return "(.invalidateAll <|\n%s)" % self.body(rest)
        if k == "IfStmt":
            if s.get("hasInit") or s.get("hasVar"):
                self.refuse("if with initialiser")
            c = strip(ks[0])
            neg = False
            if c.get("kind") == "UnaryOperator" and c.get("opcode") == "!":
                neg = True
                c = strip(kids(c)[0])
            e = self.elem_of(c, "valid")
            if e is None:
                self.refuse("if condition that is not [!]elem.valid")
            th = self.body([ks[1]] + rest)
            el = self.body(([ks[2]] if s.get("hasElse") else []) + rest)
            if neg:
                th, el = el, th
            return "(.ifValid %d\n%s\n%s)" % (e, th, el)
        if k == "ReturnStmt":
            if not ks:
                self.refuse("return without value")
            c = self.call(ks[0])
            if c is not None:
                return "(.tail .%s %s %s)" % c
            e = strip(ks[0])
            if is_value(ks[0]):
                if e.get("kind") in ("CXXConstructExpr", "InitListExpr", "CXXTemporaryObjectExpr") and not kids(e):
                    return ".retVoid"
                v = self.elem_of(e, "value")
                if v is not None:
                    return "(.retElem %d)" % v
                v = self.local(e, "val")
                if v is not None:
                    return "(.retVal %d)" % v
                if e.get("kind") == "CXXOperatorCallExpr":
                    name, obj, args = callee(e)
                    o = strip(obj)
                    if name == "operator[]" and len(args) == 1 and o.get("kind") == "UnaryOperator" and \
                            o.get("opcode") == "*":
                        b = member(strip(kids(o)[0]), "example_")
                        if b is not None and strip(b).get("kind") == "CXXThisExpr":
                            return "(.retExample %s)" % self.idx(args[0])
                self.refuse("returned value %s" % e.get("kind"))
            b = member(e, "par")
            if b is not None:
                return "(.retPar %s)" % self.gene(b)
            return "(.retIdx %s)" % self.idx(ks[0])
        self.refuse("statement %s" % k)


def method_body(m, what):
    b = [c for c in kids(m) if c.get("kind") == "CompoundStmt"]
    if len(b) != 1:
        raise Refuse("%s has no body in the translation unit" % what)
    return b[0]


def params_of(m, what):
    out = {}
    for p in kids(m):
        if p.get("kind") != "ParmVarDecl":
            continue
        t = qtype(p)
        nm = p.get("name")
        if nm is None:
            continue
        if ty(p).rstrip(" &") in ("vita::locus",):
            out[nm] = "larg"
        elif ty(p) in ("unsigned int", "unsigned long"):
            out[nm] = "iarg"
        elif "vector<" in t and t.endswith("&"):
            out[nm] = "xarg"
        elif "core_interpreter *" in t:
            out[nm] = "ci"
        else:
            raise Refuse("%s: parameter %s of type %r" % (what, nm, t))
    return out


def translate_fn(m, what, this):
    f = Fun(what, this, params_of(m, what))
    return f.body([method_body(m, what)])


def methods(rec):
    return {c.get("name"): c for c in kids(rec)
            if c.get("kind") == "CXXMethodDecl" and any(k.get("kind") == "CompoundStmt" for k in kids(c))}


def src_text(n):
    """canonical one-line text of a (small) expression – used for constructor initialisers"""
    n = strip(n)
    k = n.get("kind")
    ks = kids(n)
    if k == "DeclRefExpr":
        return ref_name(n) or "?"
    if k == "MemberExpr":
        return "%s%s%s" % (src_text(ks[0]), "->" if n.get("isArrow") else ".", n.get("name"))
    if k == "CXXThisExpr":
        return "this"
    if k in ("CXXMemberCallExpr", "CallExpr"):
        return "%s(%s)" % (src_text(ks[0]), ", ".join(src_text(a) for a in ks[1:]))
    if k in ("CXXConstructExpr", "CXXTemporaryObjectExpr", "InitListExpr", "ParenListExpr"):
        return "(%s)" % ", ".join(src_text(a) for a in ks if a.get("kind") != "CXXDefaultArgExpr")
    if k == "CXXNullPtrLiteralExpr":
        return "nullptr"
    if k == "IntegerLiteral":
        return str(n.get("value"))
    if k in ("ImplicitCastExpr", "CXXStaticCastExpr") and len(ks) == 1:
        return src_text(ks[0])
    raise Refuse("constructor initialiser: expression %s" % k)


def ctor_inits(ctor, what):
    out = []
    for c in kids(ctor):
        if c.get("kind") != "CXXCtorInitializer":
            continue
        tgt = c.get("anyInit", {}).get("name") or c.get("baseInit", {}).get("qualType") or "?"
        ks = kids(c)
        out.append((tgt, src_text(ks[0]) if ks else "()"))
    b = [c for c in kids(ctor) if c.get("kind") == "CompoundStmt"]
    if len(b) != 1:
        raise Refuse("%s has no body" % what)
    rest = [s for s in kids(b[0]) if not (s.get("kind") == "NullStmt" or (s.get("kind") == "ParenExpr" and ty(s) == "void"))]
    if rest:
        raise Refuse("%s: statements in the constructor body" % what)
    return out


def string_lit(n):
    for x in find_all(n, lambda x: x.get("kind") == "StringLiteral"):
        v = x.get("value", "")
        return v[1:-1] if len(v) >= 2 else v
    return None


def shipped_symbols():
    """(namespace::class, symbol name, arity, translated penalty_nvi or None) for every primitive class"""
    out = []
    for ns in ("real", "integer", "boolean", "str"):
        docs = ast_dump(TU, "vita::" + ns)
        nds = [d for d in docs if d.get("kind") == "NamespaceDecl" and d.get("name") == ns]
        if not nds:
            raise Refuse("namespace vita::%s not found" % ns)
        for nd in nds:
            for c in kids(nd):
                if c.get("kind") != "CXXRecordDecl" or not c.get("completeDefinition"):
                    continue
                ms = methods(c)
                if "eval" not in ms:
                    continue
                ctors = [k for k in kids(c) if k.get("kind") == "CXXConstructorDecl" and
                         any(x.get("kind") == "CXXCtorInitializer" for x in kids(k)) and not k.get("isImplicit")]
                names, arities = set(), set()
                for ct in ctors:
                    for ini in kids(ct):
                        if ini.get("kind") != "CXXCtorInitializer":
                            continue
                        base = ini.get("baseInit", {}).get("qualType", "")
                        if base not in ("vita::function", "vita::terminal", "function", "terminal"):
                            continue
                        nm = string_lit(ini)
                        if nm is None:
                            raise Refuse("%s::%s: symbol name is not a literal" % (ns, c["name"]))
                        names.add(nm)
                        if "function" in base:
                            il = [x for x in find_all(ini, lambda x: x.get("kind") == "InitListExpr")]
                            if len(il) != 1:
                                raise Refuse("%s::%s: argument categories are not a braced list" % (ns, c["name"]))
                            arities.add(len(kids(il[0])))
                        else:
                            arities.add(0)
                if len(names) != 1 or len(arities) != 1:
                    raise Refuse("%s::%s: cannot read name / arity (%r, %r)" % (ns, c["name"], names, arities))
                pen = None
                if "penalty_nvi" in ms:
                    pen = translate_fn(ms["penalty_nvi"], "%s::%s::penalty_nvi" % (ns, c["name"]), "symbol")
                out.append(("%s::%s" % (ns, c["name"]), names.pop(), arities.pop(), pen))
    if not out:
        raise Refuse("no primitive class found")
    return out


def extract():
    res = {}
    # ---- interpreter<i_mep>
    docs = ast_dump(TU, "vita::interpreter")
    ms = {d.get("name"): d for d in docs if d.get("kind") == "CXXMethodDecl" and
          any(k.get("kind") == "CompoundStmt" for k in kids(d))}
    for nm in ("run_locus", "run_nvi", "fetch_param", "fetch_arg", "fetch_opaque_arg", "fetch_index",
               "penalty_locus", "penalty_nvi"):
        if nm not in ms:
            raise Refuse("interpreter<i_mep>::%s not found" % nm)
        res[nm] = translate_fn(ms[nm], "interpreter<i_mep>::" + nm, "interp")
    ct = [d for d in docs if d.get("kind") == "CXXConstructorDecl" and any(k.get("kind") == "CompoundStmt" for k in kids(d))]
    if len(ct) != 1:
        raise Refuse("interpreter<i_mep>: %d constructors with a body" % len(ct))
    res["ctor"] = ctor_inits(ct[0], "interpreter<i_mep>::interpreter")
    # ---- core_interpreter, symbol_params
    for cls, want in (("core_interpreter", (("run", "core_run"), ("penalty", "core_penalty"))),
                      ("symbol_params", (("operator[]", "params_subscript"), ("fetch_var", "params_fetch_var")))):
        recs = [d for d in ast_dump(TU, "vita::" + cls) if d.get("kind") == "CXXRecordDecl" and
                d.get("name") == cls and d.get("completeDefinition")]
        if len(recs) != 1:
            raise Refuse("class %s: %d definitions" % (cls, len(recs)))
        ms = methods(recs[0])
        for nm, key in want:
            if nm not in ms:
                raise Refuse("%s::%s not found" % (cls, nm))
            res[key] = translate_fn(ms[nm], "%s::%s" % (cls, nm), "interp")
    # ---- src_interpreter<i_mep>
    spec = []
    for d in ast_dump(TU, "vita::src_interpreter"):
        spec += find_all(d, lambda x: x.get("kind") == "ClassTemplateSpecializationDecl" and
                         x.get("name") == "src_interpreter" and x.get("completeDefinition"))
    spec = [s for s in spec if methods(s)]
    if not spec:
        raise Refuse("src_interpreter<i_mep> is not instantiated in the translation unit")
    ms = methods(spec[0])
    for nm, key in (("run", "src_run"), ("fetch_var", "src_fetch_var")):
        if nm not in ms:
            raise Refuse("src_interpreter<i_mep>::%s not found" % nm)
        res[key] = translate_fn(ms[nm], "src_interpreter<i_mep>::" + nm, "interp")
    ct = [k for k in kids(spec[0]) if k.get("kind") == "CXXConstructorDecl" and not k.get("isImplicit") and
          any(x.get("kind") == "CompoundStmt" for x in kids(k))]
    if len(ct) != 1:
        raise Refuse("src_interpreter<i_mep>: %d user constructors" % len(ct))
    res["src_ctor"] = ctor_inits(ct[0], "src_interpreter<i_mep>::src_interpreter")
    # ---- symbol::penalty, symbol::penalty_nvi, comparison_function_penalty
    for nm, key in (("penalty", "symbol_penalty"), ("penalty_nvi", "symbol_penalty_nvi")):
        ds = [d for d in ast_dump(TU, "vita::symbol::" + nm) if d.get("kind") == "CXXMethodDecl" and
              d.get("name") == nm and any(k.get("kind") == "CompoundStmt" for k in kids(d))]
        if len(ds) != 1:
            raise Refuse("symbol::%s: %d definitions" % (nm, len(ds)))
        f = Fun("symbol::" + nm, "symbol", params_of(ds[0], "symbol::" + nm))
        res[key] = f.body([method_body(ds[0], "symbol::" + nm)])
    ds = [d for d in ast_dump(TU, "vita::comparison_function_penalty") if d.get("kind") == "FunctionDecl" and
          any(k.get("kind") == "CompoundStmt" for k in kids(d))]
    if len(ds) != 1:
        raise Refuse("comparison_function_penalty: %d definitions" % len(ds))
    res["comparison_function_penalty"] = translate_fn(ds[0], "comparison_function_penalty", "free")
    # ---- basic_gene<4>::locus_of_argument
    spec = []
    for d in ast_dump(TU, "vita::basic_gene"):
        spec += find_all(d, lambda x: x.get("kind") == "ClassTemplateSpecializationDecl" and
                         x.get("name") == "basic_gene" and x.get("completeDefinition"))
    loa = [methods(s)["locus_of_argument"] for s in spec if "locus_of_argument" in methods(s)]
    if not loa:
        raise Refuse("basic_gene<4>::locus_of_argument is not instantiated in the translation unit")
    res["locus_of_argument"] = locus_of_argument(loa[0])
    # ---- the primitives
    ship = shipped_symbols()
    pens = sorted({p for (_, _, _, p) in ship if p is not None})
    if len(pens) > 1:
        raise Refuse("the penalty_nvi overrides of the primitives differ from each other: the model knows one shape")
    res["penalty_override"] = pens[0] if pens else res["symbol_penalty_nvi"]
    res["shipped"] = [(c, n, a, p is not None) for (c, n, a, p) in ship]
    return res


def locus_of_argument(m):
    what = "basic_gene<4>::locus_of_argument"
    ps = [p for p in kids(m) if p.get("kind") == "ParmVarDecl"]
    if len(ps) != 1:
        raise Refuse(what + ": parameters")
    pn = ps[0]["name"]
    st = [s for s in kids(method_body(m, what)) if s.get("kind") not in ("NullStmt",) and
          not (s.get("kind") == "ParenExpr" and ty(s) == "void")]
    if len(st) != 1 or st[0].get("kind") != "ReturnStmt":
        raise Refuse(what + ": body is not a single return")
    e = strip(kids(st[0])[0])
    if e.get("kind") not in ("InitListExpr", "CXXConstructExpr", "CXXTemporaryObjectExpr") or len(kids(e)) != 2:
        raise Refuse(what + ": returned expression")
    f = Fun(what, "gene", {pn: "iarg"})

    def comp(n):
        # strip value-preserving integral casts
        while True:
            ks = kids(n)
            k = n.get("kind")
            if k in WRAP and len(ks) == 1:
                n = ks[0]
            elif k == "ImplicitCastExpr" and len(ks) == 1 and (n.get("castKind") in PASS_CASTS or (
                    n.get("castKind") == "IntegralCast" and ty(ks[0]) in WIDTH and ty(n) in WIDTH and
                    WIDTH[ty(ks[0])] <= WIDTH[ty(n)])):
                n = ks[0]
            else:
                break
        name, obj, args = callee(n)
        if n.get("kind") == "CXXOperatorCallExpr" and name == "operator[]" and len(args) == 1:
            b = member(strip(obj), "args")
            if b is not None and strip(b).get("kind") == "CXXThisExpr" and f.idx(args[0]) == ".arg":
                return ".args"
        if n.get("kind") == "CXXMemberCallExpr" and name == "arg_category" and len(args) == 1 and \
                f.idx(args[0]) == ".arg":
            o = strip(obj)
            cn, _, cargs = callee(o) if o.get("kind") == "CallExpr" else (None, None, [])
            if cn == "cast" and len(cargs) == 1:
                s = member(strip(cargs[0]), "sym")
                if s is not None and strip(s).get("kind") == "CXXThisExpr":
                    return ".argCat"
        raise Refuse(what + ": component %s" % n.get("kind"))
    return "(%s, %s)" % (comp(kids(e)[0]), comp(kids(e)[1]))


def indent(txt):
    out, depth = [], 1
    for ln in txt.split("\n"):
        ln = ln.strip()
        out.append("  " * max(depth - (1 if ln.startswith(")") else 0), 1) + ln)
        depth += ln.count("(") - ln.count(")")
    return "\n".join(out)


CODE_KEYS = ["run_locus", "run_nvi", "fetch_param", "fetch_arg", "fetch_opaque_arg", "fetch_index",
             "penalty_locus", "penalty_nvi", "core_run", "core_penalty", "params_subscript", "params_fetch_var",
             "src_run", "src_fetch_var", "symbol_penalty", "symbol_penalty_nvi", "comparison_function_penalty",
             "penalty_override"]
WHERE = {"run_locus": "interpreter<i_mep>::run_locus(const locus &)", "run_nvi": "interpreter<i_mep>::run_nvi()",
         "fetch_param": "interpreter<i_mep>::fetch_param()", "fetch_arg": "interpreter<i_mep>::fetch_arg(unsigned)",
         "fetch_opaque_arg": "interpreter<i_mep>::fetch_opaque_arg(unsigned)",
         "fetch_index": "interpreter<i_mep>::fetch_index(unsigned)",
         "penalty_locus": "interpreter<i_mep>::penalty_locus(const locus &)",
         "penalty_nvi": "interpreter<i_mep>::penalty_nvi()", "core_run": "core_interpreter::run()",
         "core_penalty": "core_interpreter::penalty()", "params_subscript": "symbol_params::operator[](unsigned)",
         "params_fetch_var": "symbol_params::fetch_var(unsigned)",
         "src_run": "src_interpreter<i_mep>::run(const std::vector<value_t> &)",
         "src_fetch_var": "src_interpreter<i_mep>::fetch_var(unsigned)", "symbol_penalty": "symbol::penalty(core_interpreter *)",
         "symbol_penalty_nvi": "symbol::penalty_nvi(core_interpreter *) (the base version)",
         "comparison_function_penalty": "comparison_function_penalty(core_interpreter *)",
         "penalty_override": "the penalty_nvi override shared by the primitives that have one"}


def lstr(s):
    return '"' + s.replace("\\", "\\\\").replace('"', '\\"') + '"'


def render(res):
    L = ["-- GENERATED by tools/translate_interp.py from the clang AST of src/kernel/gp/mep/interpreter.cc,",
         "-- core_interpreter.h, gp/src/interpreter.tcc, gp/gene.tcc, gp/symbol.h/.cc, gp/src/primitive/*.h of the repo",
         "-- working tree; regenerated on every check run; do not edit",
         "import Vita.C01.Lang", "namespace Vita.C01.GenInterp", "open Vita.C01.Lang", ""]
    for k in CODE_KEYS:
        L.append("/-- `%s` -/" % WHERE[k])
        L.append("def %s : Code :=\n%s\n" % (k, indent(res[k])))
    L.append("/-- `basic_gene<4>::locus_of_argument(i)`: (index, category) -/")
    L.append("def locus_of_argument : SelfE × SelfE := %s\n" % res["locus_of_argument"])
    L.append("/-- member initialisers of `interpreter<i_mep>::interpreter(const i_mep *ind)` -/")
    L.append("def ctor : List (String × String) :=\n  [%s]\n" % ", ".join("(%s, %s)" % (lstr(a), lstr(b)) for a, b in res["ctor"]))
    L.append("/-- member initialisers of `src_interpreter<i_mep>::src_interpreter(const i_mep *prg)` -/")
    L.append("def src_ctor : List (String × String) :=\n  [%s]\n" % ", ".join("(%s, %s)" % (lstr(a), lstr(b)) for a, b in res["src_ctor"]))
    L.append("/-- every primitive class with an `eval`: class, `symbol::name()`, arity, overrides `penalty_nvi` -/")
    L.append("def shipped : List (String × String × Nat × Bool) :=\n  [%s]\n" % ",\n   ".join(
        "(%s, %s, %d, %s)" % (lstr(c), lstr(n), a, "true" if p else "false") for c, n, a, p in res["shipped"]))
    L.append("end Vita.C01.GenInterp\n")
    return "\n".join(L)


def emit(path, cache=None):
    """write GenInterp.lean; `cache` (a json file outside the source tree) avoids the twelve clang runs when
    neither the preprocessed sources nor the translator changed"""
    key = source_key()
    res = None
    if cache and os.path.exists(cache):
        try:
            c = json.load(open(cache))
            if c.get("key") == key:
                res = c["res"]
                res["ctor"] = [tuple(x) for x in res["ctor"]]
                res["src_ctor"] = [tuple(x) for x in res["src_ctor"]]
                res["shipped"] = [tuple(x) for x in res["shipped"]]
        except (ValueError, KeyError):
            res = None
    if res is None:
        _DUMPS.clear()
        res = extract()
        if cache:
            os.makedirs(os.path.dirname(cache), exist_ok=True)
            with open(cache + ".tmp", "w") as f:
                json.dump({"key": key, "res": res}, f)
            os.replace(cache + ".tmp", cache)
    txt = render(res)
    old = open(path).read() if os.path.exists(path) else None
    if old != txt:
        os.makedirs(os.path.dirname(path), exist_ok=True)
        with open(path, "w") as f:
            f.write(txt)
    return res, old is not None and old != txt


if __name__ == "__main__":
    here = os.path.dirname(os.path.dirname(os.path.abspath(__file__)))
    try:
        if len(sys.argv) > 1 and sys.argv[1] == "--print":
            print(render(extract()))
        else:
            res, changed = emit(os.path.join(here, "lean", "Vita", "C01", "GenInterp.lean"))
            print("translated:", " ".join(CODE_KEYS), "(changed)" if changed else "")
    except Refuse as e:
        print("REFUSE:", e)
        sys.exit(2)
