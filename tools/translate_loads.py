#!/usr/bin/env python3
"""C12 (a) — helper library of tools/translate_flow.py (round 3).

Until round 2 this file was the translator of the flat commit-last table (`Vita.C12.Stmt`: fail / write / sub);
the table now carries the data-flow and is produced by tools/translate_flow.py, which reuses the classification
helpers below (`Fn.strip`, `callee_name`, `is_const_view`, the kind sets, `template_args`, `has_body`).  The
description that follows is the one of the old abstraction, kept for the rules it documents.

Extract the commit-last structure of every load function from the clang AST.

For each load / load_impl named by the property the body is abstracted to a term of
`Vita.C12.Stmt` (lean/Vita/C12/CommitLast.lean):

    fail    `return false`, `return <non-constant>`, `throw`
    write   a modification of *this: assignment / compound assignment / ++ / -- whose target is
            rooted in `this`; `in >> <this-rooted>`; a non-const member call on a this-rooted
            object; a this-rooted lvalue (or its address) handed to a function / constructor
            otherwise than as a const reference or by value; the same through a local
            reference variable bound to a this-rooted object (aliases are tracked)
    sub i   a call of load / load_impl / load_ on `this` or on a this-rooted object (entry i);
            `if (!obj.load(…)) return false;` is emitted as the single atom `sub i` (the failure
            of the nested load *is* the failure of the caller), any other use of the result keeps
            the `sub i` and whatever follows it
    skip    everything else
    seq / loop / branch follow the statement structure (if, for, range-for, while, do).

Syntax only; the meaning is given (and `commit_last_sound` proved) in Lean.  Any statement or
expression kind not listed here makes the translator refuse.
"""
import concurrent.futures as cf
import os
import re
import sys

sys.path.insert(0, os.path.dirname(os.path.abspath(__file__)))
from cxx2lean import Refuse, ast_dump, kids, qtype  # noqa: E402


# (key, dump filter, how to find the definition)
#   ("method", cls, name)            top-level out-of-line CXXMethodDecl `name` whose parent is `cls`
#   ("spec", tmpl, [args], name)     member `name` of the ClassTemplateSpecializationDecl tmpl<args>
TARGETS = [
    ("vita::hash_t::load", "vita::hash_t::load", ("method", "hash_t", "load")),
    ("vita::i_ga::load_impl", "vita::i_ga::load_impl", ("method", "i_ga", "load_impl")),
    ("vita::i_de::load_impl", "vita::i_de::load_impl", ("method", "i_de", "load_impl")),
    ("vita::i_mep::load_impl", "vita::i_mep::load_impl", ("method", "i_mep", "load_impl")),
    ("vita::individual<vita::i_ga>::load", "vita::individual", ("spec", "individual", ["vita::i_ga"], "load")),
    ("vita::individual<vita::i_de>::load", "vita::individual", ("spec", "individual", ["vita::i_de"], "load")),
    ("vita::individual<vita::i_mep>::load", "vita::individual", ("spec", "individual", ["vita::i_mep"], "load")),
    ("vita::team<vita::i_mep>::load", "vita::team", ("spec", "team", ["vita::i_mep"], "load")),
    ("vita::population<vita::i_mep>::load", "vita::population", ("spec", "population", ["vita::i_mep"], "load")),
    ("vita::summary<vita::i_mep>::load", "vita::summary", ("spec", "summary", ["vita::i_mep"], "load")),
    ("vita::basic_fitness_t<double>::load", "vita::basic_fitness_t", ("spec", "basic_fitness_t", ["double"], "load")),
    ("vita::matrix<int>::load", "vita::matrix", ("spec", "matrix", ["int"], "load")),
    ("vita::matrix<unsigned int>::load", "vita::matrix", ("spec", "matrix", ["unsigned int"], "load")),
    ("vita::distribution<double>::load", "vita::distribution", ("spec", "distribution", ["double"], "load")),
    ("vita::detail::class_names<true>::load", "vita::detail::class_names", ("method", "class_names", "load")),
]

# a load called through a derived class resolves to the base-class entry
ALIASES = {
    "vita::i_ga::load": "vita::individual<vita::i_ga>::load",
    "vita::i_de::load": "vita::individual<vita::i_de>::load",
    "vita::i_mep::load": "vita::individual<vita::i_mep>::load",
}

LOAD_NAMES = {"load", "load_impl", "load_"}
ASSIGN_OPS = {"=", "+=", "-=", "*=", "/=", "%=", "<<=", ">>=", "&=", "|=", "^="}
ASSIGN_OPERATORS = {"operator" + o for o in ASSIGN_OPS} | {"operator++", "operator--"}

TRANSPARENT = {"ExprWithCleanups", "MaterializeTemporaryExpr", "CXXBindTemporaryExpr", "ParenExpr",
               "ConstantExpr", "ImplicitCastExpr", "CXXStaticCastExpr", "CXXFunctionalCastExpr",
               "CStyleCastExpr", "CXXConstCastExpr", "CXXReinterpretCastExpr", "CXXDefaultArgExpr",
               "CXXDefaultInitExpr", "SubstNonTypeTemplateParmExpr", "ArraySubscriptExpr",
               "ConditionalOperator", "InitListExpr", "CXXStdInitializerListExpr", "ImplicitValueInitExpr",
               "CXXScalarValueInitExpr", "UnaryExprOrTypeTraitExpr"}
LEAF = {"DeclRefExpr", "IntegerLiteral", "CXXBoolLiteralExpr", "FloatingLiteral", "StringLiteral",
        "CharacterLiteral", "CXXNullPtrLiteralExpr", "CXXThisExpr", "TypeTraitExpr", "GNUNullExpr"}


# ---- a tiny term language mirrored by Vita.C12.Stmt -------------------------------------
def seq(*xs):
    xs = [x for x in xs if x != ("skip",)]
    if not xs:
        return ("skip",)
    r = xs[-1]
    for x in reversed(xs[:-1]):
        r = ("seq", x, r)
    return r


def lean(t):
    k = t[0]
    if k in ("skip", "fail", "write"):
        return "." + k
    if k == "sub":
        return "(.sub %d)" % t[1]
    if k == "seq":
        return "(.seq %s %s)" % (lean(t[1]), lean(t[2]))
    if k == "loop":
        return "(.loop %s)" % lean(t[1])
    if k == "branch":
        return "(.branch %s %s)" % (lean(t[1]), lean(t[2]))
    raise Refuse("internal: " + repr(t))


class Fn:
    """Translation of one function body."""

    def __init__(self, key, index_of):
        self.key = key
        self.index_of = index_of
        self.aliases = set()        # ids of local reference variables bound to this-rooted objects
        self.notes = []

    # -- where does an lvalue live? ----------------------------------------------------
    def root(self, e):
        k = e.get("kind")
        if k == "CXXThisExpr":
            return "this"
        if k == "MemberExpr":
            r = self.root(kids(e)[0])
            return "this" if r == "this" else r
        if k == "DeclRefExpr":
            rid = e.get("referencedDecl", {}).get("id")
            return "this" if rid in self.aliases else "local"
        if k == "UnaryOperator" and e.get("opcode") in ("*", "&"):
            return self.root(kids(e)[0])
        if k in ("ImplicitCastExpr", "CXXStaticCastExpr", "ParenExpr", "CStyleCastExpr", "CXXConstCastExpr",
                 "MaterializeTemporaryExpr", "ExprWithCleanups", "CXXBindTemporaryExpr", "CXXFunctionalCastExpr"):
            return self.root(kids(e)[0])
        if k == "ArraySubscriptExpr":
            return self.root(kids(e)[0])
        if k == "CXXOperatorCallExpr":
            name = self.callee_name(e)
            if name in ("operator[]", "operator()", "operator*", "operator->"):
                return self.root(kids(e)[1])
            return "other"
        if k == "CXXMemberCallExpr":
            # e.g. v.front(), m.begin(): conservatively the object the call is made on
            me = self.strip(kids(e)[0])
            if me.get("kind") == "MemberExpr":
                return self.root(kids(me)[0])
            return "other"
        return "other"

    @staticmethod
    def strip(e):
        while e.get("kind") in ("ImplicitCastExpr", "ParenExpr", "ExprWithCleanups", "MaterializeTemporaryExpr",
                                "CXXBindTemporaryExpr") and len(kids(e)) == 1:
            e = kids(e)[0]
        return e

    def callee_name(self, call):
        f = self.strip(kids(call)[0])
        if f.get("kind") == "DeclRefExpr":
            return f.get("referencedDecl", {}).get("name")
        if f.get("kind") == "MemberExpr":
            return f.get("name")
        if f.get("kind") in ("UnresolvedLookupExpr", "UnresolvedMemberExpr", "CXXDependentScopeMemberExpr"):
            raise Refuse("%s: unresolved callee %s (template not instantiated?)" % (self.key, f.get("name")))
        return None

    @staticmethod
    def is_const_view(e):
        """expression whose type is const-qualified, or an rvalue read (LValueToRValue)"""
        if e.get("kind") == "ImplicitCastExpr" and e.get("castKind") == "LValueToRValue":
            return True
        t = qtype(e)
        return t.startswith("const ")

    def arg_writes(self, a):
        """an argument position hands a this-rooted lvalue to the callee in a writable way"""
        if self.is_const_view(a):
            return False
        s = self.strip(a) if a.get("kind") != "ImplicitCastExpr" or a.get("castKind") != "LValueToRValue" else a
        if s.get("kind") == "ImplicitCastExpr" and s.get("castKind") == "LValueToRValue":
            return False
        if self.is_const_view(s):
            return False
        if s.get("kind") == "UnaryOperator" and s.get("opcode") == "&":
            inner = kids(s)[0]
            return self.root(inner) == "this" and not qtype(inner).startswith("const ")
        if s.get("valueCategory") not in ("lvalue", "xvalue"):
            return False
        return self.root(s) == "this"

    # -- expressions -----------------------------------------------------------------------
    def eff(self, e):
        k = e.get("kind")
        if k is None:
            return ("skip",)
        if k in LEAF:
            return ("skip",)
        if k == "MemberExpr":
            return self.eff(kids(e)[0])
        if k == "CXXThrowExpr":
            return seq(*[self.eff(c) for c in kids(e)], ("fail",))
        if k in ("BinaryOperator", "CompoundAssignOperator"):
            a, b = kids(e)
            w = ("write",) if (e.get("opcode") in ASSIGN_OPS and self.root(a) == "this") else ("skip",)
            if e.get("opcode") in ("&&", "||"):
                return seq(self.eff(a), ("branch", self.eff(b), ("skip",)))
            return seq(self.eff(a), self.eff(b), w)
        if k == "UnaryOperator":
            a = kids(e)[0]
            w = ("write",) if (e.get("opcode") in ("++", "--") and self.root(a) == "this") else ("skip",)
            return seq(self.eff(a), w)
        if k == "CXXOperatorCallExpr":
            name = self.callee_name(e)
            args = kids(e)[1:]
            pre = [self.eff(a) for a in args]
            w = ("skip",)
            if name in ASSIGN_OPERATORS and args and self.root(args[0]) == "this" and not self.is_const_view(args[0]):
                w = ("write",)
            elif name == "operator>>" and len(args) == 2 and self.arg_writes(args[1]):
                w = ("write",)
            elif name not in ASSIGN_OPERATORS and name not in ("operator>>", "operator<<", "operator[]", "operator()",
                                                                "operator*", "operator->", "operator!", "operator==",
                                                                "operator!=", "operator<", "operator>", "operator<=",
                                                                "operator>=", "operator+", "operator-", "operator bool"):
                raise Refuse("%s: operator %s not classified" % (self.key, name))
            return seq(*pre, w)
        if k == "CXXMemberCallExpr":
            me = self.strip(kids(e)[0])
            args = kids(e)[1:]
            pre = [self.eff(a) for a in args]
            argw = [("write",) for a in args if self.arg_writes(a)]
            if me.get("kind") != "MemberExpr":
                raise Refuse("%s: member call through %s" % (self.key, me.get("kind")))
            obj = kids(me)[0]
            name = me.get("name")
            on_this = self.root(obj) == "this"
            objeff = self.eff(obj)
            if name in LOAD_NAMES and on_this:
                cls = re.sub(r"\s*[*&]\s*$", "", re.sub(r"^const\s+", "", qtype(obj))).strip()
                cls = re.sub(r"\s*\*\s*$", "", cls)
                key = cls + "::" + name
                key = ALIASES.get(key, key)
                if key not in self.index_of:
                    raise Refuse("%s: nested load %s on *this is not in the table" % (self.key, key))
                return seq(objeff, *pre, *argw, ("sub", self.index_of[key]))
            if on_this and not self.is_const_view(obj) and not qtype(self.strip(obj)).startswith("const "):
                # non-const member function on a this-rooted object (const calls carry a NoOp cast to const)
                return seq(objeff, *pre, *argw, ("write",))
            return seq(objeff, *pre, *argw)
        if k in ("CallExpr", "CXXConstructExpr", "CXXTemporaryObjectExpr", "CXXNewExpr", "CXXUnresolvedConstructExpr"):
            ks = kids(e)
            if k == "CallExpr":
                ks = ks[1:]
            pre = [self.eff(a) for a in ks]
            argw = [("write",) for a in ks if self.arg_writes(a)]
            return seq(*pre, *argw)
        if k == "LambdaExpr":
            body = [c for c in kids(e) if c.get("kind") == "CompoundStmt"]
            return ("branch", self.stmt(body[0]), ("skip",)) if body else ("skip",)
        if k in TRANSPARENT:
            return seq(*[self.eff(c) for c in kids(e)])
        raise Refuse("%s: expression kind %s not handled" % (self.key, k))

    def guarded_sub(self, cond):
        """cond is exactly `!obj.load(...)` with obj rooted in *this"""
        c = self.strip(cond)
        if c.get("kind") != "UnaryOperator" or c.get("opcode") != "!":
            return False
        c = self.strip(kids(c)[0])
        if c.get("kind") != "CXXMemberCallExpr":
            return False
        me = self.strip(kids(c)[0])
        return me.get("kind") == "MemberExpr" and me.get("name") in LOAD_NAMES and \
            self.root(kids(me)[0]) == "this"

    # -- statements ------------------------------------------------------------------------
    def decl(self, d):
        out = []
        for v in kids(d):
            if v.get("kind") == "VarDecl":
                init = [c for c in kids(v) if "Expr" in c.get("kind", "") or c.get("kind", "").endswith("Operator")
                        or c.get("kind") in ("InitListExpr",)]
                for i in init:
                    out.append(self.eff(i))
                    t = v.get("type", {}).get("qualType", "")
                    if ("&" in t) and not t.startswith("const ") and self.root(i) == "this":
                        self.aliases.add(v.get("id"))
                    if t.rstrip().endswith("*") and self.root(i) == "this":
                        self.aliases.add(v.get("id"))
            elif v.get("kind") in ("TypedefDecl", "TypeAliasDecl", "StaticAssertDecl", "UsingDecl", "CXXRecordDecl"):
                pass
            else:
                raise Refuse("%s: declaration kind %s not handled" % (self.key, v.get("kind")))
        return seq(*out)

    def stmt(self, s):
        k = s.get("kind")
        if k is None:
            return ("skip",)
        if k == "CompoundStmt":
            return seq(*[self.stmt(c) for c in kids(s)])
        if k == "DeclStmt":
            return self.decl(s)
        if k == "NullStmt":
            return ("skip",)
        if k == "ReturnStmt":
            ks = kids(s)
            if not ks:
                return ("skip",)
            v = self.strip(ks[0])
            if v.get("kind") == "CXXBoolLiteralExpr":
                return ("skip",) if v.get("value") else ("fail",)
            return seq(self.eff(ks[0]), ("fail",))
        if k == "IfStmt":
            inner = s.get("inner", [])
            pos = 0
            pre = []
            if s.get("hasInit"):
                pre.append(self.stmt(inner[pos])); pos += 1
            if s.get("hasVar"):
                pre.append(self.stmt(inner[pos])); pos += 1
            cond = self.eff(inner[pos]); pos += 1
            then = self.stmt(inner[pos]); pos += 1
            els = self.stmt(inner[pos]) if s.get("hasElse") and pos < len(inner) else ("skip",)
            # `if (!<nested load on *this>) return false;` (or throw): the failure of the nested load is
            # the failure of this function -> a single guarded `sub`
            if not s.get("hasElse") and then == ("fail",) and self.guarded_sub(inner[pos - 2]):
                return seq(*pre, cond)
            return seq(*pre, cond, ("branch", then, els))
        if k == "ForStmt":
            inner = s.get("inner", [])
            init, condvar, cond, inc, body = (inner + [{}] * 5)[:5]
            return seq(self.stmt(init) if init.get("kind", "").endswith("Stmt") else self.eff(init),
                       ("loop", seq(self.stmt(condvar), self.eff(cond), self.stmt(body), self.eff(inc))))
        if k == "CXXForRangeStmt":
            inner = s.get("inner", [])
            decls = [c for c in inner if c.get("kind") == "DeclStmt"]
            body = inner[-1]
            pre = []
            # the first DeclStmt is `auto &&__range = <expr>`; the last one declares the loop variable
            range_this = False
            if decls:
                rv = kids(decls[0])[0]
                ri = [c for c in kids(rv) if c.get("kind")]
                if ri:
                    pre.append(self.eff(ri[0]))
                    range_this = self.root(ri[0]) == "this" and not self.is_const_view(ri[0])
                lv = kids(decls[-1])[0]
                t = lv.get("type", {}).get("qualType", "")
                if range_this and "&" in t and not t.startswith("const "):
                    self.aliases.add(lv.get("id"))
            return seq(*pre, ("loop", self.stmt(body)))
        if k in ("WhileStmt", "DoStmt"):
            ks = kids(s)
            if k == "WhileStmt":
                cond, body = ks[-2], ks[-1]
            else:
                body, cond = ks[0], ks[1]
            return ("loop", seq(self.eff(cond), self.stmt(body)))
        if k in ("BreakStmt", "ContinueStmt"):
            return ("skip",)
        if k.endswith("Expr") or k.endswith("Operator") or k == "ExprWithCleanups":
            return self.eff(s)
        raise Refuse("%s: statement kind %s not handled" % (self.key, k))


# ---- locating the definitions -------------------------------------------------------------
def has_body(n):
    return any(c.get("kind") == "CompoundStmt" for c in kids(n))


def template_args(spec):
    out = []
    for c in kids(spec):
        if c.get("kind") == "TemplateArgument":
            if "type" in c:
                out.append(c["type"].get("qualType"))
            elif "value" in c:
                v = c["value"]
                out.append({1: "true", 0: "false"}.get(v, str(v)) if isinstance(v, int) else str(v))
            else:
                out.append(str(c.get("inner", [{}])[0].get("value", "?")))
    return out


def find_def(docs, how):
    if how[0] == "method":
        _, cls, name = how
        for d in docs:
            if d.get("kind") == "CXXMethodDecl" and d.get("name") == name and has_body(d) and \
                    d.get("parentDeclContextId"):
                return d
        raise Refuse("out-of-line definition of %s::%s not found" % (cls, name))
    _, tmpl, args, name = how

    def walk(n):
        if n.get("kind") == "ClassTemplateSpecializationDecl" and n.get("name") == tmpl:
            ta = template_args(n)
            norm = [{"1": "true", "0": "false"}.get(a, a) for a in ta]
            if norm[:len(args)] == args:
                for m in kids(n):
                    if m.get("kind") in ("CXXMethodDecl", "CXXConstructorDecl") and m.get("name") == name and has_body(m):
                        return m
        for c in n.get("inner", []):
            if isinstance(c, dict) and c.get("kind") in ("ClassTemplateDecl", "ClassTemplateSpecializationDecl",
                                                         "NamespaceDecl"):
                r = walk(c)
                if r is not None:
                    return r
        return None

    for d in docs:
        r = walk(d)
        if r is not None:
            return r
    raise Refuse("definition of %s<%s>::%s not found (is it instantiated in tools/tu/%s?)"
                 % (tmpl, ", ".join(args), name, TU))
