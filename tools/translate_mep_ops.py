#!/usr/bin/env python3
"""C02 translator: loop bounds, draw ranges and index expressions of the MEP genetic operators.

Reads the clang-14 JSON AST of /repo's *current* working tree (tools/tu/mep_ops_tu.cc = i_mep.cc +
gene.tcc + team.tcc, team<i_mep> explicitly instantiated) and writes lean/Vita/C02/Gen.lean:

  ctor            i_mep::i_mep(const problem &): the genome writes (row / column loop bounds, target,
                  what is constructed: gene(roulette(c), from, sup) | gene(roulette_terminal(c))),
                  best_, the flavour draw
  mutation        the iteration (begin()..end() = exons), the Bernoulli guard, the candidate gene
                  (`ix < patch ? … : …`), `if (*i != g) { ++n; *i = g; }`
  xoverOnePoint / xoverTwoPoints / xoverUniform     draws (random::between / sup with their bounds)
                  and genome writes (cut ranges, which parent is copied where)
  xoverTree       the recursive copy (start locus, what is copied, what it recurses over)
  xoverParents / xoverMeta    which operand is `from`, what else the offspring inherits
  destroy, getBlock           writes of destroy_block / members assigned by get_block
  geneArgs        basic_gene(const symbol &, from, sup): number of arguments, the range handed to
                  random::between, the width they are narrowed to
  teamCtor / teamMutation / teamCrossover / teamIncAge   the member loops of team<i_mep>

Only SYNTAX is produced: integer expressions in the `E` embedding of Vita/Common/IntE.lean over the
variable numbering of Vita/C02/GenSem.lean; every meaning (what a loop covers, which gene a write
leaves) is defined and proved in Lean (GenSem.lean, Props.lean `gen_*`).  Unknown statement or
expression shapes are refused (`Refuse`): the translator never skips code silently.
"""
import os
import sys

sys.path.insert(0, os.path.dirname(os.path.abspath(__file__)))
import cxx2lean as X  # noqa: E402
from cxx2lean import Refuse, kids, qtype, peel  # noqa: E402

TU = "mep_ops_tu.cc"

# variable numbering (GenSem.lean)
V_ROWS, V_PATCH, V_CATS, V_I, V_C, V_D0, V_D1, V_P0, V_P1, V_N, V_K, V_CODELEN, V_SSCATS = range(13)
# V_ROWS / V_CATS are the INDIVIDUAL's own size() / categories(); V_PATCH, V_CODELEN, V_SSCATS are read from the
# problem handed to the operator (env.mep.patch_length, env.mep.code_length, sset.categories()): the tables record
# WHICH quantity every bound uses, the gen_* theorems quantify over environments that do not fit the individual

LEAVES = ("lit", "size", "cats", "patch", "codelen", "sscats", "v")

UNSIGNED = {"unsigned long", "const unsigned long", "unsigned int", "const unsigned int",
            "std::size_t", "const std::size_t"}


URANK = {"unsigned char": 8, "unsigned short": 16, "unsigned int": 32, "unsigned long": 64, "std::size_t": 64}


# ------------------------------------------------------------------ small helpers
def strip(n):
    """peel value-preserving wrappers, including widening integral casts between unsigned types"""
    while True:
        n = peel(n)
        k = n.get("kind")
        if k == "ImplicitCastExpr" and n.get("castKind") == "IntegralCast" and len(kids(n)) == 1:
            src, dst = qtype(kids(n)[0]), qtype(n)
            if kids(n)[0].get("kind") == "IntegerLiteral":
                n = kids(n)[0]
                continue
            rs, rd = URANK.get(src.replace("const ", "")), URANK.get(dst.replace("const ", ""))
            if rs is not None and rd is not None and rs <= rd:
                n = kids(n)[0]          # unsigned -> at least as wide unsigned: value preserved
                continue
            raise Refuse("integral cast %r -> %r" % (src, dst))
        return n


def unbool(n):
    """the integer tested by `if (n)`"""
    n = peel(n)
    if n.get("kind") == "ImplicitCastExpr" and n.get("castKind") == "IntegralToBoolean":
        n = kids(n)[0]
    return strip(n)


def peel_base(n):
    """peel, also through derived-to-base conversions (members of individual<i_mep> seen from i_mep)"""
    while True:
        n = peel(n)
        if n.get("kind") == "ImplicitCastExpr" and n.get("castKind") in ("UncheckedDerivedToBase", "DerivedToBase") \
                and len(kids(n)) == 1:
            n = kids(n)[0]
            continue
        return n


def member_chain(n):
    """['$p', 'env', 'mep', 'patch_length'] for p.env.mep.patch_length; None otherwise"""
    n = peel_base(n)
    out = []
    while n.get("kind") == "MemberExpr":
        out.append(n.get("name"))
        ks = kids(n)
        if len(ks) != 1:
            return None
        n = peel_base(ks[0])
    if n.get("kind") == "DeclRefExpr":
        out.append("$" + n.get("referencedDecl", {}).get("name", "?"))
    elif n.get("kind") == "CXXThisExpr":
        out.append("$this")
    elif n.get("kind") == "UnaryOperator" and n.get("opcode") == "*" and peel(kids(n)[0]).get("kind") == "CXXThisExpr":
        out.append("$this")
    else:
        return None
    return list(reversed(out))


def member_call(n):
    """(object chain, method, args) of a CXXMemberCallExpr; None otherwise"""
    n = peel(n)
    if n.get("kind") != "CXXMemberCallExpr":
        return None
    ks = kids(n)
    f = peel(ks[0])
    if f.get("kind") != "MemberExpr":
        return None
    obj = kids(f)
    ch = member_chain(obj[0]) if obj else None
    return ch, f.get("name"), ks[1:]


def free_call(n):
    """(name, args without default arguments) of a plain CallExpr"""
    n = peel(n)
    if n.get("kind") != "CallExpr":
        return None
    ks = kids(n)
    return X.callee_name(n), [a for a in ks[1:] if a.get("kind") != "CXXDefaultArgExpr"]


# ------------------------------------------------------------------ symbolic integer expressions
# ('lit', n) ('var', name) ('add'|'sub', a, b) ('lt'|'gt'|'le'|'ge'|'ne'|'eq', a, b) ('ite', c, a, b)
# ('size',) ('cats',) own geometry of an individual; ('patch',) ('codelen',) ('sscats',) fields of the problem
class Scope:
    """const integer locals are substituted by their definition; loop / draw / parameter variables
    stay symbolic until the write that uses them decides their role"""

    def __init__(self, individuals, problems, params=()):
        self.individuals = set(individuals)     # names whose size()/categories() are the genome's
        self.problems = set(problems)           # names p with p.env.mep.patch_length
        self.defs = {}                          # local name -> expression
        self.sym = set(params)                  # symbolic names (parameters, loop variables, draws)

    def expr(self, n):
        n = strip(n)
        k = n.get("kind")
        if k == "IntegerLiteral":
            return ("lit", int(n.get("value")))
        if k == "DeclRefExpr":
            name = n.get("referencedDecl", {}).get("name")
            if name in self.defs:
                return self.defs[name]
            if name in self.sym:
                return ("var", name)
            raise Refuse("integer expression refers to unknown name %r" % name)
        if k == "BinaryOperator":
            op = {"+": "add", "-": "sub", "<": "lt", ">": "gt", "<=": "le", ">=": "ge", "!=": "ne", "==": "eq"}.get(n.get("opcode"))
            if op is None:
                raise Refuse("integer operator %r" % n.get("opcode"))
            a, b = kids(n)
            return (op, self.expr(a), self.expr(b))
        if k == "ConditionalOperator":
            c, a, b = kids(n)
            return ("ite", self.expr(c), self.expr(a), self.expr(b))
        mc = member_call(n)
        if mc is not None:
            ch, meth, args = mc
            if ch and len(ch) == 1 and ch[0][1:] in self.individuals and not args:
                if meth == "size":
                    return ("size",)
                if meth == "categories":
                    return ("cats",)
            if ch and len(ch) == 2 and ch[0][1:] in self.problems and ch[1] == "sset" and meth == "categories" and not args:
                return ("sscats",)
            raise Refuse("member call %s.%s in an integer expression" % (ch, meth))
        ch = member_chain(n)
        if ch and len(ch) == 4 and ch[0][1:] in self.problems and ch[1:3] == ["env", "mep"]:
            if ch[3] == "patch_length":
                return ("patch",)
            if ch[3] == "code_length":
                return ("codelen",)
        raise Refuse("integer expression of kind %s" % k)

    def fork(self):
        """a copy for a nested block (its locals go out of scope at the end of the block)"""
        sc = Scope(self.individuals, self.problems)
        sc.defs = dict(self.defs)
        sc.sym = set(self.sym)
        return sc


def subst(e, m):
    if e[0] == "var":
        return m.get(e[1], e)
    if e[0] in LEAVES:
        return e
    return (e[0],) + tuple(subst(x, m) for x in e[1:])


def free_vars(e, out=None):
    out = set() if out is None else out
    if e[0] == "var":
        out.add(e[1])
    elif e[0] not in LEAVES:
        for x in e[1:]:
            free_vars(x, out)
    return out


def lean_e(e):
    t = e[0]
    if t == "lit":
        return "(.lit %d)" % e[1]
    if t == "v":
        return "(.var %d)" % e[1]
    if t == "size":
        return "(.var %d)" % V_ROWS
    if t == "cats":
        return "(.var %d)" % V_CATS
    if t == "patch":
        return "(.var %d)" % V_PATCH
    if t == "codelen":
        return "(.var %d)" % V_CODELEN
    if t == "sscats":
        return "(.var %d)" % V_SSCATS
    if t == "ite":
        return "(.ite %s %s %s)" % (lean_e(e[1]), lean_e(e[2]), lean_e(e[3]))
    if t in ("add", "sub"):
        return "(.bin .%s .i64 %s %s)" % (t, lean_e(e[1]), lean_e(e[2]))
    if t in ("lt", "gt", "le", "ge", "ne", "eq"):
        return "(.cmp .%s %s %s)" % (t, lean_e(e[1]), lean_e(e[2]))
    if t == "var":
        raise Refuse("variable %r has no role (not a loop variable of the target, a draw or a parameter)" % e[1])
    raise Refuse("expression tag %r" % t)


# ------------------------------------------------------------------ genes
class Ctx:
    """per-function translation state"""

    def __init__(self, scope, genome_owner, source=None, sset=()):
        self.scope = scope
        self.owner = genome_owner     # '$this' | '$ret' | '$to': whose genome_ is written
        self.source = source          # name of the individual genes are copied from (`from`)
        self.sset = set(sset)         # chains that denote the symbol set, e.g. ('$p','sset'), ('$sset',)
        self.loci = {}                # local locus name -> (row expr, col expr)
        self.genes = {}               # local gene name -> src
        self.loops = []               # enclosing loops: (var name, lo, hi, ne)
        self.coin = False             # inside `if (random::boolean())`
        self.draws = []               # (var name, cond | None, kind, a, b, other | None)
        self.writes = []

    def locus(self, n):
        n = peel(n)
        if n.get("kind") == "CXXConstructExpr" and len(kids(n)) == 1:     # copy of a locus
            return self.locus(kids(n)[0])
        if n.get("kind") == "DeclRefExpr":
            name = n.get("referencedDecl", {}).get("name")
            if name in self.loci:
                return self.loci[name]
            raise Refuse("unknown locus %r" % name)
        if n.get("kind") == "InitListExpr" and len(kids(n)) == 2:
            a, b = kids(n)
            return self.scope.expr(a), self.scope.expr(b)
        raise Refuse("locus expression of kind %s" % n.get("kind"))

    def is_sset(self, ch):
        return ch is not None and tuple(ch) in self.sset

    @staticmethod
    def peel_gene(n):
        """like cxx2lean.peel but stops at the construction of a gene"""
        while True:
            k = n.get("kind")
            if k in X.TRANSPARENT and len(kids(n)) == 1:
                n = kids(n)[0]
            elif k in ("ImplicitCastExpr", "CXXStaticCastExpr", "CXXFunctionalCastExpr") and \
                    n.get("castKind") in X.NOOP_CASTS and len(kids(n)) == 1:
                n = kids(n)[0]
            elif k == "CXXConstructExpr" and len(kids(n)) == 1 and "basic_gene" in qtype(kids(n)[0]):
                n = kids(n)[0]          # copy / move construction of a gene from a gene
            else:
                return n

    def gene(self, n):
        """what a gene-valued expression constructs / designates"""
        n = self.peel_gene(n)
        k = n.get("kind")
        if k == "ConditionalOperator":
            c, a, b = kids(n)
            return ("cond", self.scope.expr(c), self.gene(a), self.gene(b))
        if k == "DeclRefExpr":
            name = n.get("referencedDecl", {}).get("name")
            if name in self.genes:
                return self.genes[name]
            raise Refuse("unknown gene %r" % name)
        if k in ("CXXTemporaryObjectExpr", "CXXConstructExpr") and "basic_gene" in qtype(n):
            args = kids(n)
            mc = member_call(args[0]) if args else None
            if mc is None:
                raise Refuse("gene constructed from %s" % (args[0].get("kind") if args else "nothing"))
            ch, meth, margs = mc
            if not self.is_sset(ch) or len(margs) != 1:
                raise Refuse("gene constructed from %s.%s" % (ch, meth))
            cat = self.scope.expr(margs[0])
            if meth == "roulette" and len(args) == 3:
                return ("roulette", cat, self.scope.expr(args[1]), self.scope.expr(args[2]))
            if meth == "roulette_terminal" and len(args) == 1:
                return ("terminal", cat)
            raise Refuse("gene(%s(...)) with %d arguments" % (meth, len(args)))
        if k == "CXXOperatorCallExpr" and X.callee_name(n) == "operator[]":
            ks = kids(n)
            obj = peel(ks[1])
            if obj.get("kind") == "DeclRefExpr" and obj.get("referencedDecl", {}).get("name") == self.source:
                r, c = self.locus(ks[2])
                return ("copy", r, c)
            raise Refuse("operator[] on something that is not the donor individual")
        raise Refuse("gene expression of kind %s" % k)

    # -- statements
    def target(self, n):
        """(row, col) of `X.genome_(row, col)` / `X.genome_(locus)`"""
        n = peel(n)
        if n.get("kind") != "CXXOperatorCallExpr" or X.callee_name(n) != "operator()":
            return None
        ks = kids(n)
        ch = member_chain(ks[1])
        if ch != [self.owner, "genome_"]:
            raise Refuse("write through %s, expected %s.genome_" % (ch, self.owner))
        if len(ks) == 4:
            return self.scope.expr(ks[2]), self.scope.expr(ks[3])
        if len(ks) == 3:
            return self.locus(ks[2])
        raise Refuse("genome_(...) with %d arguments" % (len(ks) - 2))

    def add_write(self, row, col, src):
        """decide the role of the loop variables: the loop whose variable IS the target row is the
        row loop, likewise for the column; every enclosing loop must get a role"""
        m, rows, cols = {}, None, None
        used = set()
        for (name, lo, hi, ne) in self.loops:
            if row == ("var", name):
                if rows is not None:
                    raise Refuse("two row loops")
                rows, m[name] = (lo, hi, ne), ("v", V_I)
                used.add(name)
            elif col == ("var", name):
                if cols is not None:
                    raise Refuse("two column loops")
                cols, m[name] = (lo, hi, ne), ("v", V_C)
                used.add(name)
            else:
                raise Refuse("loop variable %r is not the row or the column of the write it encloses" % name)
        m.update(self.role_map())
        rng = lambda r: None if r is None else (subst(r[0], m), subst(r[1], m), r[2])   # noqa: E731
        self.writes.append({"rows": rng(rows), "cols": rng(cols), "row": subst(row, m), "col": subst(col, m),
                            "src": subst_src(src, m), "coin": self.coin})

    def role_map(self):
        m = {}
        for j, d in enumerate(self.draws):
            if j > 1:
                raise Refuse("more than two integer draws in one block")
            m[d[0]] = ("v", V_D0 + j)
        for j, p in enumerate(self.params):
            m[p] = ("v", V_P0 + j)
        return m

    params = ()

    def stmt(self, n):
        k = n.get("kind")
        if k in ("NullStmt", "BreakStmt"):
            return
        if k == "CompoundStmt":
            for c in kids(n):
                self.stmt(c)
            return
        if k == "DeclStmt":
            for v in kids(n):
                self.decl(v)
            return
        if k == "ForStmt":
            return self.for_stmt(n)
        if k == "IfStmt":
            ks = kids(n)
            fc = free_call(ks[0])
            if fc and fc[0] == "boolean" and not fc[1] and len(ks) == 2:
                if self.coin:
                    raise Refuse("nested coin")
                self.coin = True
                self.stmt(ks[1])
                self.coin = False
                return
            raise Refuse("if statement with an unknown condition")
        if k in ("ExprWithCleanups",) and len(kids(n)) == 1:
            return self.stmt(kids(n)[0])
        if k == "CXXOperatorCallExpr" and X.callee_name(n) == "operator=":
            ks = kids(n)
            tgt = self.target(ks[1])
            if tgt is None:
                raise Refuse("assignment to something that is not a genome cell")
            self.add_write(tgt[0], tgt[1], self.gene(ks[2]))
            return
        if self.ignorable(n):
            return
        raise Refuse("statement of kind %s" % k)

    def ignorable(self, n):
        mc = member_call(n)
        if mc is not None:
            ch, meth, args = mc
            if meth == "clear" and ch and ch[-1] == "signature_":
                return True
        return False

    def decl(self, v):
        if v.get("kind") != "VarDecl":
            raise Refuse("declaration of kind %s" % v.get("kind"))
        name, t = v.get("name"), qtype(v)
        ks = kids(v)
        if not ks:
            raise Refuse("uninitialised local %r" % name)
        if name in self.scope.defs or name in self.scope.sym or name in self.loci or name in self.genes:
            raise Refuse("local %r shadows an earlier name" % name)
        init = ks[0]
        if "locus" in t:
            self.loci[name] = self.locus(init)
            return
        if "basic_gene" in t:
            self.genes[name] = self.gene(init)
            return
        if t in UNSIGNED:
            d = self.draw(init)
            if d is not None:
                self.draws.append((name,) + d)
                self.scope.sym.add(name)
            else:
                self.scope.defs[name] = self.scope.expr(init)
            return
        raise Refuse("local %r of type %r" % (name, t))

    def draw(self, n):
        """(cond, kind, a, b, other) when the expression draws an integer, None when it is pure"""
        n = strip(n)
        if n.get("kind") == "ConditionalOperator":
            c, a, b = kids(n)
            da = self.draw(a)
            if da is None:
                return None
            if da[0] is not None:
                raise Refuse("nested conditional draw")
            return (self.scope.expr(c),) + da[1:4] + (self.scope.expr(b),)
        fc = free_call(n)
        if fc is None:
            return None
        name, args = fc
        if name == "between" and len(args) == 2:
            return (None, "between", self.scope.expr(args[0]), self.scope.expr(args[1]), None)
        if name == "sup" and len(args) == 1:
            return (None, "sup", ("lit", 0), self.scope.expr(args[0]), None)
        raise Refuse("call of %r in an integer initialiser" % name)

    def for_stmt(self, n):
        ks = [c for c in n.get("inner", []) if isinstance(c, dict)]
        # clang: [init, condvar ({}), cond, inc, body]
        ks = [c for c in ks if c.get("kind") is not None or c == {}]
        real = [c for c in n.get("inner", [])]
        if len(real) != 5:
            raise Refuse("for statement with %d parts" % len(real))
        init, condvar, cond, inc, body = real
        if condvar not in ({}, None) and condvar.get("kind") is not None:
            raise Refuse("for statement with a condition variable")
        if init.get("kind") != "DeclStmt" or len(kids(init)) != 1:
            raise Refuse("for-init")
        v = kids(init)[0]
        name = v.get("name")
        if qtype(v) not in UNSIGNED:
            raise Refuse("loop variable %r of type %r" % (name, qtype(v)))
        lo = self.scope.expr(kids(v)[0])
        if name in self.scope.defs or name in self.scope.sym:
            raise Refuse("loop variable %r shadows an earlier name" % name)
        self.scope.sym.add(name)
        c = strip(cond)
        if c.get("kind") != "BinaryOperator" or c.get("opcode") not in ("<", "!="):
            raise Refuse("loop condition %s %s" % (c.get("kind"), c.get("opcode")))
        a, b = kids(c)
        if self.scope.expr(a) != ("var", name):
            raise Refuse("loop condition does not test the loop variable")
        hi = self.scope.expr(b)
        if name in free_vars(hi):
            raise Refuse("loop bound depends on the loop variable")
        i = peel(inc)
        if not (i.get("kind") == "UnaryOperator" and i.get("opcode") == "++" and
                self.scope.expr(kids(i)[0]) == ("var", name)):
            raise Refuse("loop increment is not ++%s" % name)
        self.loops.append((name, lo, hi, c.get("opcode") == "!="))
        self.stmt(body)
        self.loops.pop()
        self.scope.sym.discard(name)


def subst_src(s, m):
    if s[0] == "cond":
        return ("cond", subst(s[1], m), subst_src(s[2], m), subst_src(s[3], m))
    return (s[0],) + tuple(subst(x, m) for x in s[1:])


def lean_src(s):
    if s[0] == "roulette":
        return "(.roulette %s %s %s)" % tuple(lean_e(x) for x in s[1:])
    if s[0] == "terminal":
        return "(.terminal %s)" % lean_e(s[1])
    if s[0] == "copy":
        return "(.copy %s %s)" % (lean_e(s[1]), lean_e(s[2]))
    if s[0] == "cond":
        return "(.cond %s %s %s)" % (lean_e(s[1]), lean_src(s[2]), lean_src(s[3]))
    raise Refuse("source %r" % (s[0],))


def lean_range(r):
    if r is None:
        return "none"
    return "(some ⟨%s, %s, %s⟩)" % (lean_e(r[0]), lean_e(r[1]), "true" if r[2] else "false")


def lean_write(w):
    return "{ rows := %s, cols := %s,\n      row := %s, col := %s,\n      src := %s, coin := %s }" % (
        lean_range(w["rows"]), lean_range(w["cols"]), lean_e(w["row"]), lean_e(w["col"]),
        lean_src(w["src"]), "true" if w["coin"] else "false")


def lean_writes(ws):
    return "[\n    " + ",\n    ".join(lean_write(w) for w in ws) + " ]"


def lean_draw(d, m):
    name, cond, kind, a, b, other = d
    opt = lambda e: "none" if e is None else "(some %s)" % lean_e(subst(e, m))   # noqa: E731
    return "{ cond := %s, lo := %s, sup := %s, other := %s, isSup := %s }" % (
        opt(cond), lean_e(subst(a, m)), lean_e(subst(b, m)), opt(other), "true" if kind == "sup" else "false")


# ------------------------------------------------------------------ the functions
def body_of(decl):
    for c in kids(decl):
        if c.get("kind") == "CompoundStmt":
            return c
    return None


def find_decl(docs, kind, name, sig=None):
    out = []
    for d in docs:
        for n in X.find_all(d, lambda x: x.get("kind") == kind and x.get("name") == name):
            if body_of(n) is not None and (sig is None or sig(qtype(n))):
                out.append(n)
    if not out:
        raise Refuse("no definition of %s" % name)
    return out


def params_of(decl):
    return [p for p in kids(decl) if p.get("kind") == "ParmVarDecl"]


def tr_ctor(res):
    docs = X.ast_dump(TU, "vita::i_mep::i_mep")
    d = find_decl(docs, "CXXConstructorDecl", "i_mep", lambda t: "const vita::problem &" in t)[0]
    p = params_of(d)[0].get("name")
    inits = [c for c in kids(d) if c.get("kind") == "CXXCtorInitializer"]
    if len(inits) != 4:
        raise Refuse("i_mep(problem): %d member initialisers" % len(inits))
    # genome_(p.env.mep.code_length, p.sset.categories())
    g = peel(kids(inits[1])[0]) if kids(inits[1]) else None
    if not (g is not None and g.get("kind") == "CXXConstructExpr" and "matrix" in qtype(g) and len(kids(g)) == 2):
        raise Refuse("genome_ is not built as matrix(rows, columns)")
    scd = Scope([], [p])
    # which quantities give the genome its size: integer expressions over the fields of the problem
    res["ctorDims"] = [scd.expr(a) for a in kids(g)]
    b = peel(kids(inits[2])[0])
    if b.get("kind") != "InitListExpr" or len(kids(b)) != 2:
        raise Refuse("best_ initialiser")
    sc0 = Scope([], [])
    best = [sc0.expr(x) for x in kids(b)]
    fl = free_call(kids(inits[3])[0])
    if not fl or fl[0] != "sup" or len(fl[1]) != 1 or peel(fl[1][0]).get("referencedDecl", {}).get("name") != "NUM_CROSSOVERS":
        raise Refuse("active_crossover_type_ is not random::sup(NUM_CROSSOVERS)")
    en = X.ast_dump(TU, "vita::i_mep::crossover_t")
    names = [c.get("name") for e in en for c in kids(e) if c.get("kind") == "EnumConstantDecl"]
    for e in en:
        for c in kids(e):
            if c.get("kind") == "EnumConstantDecl" and kids(c):
                raise Refuse("crossover_t enumerator with an explicit value")
    if not names or names[-1] != "NUM_CROSSOVERS":
        raise Refuse("crossover_t does not end with NUM_CROSSOVERS: %r" % names)
    res["flavours"] = names[:-1]

    sc = Scope(["this"], [p])
    cx = Ctx(sc, "$this", sset=[("$" + p, "sset")])
    cx.stmt(body_of(d))
    if cx.draws:
        raise Refuse("i_mep(problem) draws integers outside the gene constructors")
    res["ctor"] = cx.writes
    res["ctorBest"] = best


def mutation_block(stmts, sc, sset, pgm, top):
    """The `{ unsigned n(0); …; for (i = begin(); i != end(); ++i) if (boolean(pgm)) {…}; if (n) clear; return n; }`
    body of i_mep::mutation (const integer locals – e.g. `patch = size() > pl ? size() - pl : 0` – are substituted
    by their definition).  Returns (candidate gene `Src`, shape)."""
    cx = Ctx(sc, "$this", sset=sset)
    shape = {"iter": None, "coin": None, "cand": None, "guard": None, "count": False, "assign": False}
    counter = None
    returned = False
    for pos, st in enumerate(stmts):
        k = st.get("kind")
        if k == "NullStmt":
            continue
        if returned:
            raise Refuse("mutation: statement after the return")
        if k == "DeclStmt":
            v = kids(st)[0]
            if qtype(v) == "unsigned int" and strip(kids(v)[0]).get("kind") == "IntegerLiteral" and counter is None \
                    and int(strip(kids(v)[0]).get("value")) == 0:
                counter = v.get("name")
                if counter in sc.defs or counter in sc.sym:
                    raise Refuse("mutation: counter %r shadows an earlier name" % counter)
                continue
            cx.decl(v)
            continue
        if k == "ForStmt":
            if shape["iter"] is not None:
                raise Refuse("mutation: two loops in one block")
            init, condvar, cond, inc, body = st.get("inner")
            it = kids(init)[0]
            itname = it.get("name")
            mc = member_call(kids(it)[0])
            mc2 = None
            c = peel(cond)
            if c.get("kind") == "CXXOperatorCallExpr" and X.callee_name(c) == "operator!=":
                mc2 = member_call(kids(c)[2])
            i = peel(inc)
            if not (mc and mc[0] == ["$this"] and mc[1] == "begin" and mc2 and mc2[0] == ["$this"] and mc2[1] == "end"
                    and i.get("kind") == "CXXOperatorCallExpr" and X.callee_name(i) == "operator++"):
                raise Refuse("mutation does not iterate begin()..end() of the individual")
            shape["iter"] = "exons"
            if body.get("kind") != "IfStmt":
                raise Refuse("mutation loop body is not an if")
            ks = kids(body)
            fc = free_call(ks[0])
            if not (fc and fc[0] == "boolean" and len(fc[1]) == 1 and
                    peel(fc[1][0]).get("referencedDecl", {}).get("name") == pgm and len(ks) == 2):
                raise Refuse("mutation is not guarded by random::boolean(pgm)")
            shape["coin"] = "pgm"
            for s2 in kids(ks[1]):
                if s2.get("kind") == "DeclStmt":
                    v = kids(s2)[0]
                    t = qtype(v)
                    if t in UNSIGNED:
                        # ix = i.locus().index / ct = i.locus().category
                        ch = peel(kids(v)[0])
                        if ch.get("kind") == "MemberExpr" and ch.get("name") in ("index", "category"):
                            mc3 = member_call(kids(ch)[0])
                            if mc3 and mc3[0] == ["$" + itname] and mc3[1] == "locus":
                                sc.defs[v.get("name")] = ("v", V_I if ch.get("name") == "index" else V_C)
                                continue
                        cx.decl(v)          # any other const integer local: substituted by its definition
                        continue
                    cx.decl(v)
                    if "basic_gene" in t:
                        shape["cand"] = cx.genes[v.get("name")]
                        shape["_gname"] = v.get("name")
                elif s2.get("kind") == "IfStmt":
                    k2 = kids(s2)
                    c2 = peel(k2[0])
                    if not (c2.get("kind") == "CXXOperatorCallExpr" and X.callee_name(c2) == "operator!="):
                        raise Refuse("mutation: inner condition")
                    a, b = kids(c2)[1:]
                    a = peel(a)
                    if not (a.get("kind") == "CXXOperatorCallExpr" and X.callee_name(a) == "operator*" and
                            peel(b).get("referencedDecl", {}).get("name") == shape.get("_gname")):
                        raise Refuse("mutation: the guard is not `*i != g`")
                    shape["guard"] = "differs"
                    for s3 in kids(k2[1]):
                        s3 = peel(s3)
                        if s3.get("kind") == "UnaryOperator" and s3.get("opcode") == "++" and \
                                peel(kids(s3)[0]).get("referencedDecl", {}).get("name") == counter:
                            shape["count"] = True
                        elif s3.get("kind") == "CXXOperatorCallExpr" and X.callee_name(s3) == "operator=":
                            l, r = kids(s3)[1:]
                            l = peel(l)
                            if not (l.get("kind") == "CXXOperatorCallExpr" and X.callee_name(l) == "operator*" and
                                    peel(r).get("referencedDecl", {}).get("name") == shape.get("_gname")):
                                raise Refuse("mutation: the assignment is not `*i = g`")
                            shape["assign"] = True
                        else:
                            raise Refuse("mutation: statement %s in the innermost block" % s3.get("kind"))
                else:
                    raise Refuse("mutation: statement %s" % s2.get("kind"))
            continue
        if k == "IfStmt":
            ks = kids(st)
            c0 = strip(ks[0])
            if counter is not None and len(ks) == 2 and unbool(ks[0]).get("referencedDecl", {}).get("name") == counter \
                    and cx.ignorable(ks[1]):
                continue
            raise Refuse("mutation: if statement with an unknown condition")
        if k == "ReturnStmt":
            if counter is None or strip(kids(st)[0]).get("referencedDecl", {}).get("name") != counter:
                raise Refuse("mutation does not return its counter")
            returned = True
            continue
        raise Refuse("mutation: statement %s" % k)
    if not returned:
        raise Refuse("mutation: a block does not end with `return <counter>`")
    if None in (shape["iter"], shape["coin"], shape["cand"], shape["guard"]) or not (shape["count"] and shape["assign"]):
        raise Refuse("mutation: incomplete shape %r" % {k: v for k, v in shape.items() if k != "cand"})
    return shape["cand"], [shape["iter"], "bernoulli(" + shape["coin"] + ")", shape["guard"], "count", "assign"]


def tr_mutation(res):
    docs = X.ast_dump(TU, "vita::i_mep::mutation")
    d = find_decl(docs, "CXXMethodDecl", "mutation")[0]
    ps = params_of(d)
    pgm, prb = ps[0].get("name"), ps[1].get("name")
    sc = Scope(["this"], [prb])
    cand, shape = mutation_block(kids(body_of(d)), sc, [("$" + prb, "sset")], pgm, True)
    res["mutationCand"] = cand
    res["mutationShape"] = shape


def tr_crossover(res):
    docs = X.ast_dump(TU, "vita::crossover")
    d = find_decl(docs, "FunctionDecl", "crossover", lambda t: t.startswith("vita::i_mep (const vita::i_mep &"))[0]
    lhs, rhs = [p.get("name") for p in params_of(d)]
    st = [s for s in kids(body_of(d)) if s.get("kind") != "NullStmt"]
    # const bool b(random::boolean()); const i_mep &from(b ? rhs : lhs); i_mep to(b ? lhs : rhs);
    def cond_of(v):
        e = peel(kids(v)[0])
        if e.get("kind") == "CXXConstructExpr":
            e = peel(kids(e)[0])
        if e.get("kind") != "ConditionalOperator":
            raise Refuse("crossover: %s is not chosen by the coin" % v.get("name"))
        c, a, b = kids(e)
        return (strip(c).get("referencedDecl", {}).get("name"), peel(a).get("referencedDecl", {}).get("name"),
                peel(b).get("referencedDecl", {}).get("name"))
    try:
        vb, vf, vt = kids(st[0])[0], kids(st[1])[0], kids(st[2])[0]
    except (IndexError, KeyError):
        raise Refuse("crossover: prologue")
    fb = free_call(kids(vb)[0])
    if not (fb and fb[0] == "boolean" and not fb[1]):
        raise Refuse("crossover: the parent is not chosen by random::boolean()")
    cf, ct = cond_of(vf), cond_of(vt)
    if cf[0] != vb.get("name") or ct[0] != vb.get("name"):
        raise Refuse("crossover: from/to do not depend on the coin")
    names = {lhs: "lhs", rhs: "rhs"}
    res["xoverParents"] = [names.get(cf[1], "?"), names.get(cf[2], "?"), names.get(ct[1], "?"), names.get(ct[2], "?")]
    frm, to = vf.get("name"), vt.get("name")
    sw = st[3]
    if sw.get("kind") != "SwitchStmt":
        raise Refuse("crossover: no switch")
    sel = peel(kids(sw)[0])
    if sel.get("kind") == "ImplicitCastExpr" and sel.get("castKind") == "IntegralCast":     # enum -> int
        sel = kids(sel)[0]
    sel = member_chain(sel)
    if sel != ["$" + frm, "active_crossover_type_"]:
        raise Refuse("crossover: switch on %s" % sel)
    cases = {}
    default = None
    for c in kids(kids(sw)[1]):
        if c.get("kind") == "CaseStmt":
            ks = kids(c)
            cases[int(ks[0].get("value"))] = ks[1]
        elif c.get("kind") == "DefaultStmt":
            default = kids(c)[0]
        elif c.get("kind") != "BreakStmt":
            raise Refuse("crossover: %s inside the switch" % c.get("kind"))
    fl = res["flavours"]
    want = {fl.index(n): n for n in ("one_point", "two_points", "uniform") if n in fl}
    if sorted(cases) != sorted(want) or default is None or "tree" not in fl:
        raise Refuse("crossover: cases %r, flavours %r" % (sorted(cases), fl))
    res["xoverCases"] = [[k, want[k]] for k in sorted(want)] + [[fl.index("tree"), "tree"]]
    for k, name in want.items():
        sc = Scope([frm], [])
        cx = Ctx(sc, "$" + to, source=frm)
        cx.stmt(cases[k])
        m = cx.role_map()
        res["xover_" + name] = {"draws": [lean_draw(dd, m) for dd in cx.draws], "writes": cx.writes}
    # tree: auto crossover_ = [&](locus l, const auto &lambda) { to.genome_(l) = from[l];
    #                                                          for (al : from[l].arguments()) lambda(al, lambda); };
    #       crossover_(random_locus(from), crossover_);
    ds = [s for s in kids(default) if s.get("kind") != "NullStmt"]
    if len(ds) != 2 or ds[0].get("kind") != "DeclStmt":
        raise Refuse("crossover(tree): shape")
    lam_var = kids(ds[0])[0]
    lam = peel(kids(lam_var)[0])
    if lam.get("kind") != "LambdaExpr":
        raise Refuse("crossover(tree): not a lambda")
    ops = X.find_all(lam, lambda x: x.get("kind") == "CXXMethodDecl" and x.get("name") == "operator()" and
                     "auto" not in qtype(x).split("->")[0].replace("auto (", "(", 1))
    if not ops:
        raise Refuse("crossover(tree): no instantiated call operator")
    op = ops[0]
    lp = params_of(op)
    lname, selfname = lp[0].get("name"), lp[1].get("name")
    bs = kids(body_of(op))
    if len(bs) != 2:
        raise Refuse("crossover(tree): lambda body has %d statements" % len(bs))
    sc = Scope([frm], [])
    cx = Ctx(sc, "$" + to, source=frm)
    cx.loci[lname] = (("v", V_I), ("v", V_C))
    cx.stmt(bs[0])
    w = cx.writes[0]
    if not (w["row"] == ("v", V_I) and w["col"] == ("v", V_C) and w["src"] == ("copy", ("v", V_I), ("v", V_C))):
        raise Refuse("crossover(tree): the visited locus is not copied onto itself")
    fr = bs[1]
    if fr.get("kind") != "CXXForRangeStmt":
        raise Refuse("crossover(tree): no range-for")
    rng = X.find_all(kids(fr)[0], lambda x: x.get("kind") == "CXXMemberCallExpr")
    mc = member_call(rng[0]) if rng else None
    ok = False
    if rng:
        f = peel(kids(rng[0])[0])
        obj = peel(kids(f)[0]) if f.get("kind") == "MemberExpr" and kids(f) else {}
        if f.get("name") == "arguments" and obj.get("kind") == "CXXOperatorCallExpr" and X.callee_name(obj) == "operator[]":
            o2 = kids(obj)
            ok = peel(o2[1]).get("referencedDecl", {}).get("name") == frm and cx.locus(o2[2]) == (("v", V_I), ("v", V_C))
    if not ok:
        raise Refuse("crossover(tree): does not range over from[l].arguments()")
    loopvar = [v for v in X.find_all(fr, lambda x: x.get("kind") == "VarDecl") if not v.get("name", "").startswith("__")]
    call = peel(kids(fr)[-1])
    cargs = kids(call)
    if not (call.get("kind") == "CXXOperatorCallExpr" and len(cargs) == 4 and
            peel(cargs[1]).get("referencedDecl", {}).get("name") == selfname and
            peel(peel(cargs[2]) if peel(cargs[2]).get("kind") != "CXXConstructExpr" else kids(peel(cargs[2]))[0])
            .get("referencedDecl", {}).get("name") == loopvar[0].get("name") and
            peel(cargs[3]).get("referencedDecl", {}).get("name") == selfname):
        raise Refuse("crossover(tree): the recursive call is not lambda(al, lambda)")
    start = peel(ds[1])
    sargs = kids(start)
    fc = free_call(sargs[2]) if len(sargs) == 4 else None
    if not (start.get("kind") == "CXXOperatorCallExpr" and
            peel(sargs[1]).get("referencedDecl", {}).get("name") == lam_var.get("name") and fc and
            fc[0] == "random_locus" and peel(fc[1][0]).get("referencedDecl", {}).get("name") == frm and
            peel(sargs[3]).get("referencedDecl", {}).get("name") == lam_var.get("name")):
        raise Refuse("crossover(tree): does not start at random_locus(from)")
    res["xoverTree"] = ["start:random_locus(from)", "copy:to[l]:=from[l]", "recurse:from[l].arguments()"]
    # epilogue
    meta = []
    for s in st[4:]:
        s = peel(s)
        if s.get("kind") == "BinaryOperator" and s.get("opcode") == "=":
            a, b = kids(s)
            if member_chain(a) == ["$" + to, "active_crossover_type_"] and \
                    member_chain(strip(b)) == ["$" + frm, "active_crossover_type_"]:
                meta.append("flavour:=from.flavour")
                continue
            raise Refuse("crossover: assignment in the epilogue")
        mc = member_call(s)
        if mc and mc[0] == ["$" + to] and mc[1] == "set_older_age" and len(mc[2]) == 1:
            m2 = member_call(mc[2][0])
            if m2 and m2[0] == ["$" + frm] and m2[1] == "age":
                meta.append("age:=older(to.age,from.age)")
                continue
        if mc and mc[1] == "clear" and mc[0] == ["$" + to, "signature_"]:
            continue
        if s.get("kind") == "ReturnStmt":
            if peel(kids(s)[0]).get("referencedDecl", {}).get("name") == to:
                meta.append("return:to")
                continue
        raise Refuse("crossover: epilogue statement %s" % s.get("kind"))
    res["xoverMeta"] = meta


def tr_destroy(res):
    docs = X.ast_dump(TU, "vita::i_mep::destroy_block")
    d = find_decl(docs, "CXXMethodDecl", "destroy_block")[0]
    ps = params_of(d)
    idx, sset = ps[0].get("name"), ps[1].get("name")
    st = kids(body_of(d))
    ret = None
    sc = Scope(["this"], [], params=[idx])
    cx = None
    for s in st:
        if s.get("kind") == "DeclStmt" and "i_mep" in qtype(kids(s)[0]) and ret is None:
            v = kids(s)[0]
            e = peel(kids(v)[0])
            if not (e.get("kind") == "UnaryOperator" and e.get("opcode") == "*"):
                raise Refuse("destroy_block: the result is not a copy of *this")
            ret = v.get("name")
            sc.individuals.add(ret)
            cx = Ctx(sc, "$" + ret, sset=[("$" + sset,)])
            cx.params = (idx,)
            continue
        if s.get("kind") == "ReturnStmt":
            if peel(kids(s)[0]).get("referencedDecl", {}).get("name") != ret:
                raise Refuse("destroy_block does not return its copy")
            continue
        if cx is None:
            if s.get("kind") == "NullStmt":
                continue
            raise Refuse("destroy_block: statement before the copy")
        cx.stmt(s)
    res["destroy"] = cx.writes


def tr_get_block(res):
    docs = X.ast_dump(TU, "vita::i_mep::get_block")
    d = find_decl(docs, "CXXMethodDecl", "get_block")[0]
    l = params_of(d)[0].get("name")
    assigned = []
    ret = None
    for s in kids(body_of(d)):
        k = s.get("kind")
        if k == "NullStmt":
            continue
        if k == "DeclStmt" and ret is None:
            ret = kids(s)[0].get("name")
            continue
        if k == "ReturnStmt":
            continue
        if k == "IfStmt":
            ks = kids(s)
            c = peel(ks[0])
            if not (c.get("kind") == "CXXOperatorCallExpr" and X.callee_name(c) == "operator!=" and
                    member_chain(kids(c)[1]) == ["$" + ret, "best_"] and
                    peel(kids(c)[2]).get("referencedDecl", {}).get("name") == l):
                raise Refuse("get_block: condition")
            for s2 in kids(ks[1]):
                s2 = peel(s2)
                if s2.get("kind") == "CXXOperatorCallExpr" and X.callee_name(s2) == "operator=":
                    ch = member_chain(kids(s2)[1])
                    if ch and ch[0] == "$" + ret and peel(kids(s2)[2]).get("referencedDecl", {}).get("name") == l:
                        assigned.append(ch[1] + ":=l")
                        continue
                    raise Refuse("get_block: assignment")
                mc = member_call(s2)
                if mc and mc[1] == "clear" and mc[0] == ["$" + ret, "signature_"]:
                    continue
                raise Refuse("get_block: statement %s" % s2.get("kind"))
            continue
        raise Refuse("get_block: statement %s" % k)
    res["getBlock"] = assigned


def tr_gene(res):
    docs = X.ast_dump(TU, "vita::basic_gene")
    spec = []
    for d in docs:
        spec += X.find_all(d, lambda x: x.get("kind") == "ClassTemplateSpecializationDecl" and x.get("name") == "basic_gene")
    ctors = []
    for s in spec:
        for c in kids(s):
            if c.get("kind") == "CXXConstructorDecl" and body_of(c) is not None and \
                    qtype(c).startswith("void (const vita::symbol &"):
                ctors.append(c)
    if not ctors:
        raise Refuse("no instantiated basic_gene(const symbol &, index_t, index_t)")
    c = ctors[0]
    ps = [p.get("name") for p in params_of(c)]
    inits = [i for i in kids(c) if i.get("kind") == "CXXCtorInitializer"]
    if len(inits) != 2:
        raise Refuse("gene(symbol, from, sup): %d initialisers" % len(inits))
    a = kids(inits[1])[0]
    n = strip(kids(a)[0]) if a.get("kind") == "CXXConstructExpr" and "small_vector" in qtype(a) and len(kids(a)) == 1 else None
    mc = member_call(n) if n is not None else None
    # the cast unsigned int -> unsigned long was stripped above
    if not (mc and mc[0] == ["$" + ps[0]] and mc[1] == "arity"):
        raise Refuse("gene(symbol, from, sup): args is not sized by s.arity()")
    gens = X.find_all(body_of(c), lambda x: x.get("kind") == "CallExpr" and X.callee_name(x) == "generate")
    if len(gens) != 1:
        raise Refuse("gene(symbol, from, sup): %d calls of std::generate" % len(gens))
    ga = kids(gens[0])[1:]
    m1, m2 = member_call(ga[0]), member_call(ga[1])
    if not (m1 and m2 and m1[0] == ["$this", "args"] and m1[1] == "begin" and m2[0] == ["$this", "args"] and m2[1] == "end"):
        raise Refuse("gene(symbol, from, sup): std::generate is not over args")
    lam = peel(ga[2])
    rets = X.find_all(body_of(X.find_all(lam, lambda x: x.get("kind") == "CXXMethodDecl" and x.get("name") == "operator()")[0]),
                      lambda x: x.get("kind") == "ReturnStmt")
    if len(rets) != 1:
        raise Refuse("gene(symbol, from, sup): generator")
    e = kids(rets[0])[0]
    width = None
    while True:            # static_cast<packed_index_t>(…): the only narrowing we accept, recorded
        e = peel(e)
        if e.get("kind") in ("CXXStaticCastExpr", "ImplicitCastExpr") and e.get("castKind") in ("IntegralCast", "NoOp"):
            if e.get("castKind") == "IntegralCast":
                w = {"unsigned short": 16, "unsigned char": 8, "unsigned int": 32, "unsigned long": 64}.get(qtype(e))
                if w is None:
                    raise Refuse("gene(symbol, from, sup): cast to %r" % qtype(e))
                width = w if width is None else min(width, w)
            e = kids(e)[0]
            continue
        break
    fc = free_call(e)
    sc = Scope([], [], params=ps[1:])
    if not (fc and fc[0] == "between" and len(fc[1]) == 2):
        raise Refuse("gene(symbol, from, sup): an argument is not random::between(…)")
    m = {ps[1]: ("v", V_P0), ps[2]: ("v", V_P1)}
    res["geneArgs"] = {"count": "arity", "lo": subst(sc.expr(fc[1][0]), m), "sup": subst(sc.expr(fc[1][1]), m),
                       "bits": width if width is not None else 64}
    # locus_of_argument(i) = {args[i], function::cast(sym)->arg_category(i)}
    loa = []
    for s in spec:
        for c2 in kids(s):
            if c2.get("kind") == "CXXMethodDecl" and c2.get("name") == "locus_of_argument" and body_of(c2) is not None:
                loa.append(c2)
    if not loa:
        raise Refuse("no instantiated locus_of_argument")
    ip = params_of(loa[0])[0].get("name")
    rets = X.find_all(body_of(loa[0]), lambda x: x.get("kind") == "ReturnStmt")
    il = peel(kids(rets[0])[0])
    if il.get("kind") != "InitListExpr" or len(kids(il)) != 2:
        raise Refuse("locus_of_argument: not an {index, category} list")
    a0, a1 = kids(il)
    a0 = strip(a0)
    okk = a0.get("kind") == "CXXOperatorCallExpr" and X.callee_name(a0) == "operator[]" and \
        member_chain(kids(a0)[1]) == ["$this", "args"] and strip(kids(a0)[2]).get("referencedDecl", {}).get("name") == ip
    mc = member_call(a1)
    okc = mc is not None and mc[1] == "arg_category" and len(mc[2]) == 1 and \
        strip(mc[2][0]).get("referencedDecl", {}).get("name") == ip
    if not (okk and okc):
        raise Refuse("locus_of_argument is not {args[i], arg_category(i)}")
    res["argLocus"] = ["index:args[i]", "category:arg_category(i)"]


def tr_team(res):
    docs = X.ast_dump(TU, "vita::team")
    spec = []
    for d in docs:
        spec += X.find_all(d, lambda x: x.get("kind") == "ClassTemplateSpecializationDecl" and x.get("name") == "team")
    spec = [s for s in spec if any(body_of(c) is not None for c in kids(s))]
    if not spec:
        raise Refuse("team<i_mep> is not instantiated")
    s = spec[0]

    def method(kind, name, sig=None):
        for c in kids(s):
            if c.get("kind") == kind and c.get("name") == name and body_of(c) is not None and \
                    (sig is None or sig in qtype(c)):
                return c
        raise Refuse("team<i_mep>::%s not found" % name)

    def range_for_members(fr):
        r = kids(kids(fr)[0])[0]
        if member_chain(kids(r)[0]) != ["$this", "individuals_"]:
            raise Refuse("team: range-for is not over individuals_")
        lv = [v for v in X.find_all(fr, lambda x: x.get("kind") == "VarDecl") if not v.get("name", "").startswith("__")]
        return lv[0].get("name"), kids(fr)[-1]

    # team(const problem &)
    c = method("CXXConstructorDecl", "team", "const vita::problem &")
    p = params_of(c)[0].get("name")
    n_name, loop = None, None
    for st in kids(body_of(c)):
        k = st.get("kind")
        if k == "NullStmt":
            continue
        if k == "DeclStmt":
            v = kids(st)[0]
            if member_chain(strip(kids(v)[0])) == ["$" + p, "env", "team", "individuals"]:
                n_name = v.get("name")
                continue
            raise Refuse("team(problem): local %r" % v.get("name"))
        mc = member_call(st)
        if mc and mc[0] == ["$this", "individuals_"] and mc[1] == "reserve":
            continue
        if k == "ForStmt":
            loop = st
            continue
        raise Refuse("team(problem): statement %s" % k)
    sc = Scope([], [], params=[n_name])
    cx = Ctx(sc, None)
    init, condvar, cond, inc, body = loop.get("inner")
    v = kids(init)[0]
    sc.sym.add(v.get("name"))
    cc = strip(cond)
    if not (cc.get("kind") == "BinaryOperator" and cc.get("opcode") == "<" and sc.expr(kids(cc)[0]) == ("var", v.get("name"))):
        raise Refuse("team(problem): loop condition")
    m = {n_name: ("v", V_N), v.get("name"): ("v", V_K)}
    rng = (subst(sc.expr(kids(v)[0]), m), subst(sc.expr(kids(cc)[1]), m), False)
    mc = member_call(body)
    if not (mc and mc[0] == ["$this", "individuals_"] and mc[1] == "emplace_back" and len(mc[2]) == 1 and
            peel(mc[2][0]).get("referencedDecl", {}).get("name") == p):
        raise Refuse("team(problem): the loop does not emplace_back(p)")
    res["teamCtor"] = {"range": rng, "op": "member[k]:=i_mep(problem)", "n": "env.team.individuals"}

    # mutation
    c = method("CXXMethodDecl", "mutation")
    pgm, prb = [x.get("name") for x in params_of(c)]
    cnt, seen = None, False
    for st in kids(body_of(c)):
        k = st.get("kind")
        if k == "NullStmt":
            continue
        if k == "DeclStmt":
            cnt = kids(st)[0].get("name")
            if strip(kids(kids(st)[0])[0]).get("value") != "0":
                raise Refuse("team::mutation: counter not zero")
            continue
        if k == "CXXForRangeStmt":
            mv, body = range_for_members(st)
            b = peel(body)
            if not (b.get("kind") == "CompoundAssignOperator" and b.get("opcode") == "+=" and
                    peel(kids(b)[0]).get("referencedDecl", {}).get("name") == cnt):
                raise Refuse("team::mutation: body is not nm += …")
            mc = member_call(kids(b)[1])
            if not (mc and mc[0] == ["$" + mv] and mc[1] == "mutation" and
                    strip(mc[2][0]).get("referencedDecl", {}).get("name") == pgm and
                    peel(mc[2][1]).get("referencedDecl", {}).get("name") == prb):
                raise Refuse("team::mutation: member call")
            seen = True
            continue
        if k == "IfStmt" and unbool(kids(st)[0]).get("referencedDecl", {}).get("name") == cnt and \
                Ctx(None, None).ignorable(kids(st)[1]):
            continue
        if k == "ReturnStmt" and strip(kids(st)[0]).get("referencedDecl", {}).get("name") == cnt:
            continue
        raise Refuse("team::mutation: statement %s" % k)
    if not seen:
        raise Refuse("team::mutation: no member loop")
    res["teamMutation"] = ["forall-members", "member.mutation(pgm,prb)", "sum"]

    # inc_age
    c = method("CXXMethodDecl", "inc_age")
    st = [x for x in kids(body_of(c)) if x.get("kind") != "NullStmt"]
    if len(st) != 1 or st[0].get("kind") != "CXXForRangeStmt":
        raise Refuse("team::inc_age: shape")
    mv, body = range_for_members(st[0])
    mc = member_call(body)
    if not (mc and mc[0] == ["$" + mv] and mc[1] == "inc_age" and not mc[2]):
        raise Refuse("team::inc_age: member call")
    res["teamIncAge"] = ["forall-members", "member.inc_age()"]

    # crossover(team, team)
    docs = X.ast_dump(TU, "vita::crossover")
    cands = []
    for d in docs:
        cands += X.find_all(d, lambda x: x.get("kind") == "FunctionDecl" and x.get("name") == "crossover" and
                            body_of(x) is not None and "team<vita::i_mep>" in qtype(x))
    if not cands:
        raise Refuse("crossover(team<i_mep>, team<i_mep>) is not instantiated")
    c = cands[0]
    lhs, rhs = [x.get("name") for x in params_of(c)]
    sup, ret, loop = None, None, None
    for st in kids(body_of(c)):
        k = st.get("kind")
        if k == "NullStmt":
            continue
        if k == "DeclStmt":
            v = kids(st)[0]
            mc = member_call(kids(v)[0])
            if mc and mc[0] == ["$" + lhs] and mc[1] == "individuals":
                sup = v.get("name")
                continue
            e = peel(kids(v)[0])
            if "team" in qtype(v) and strip(e if e.get("kind") != "CXXConstructExpr" else kids(e)[0]) \
                    .get("referencedDecl", {}).get("name") == sup:
                ret = v.get("name")
                continue
            raise Refuse("crossover(team): local %r" % v.get("name"))
        if k == "ForStmt":
            loop = st
            continue
        if k == "ReturnStmt":
            continue
        raise Refuse("crossover(team): statement %s" % k)
    if None in (sup, ret, loop):
        raise Refuse("crossover(team): shape")
    sc = Scope([], [], params=[sup])
    init, condvar, cond, inc, body = loop.get("inner")
    v = kids(init)[0]
    kname = v.get("name")
    sc.sym.add(kname)
    cc = strip(cond)
    if not (cc.get("kind") == "BinaryOperator" and cc.get("opcode") == "<" and sc.expr(kids(cc)[0]) == ("var", kname)):
        raise Refuse("crossover(team): loop condition")
    m = {sup: ("v", V_N), kname: ("v", V_K)}
    rng = (subst(sc.expr(kids(v)[0]), m), subst(sc.expr(kids(cc)[1]), m), False)
    b = peel(body)
    if not (b.get("kind") == "CXXOperatorCallExpr" and X.callee_name(b) == "operator="):
        raise Refuse("crossover(team): body")
    tl = peel(kids(b)[1])
    if not (tl.get("kind") == "CXXOperatorCallExpr" and X.callee_name(tl) == "operator[]" and
            member_chain(kids(tl)[1]) == ["$" + ret, "individuals_"] and sc.expr(kids(tl)[2]) == ("var", kname)):
        raise Refuse("crossover(team): target is not ret.individuals_[i]")
    fc = free_call(kids(b)[2])
    if not (fc and fc[0] == "crossover" and len(fc[1]) == 2):
        raise Refuse("crossover(team): the member is not crossover(…, …)")
    who = []
    for a in fc[1]:
        a = peel(a)
        if not (a.get("kind") == "CXXOperatorCallExpr" and X.callee_name(a) == "operator[]" and
                sc.expr(kids(a)[2]) == ("var", kname)):
            raise Refuse("crossover(team): operand is not indexed by the loop variable")
        who.append({lhs: "lhs", rhs: "rhs"}.get(peel(kids(a)[1]).get("referencedDecl", {}).get("name"), "?"))
    res["teamCrossover"] = {"range": rng, "op": "member[k]:=crossover(%s[k],%s[k])" % tuple(who), "n": "lhs.individuals()"}


# ------------------------------------------------------------------ symbol_set.cc: roulette
SS_TU = "symbol_set_tu.cc"


def view_of(n, cparam):
    """'functions' for `views_[c].functions` (the category must be the parameter)"""
    ch = peel_base(n)
    if ch.get("kind") != "MemberExpr":
        raise Refuse("roulette: not a view of a category")
    name = ch.get("name")
    idx = peel(kids(ch)[0])
    if not (idx.get("kind") == "CXXOperatorCallExpr" and X.callee_name(idx) == "operator[]" and
            member_chain(kids(idx)[1]) == ["$this", "views_"] and
            strip(kids(idx)[2]).get("referencedDecl", {}).get("name") == cparam):
        raise Refuse("roulette: the view is not views_[%s].<view>" % cparam)
    return name


def view_roulette(n, cparam):
    """the view V of `views_[c].V.roulette()` (possibly static_cast to function / terminal)"""
    n = peel(n)
    while n.get("kind") in ("CXXStaticCastExpr", "ImplicitCastExpr") and n.get("castKind") in ("BaseToDerived", "NoOp", "DerivedToBase") \
            and len(kids(n)) == 1:
        n = peel(kids(n)[0])
    if n.get("kind") != "CXXMemberCallExpr":
        raise Refuse("roulette: the result is not a call")
    f = peel(kids(n)[0])
    if f.get("kind") != "MemberExpr" or f.get("name") != "roulette" or len(kids(n)) != 1:
        raise Refuse("roulette: the result is not <view>.roulette()")
    return view_of(kids(f)[0], cparam)


def tr_roulette(res):
    docs = X.ast_dump(SS_TU, "vita::symbol_set::roulette")
    # symbol_set::roulette(c)
    d = find_decl(docs, "CXXMethodDecl", "roulette")[0]
    c = params_of(d)[0].get("name")
    st = [x for x in kids(body_of(d)) if x.get("kind") != "NullStmt"]
    if len(st) != 2 or st[0].get("kind") != "IfStmt" or st[1].get("kind") != "ReturnStmt" or len(kids(st[0])) != 2:
        raise Refuse("symbol_set::roulette: shape")
    cond, then = kids(st[0])
    cond = peel(cond)
    if not (cond.get("kind") == "BinaryOperator" and cond.get("opcode") == "&&"):
        raise Refuse("symbol_set::roulette: the guard is not a conjunction")
    g1, g2 = kids(cond)
    fc = free_call(g1)
    if not (fc and fc[0] == "boolean" and not fc[1]):
        raise Refuse("symbol_set::roulette: the first conjunct is not random::boolean()")
    mc = peel(unbool(g2))
    if mc.get("kind") != "CXXMemberCallExpr":
        raise Refuse("symbol_set::roulette: the second conjunct is not <view>.size()")
    f = peel(kids(mc)[0])
    if f.get("kind") != "MemberExpr" or f.get("name") != "size":
        raise Refuse("symbol_set::roulette: the second conjunct is not <view>.size()")
    if then.get("kind") != "ReturnStmt":
        raise Refuse("symbol_set::roulette: the guarded statement is not a return")
    res["rouletteSel"] = {"coin": True, "guard": view_of(kids(f)[0], c), "then": view_roulette(kids(then)[0], c),
                          "else": view_roulette(kids(st[1])[0], c)}
    # symbol_set::roulette_terminal(c)
    d = find_decl(docs, "CXXMethodDecl", "roulette_terminal")[0]
    c = params_of(d)[0].get("name")
    st = [x for x in kids(body_of(d)) if x.get("kind") != "NullStmt"]
    if len(st) != 1 or st[0].get("kind") != "ReturnStmt":
        raise Refuse("symbol_set::roulette_terminal: shape")
    res["rouletteTerminal"] = view_roulette(kids(st[0])[0], c)
    # symbol_set::insert: which symbols each view receives
    docs = X.ast_dump(SS_TU, "vita::symbol_set::insert")
    d = find_decl(docs, "CXXMethodDecl", "insert", lambda t: "unique_ptr" in t)[0]
    sp = params_of(d)[0].get("name")
    ins = []

    def view_insert(n):
        mc = member_call(n)
        if not (mc and mc[1] == "insert" and len(mc[2]) == 1):
            return None
        f = peel(kids(peel(n))[0])
        v = peel_base(kids(f)[0])
        if v.get("kind") != "MemberExpr":
            return None
        idx = peel(kids(v)[0])
        if not (idx.get("kind") == "CXXOperatorCallExpr" and X.callee_name(idx) == "operator[]" and
                member_chain(kids(idx)[1]) == ["$this", "views_"] and
                strip(kids(idx)[2]).get("referencedDecl", {}).get("name") == "category"):
            raise Refuse("symbol_set::insert: a view of something else than views_[category]")
        return v.get("name")

    for stx in kids(body_of(d)):
        v = view_insert(stx)
        if v is not None:
            ins.append((v, "always"))
        elif stx.get("kind") == "IfStmt":
            ks = kids(stx)
            mc = member_call(ks[0])
            if mc and mc[1] == "terminal" and not mc[2] and len(ks) == 3:
                obj = peel(kids(peel(kids(peel(ks[0]))[0]))[0])
                who = X.find_all(obj, lambda x: x.get("kind") == "DeclRefExpr" and
                                 not x.get("referencedDecl", {}).get("name", "").startswith("operator"))
                if not (who and who[0].get("referencedDecl", {}).get("name") == sp):
                    raise Refuse("symbol_set::insert: terminal() of something else than the inserted symbol")
                a, b = view_insert(ks[1]), view_insert(ks[2])
                if a is None or b is None:
                    raise Refuse("symbol_set::insert: the branches on terminal() do not insert into views")
                ins += [(a, "terminal()"), (b, "!terminal()")]
    res["viewInsert"] = ins

    # sum_container::roulette(): the wedge loop
    docs = X.ast_dump(SS_TU, "vita::symbol_set::collection::sum_container::roulette")
    d = find_decl(docs, "CXXMethodDecl", "roulette")[0]
    st = [x for x in kids(body_of(d)) if x.get("kind") not in ("NullStmt",)]
    st = [x for x in st if not (x.get("kind") == "ParenExpr" and "void" in qtype(x))]     # assert() under NDEBUG
    if len(st) != 4 or st[0].get("kind") != "DeclStmt" or st[1].get("kind") != "DeclStmt" or \
            st[2].get("kind") != "ForStmt" or st[3].get("kind") != "ReturnStmt":
        raise Refuse("sum_container::roulette: shape %r" % [x.get("kind") for x in st])
    vslot, vidx = kids(st[0])[0], kids(st[1])[0]
    fc = free_call(kids(vslot)[0])
    if not (fc and fc[0] == "sup" and len(fc[1]) == 1):
        raise Refuse("sum_container::roulette: the slot is not random::sup(…)")
    mc = member_call(fc[1][0])
    if not (mc and mc[0] == ["$this"] and mc[1] == "sum" and not mc[2]):
        raise Refuse("sum_container::roulette: the slot is not drawn below sum()")
    names = {vslot.get("name"): ("slot",), vidx.get("name"): ("idx",)}
    init, condvar, cond, inc, body = st[2].get("inner")
    if condvar not in ({}, None) and condvar.get("kind") is not None:
        raise Refuse("sum_container::roulette: condition variable")
    vacc = kids(init)[0]
    if init.get("kind") != "DeclStmt" or len(kids(init)) != 1:
        raise Refuse("sum_container::roulette: for-init")
    if body.get("kind") != "CompoundStmt" or kids(body):
        raise Refuse("sum_container::roulette: the loop body is not empty")

    def we(n, eff):
        """expression over (idx, acc, slot, weights); `eff` collects (pre, post) increments of the index"""
        n = strip(n)
        k = n.get("kind")
        if k == "IntegerLiteral":
            return ("lit", int(n.get("value")))
        if k == "DeclRefExpr":
            nm = n.get("referencedDecl", {}).get("name")
            if nm in names:
                return names[nm]
            raise Refuse("sum_container::roulette: unknown name %r" % nm)
        if k == "BinaryOperator" and n.get("opcode") == "+":
            a, b = kids(n)
            return ("add", we(a, eff), we(b, eff))
        if k == "UnaryOperator" and n.get("opcode") == "++":
            t = strip(kids(n)[0])
            if names.get(t.get("referencedDecl", {}).get("name")) != ("idx",):
                raise Refuse("sum_container::roulette: ++ of something else than the index")
            if eff is None or eff["pre"] or eff["post"]:
                raise Refuse("sum_container::roulette: increment in an unexpected place")
            eff["post" if n.get("isPostfix") else "pre"] = True
            return ("idx",)
        if k == "MemberExpr" and n.get("name") == "weight":
            e = peel(kids(n)[0])
            if e.get("kind") == "CXXOperatorCallExpr" and X.callee_name(e) == "operator[]" and \
                    member_chain(kids(e)[1]) == ["$this", "elems_"]:
                return ("wt", we(kids(e)[2], eff))
        raise Refuse("sum_container::roulette: expression of kind %s" % k)

    acc0 = we(kids(vacc)[0], None)
    names[vacc.get("name")] = ("acc",)
    idx0 = we(kids(vidx)[0], None)
    c = strip(cond)
    cmpop = {"<": "lt", ">": "gt", "<=": "le", ">=": "ge", "!=": "ne", "==": "eq"}.get(c.get("opcode")) \
        if c.get("kind") == "BinaryOperator" else None
    if cmpop is None:
        raise Refuse("sum_container::roulette: loop condition")
    lhs, rhs = [we(x, None) for x in kids(c)]
    i = peel(inc)
    if not (i.get("kind") == "CompoundAssignOperator" and i.get("opcode") == "+=" and
            names.get(strip(kids(i)[0]).get("referencedDecl", {}).get("name")) == ("acc",)):
        raise Refuse("sum_container::roulette: the step is not `wedge += …`")
    eff = {"pre": False, "post": False}
    add = we(kids(i)[1], eff)
    step = []
    if eff["pre"]:
        step.append(("idx", ("add", ("idx",), ("lit", 1))))
    step.append(("acc", ("add", ("acc",), add)))
    if eff["post"]:
        step.append(("idx", ("add", ("idx",), ("lit", 1))))
    r = peel(kids(st[3])[0])
    if not (r.get("kind") == "UnaryOperator" and r.get("opcode") == "*"):
        raise Refuse("sum_container::roulette: result")
    m = strip(kids(r)[0])
    e = peel(kids(m)[0]) if m.get("kind") == "MemberExpr" and m.get("name") == "sym" else {}
    if not (e.get("kind") == "CXXOperatorCallExpr" and X.callee_name(e) == "operator[]" and
            member_chain(kids(e)[1]) == ["$this", "elems_"]):
        raise Refuse("sum_container::roulette: the result is not *elems_[…].sym")
    res["wedge"] = {"slotSup": "sum()", "idx0": idx0, "acc0": acc0, "cmp": cmpop, "lhs": lhs, "rhs": rhs,
                    "step": step, "ret": we(kids(e)[2], None)}


def lean_we(e):
    t = e[0]
    if t == "lit":
        return "(.lit %d)" % e[1]
    if t in ("idx", "acc", "slot"):
        return "." + t
    if t == "wt":
        return "(.wt %s)" % lean_we(e[1])
    if t == "add":
        return "(.add %s %s)" % (lean_we(e[1]), lean_we(e[2]))
    raise Refuse("wedge expression %r" % (t,))


# ------------------------------------------------------------------ locus::operator< and random_locus
def tr_walk(res):
    docs = X.ast_dump(TU, "vita::operator<")
    cands = []
    for d in docs:
        cands += X.find_all(d, lambda x: x.get("kind") == "FunctionDecl" and x.get("name") == "operator<" and
                            body_of(x) is not None and qtype(x).startswith("bool (const vita::locus &, const vita::locus &)"))
    if not cands:
        raise Refuse("no operator<(const locus &, const locus &)")
    d = cands[0]
    p1, p2 = [x.get("name") for x in params_of(d)]
    st = [x for x in kids(body_of(d)) if x.get("kind") != "NullStmt"]
    if len(st) != 1 or st[0].get("kind") != "ReturnStmt":
        raise Refuse("operator<(locus, locus): shape")
    fields = {(p1, "index"): 0, (p1, "category"): 1, (p2, "index"): 2, (p2, "category"): 3}

    def be(n):
        n = strip(n)
        k = n.get("kind")
        if k == "BinaryOperator":
            a, b = kids(n)
            op = n.get("opcode")
            if op == "||":
                return "(.or %s %s)" % (be(a), be(b))
            if op == "&&":
                return "(.and %s %s)" % (be(a), be(b))
            c = {"<": "lt", ">": "gt", "<=": "le", ">=": "ge", "!=": "ne", "==": "eq"}.get(op)
            if c:
                return "(.cmp .%s %s %s)" % (c, be(a), be(b))
            raise Refuse("operator<(locus, locus): operator %r" % op)
        if k == "UnaryOperator" and n.get("opcode") == "!":
            return "(.not %s)" % be(kids(n)[0])
        ch = member_chain(n)
        if ch and len(ch) == 2 and (ch[0][1:], ch[1]) in fields:
            return "(.var %d)" % fields[(ch[0][1:], ch[1])]
        raise Refuse("operator<(locus, locus): expression of kind %s" % k)

    res["locusLess"] = be(kids(st[0])[0])

    docs = X.ast_dump(TU, "vita::random_locus")
    d = find_decl(docs, "FunctionDecl", "random_locus")[0]
    prg = params_of(d)[0].get("name")
    st = [x for x in kids(body_of(d)) if x.get("kind") != "NullStmt"]
    if [x.get("kind") for x in st] != ["DeclStmt", "DeclStmt", "DoStmt", "ReturnStmt"]:
        raise Refuse("random_locus: shape %r" % [x.get("kind") for x in st])
    vset, vit = kids(st[0])[0], kids(st[1])[0]
    w = {}
    if qtype(vset).replace("class ", "") not in ("std::set<vita::locus>",):
        raise Refuse("random_locus: the work set is a %r" % qtype(vset))
    w["container"] = "std::set<locus>"
    il = X.find_all(vset, lambda x: x.get("kind") == "InitListExpr")
    if not (il and len(kids(il[0])) == 1):
        raise Refuse("random_locus: initial content of the set")
    mc = member_call(kids(il[0])[0])
    if not (mc and mc[0] == ["$" + prg] and mc[1] == "best" and not mc[2]):
        raise Refuse("random_locus: the set does not start as {prg.best()}")
    w["init"] = "{prg.best()}"
    mc = member_call(kids(vit)[0])
    if not (mc and mc[0] == ["$" + vset.get("name")] and mc[1] == "begin"):
        raise Refuse("random_locus: the cursor does not start at begin()")
    w["cursor"] = "begin()"
    body, cond = kids(st[2])
    bs = [x for x in kids(body) if x.get("kind") != "NullStmt"]
    if len(bs) != 2 or bs[0].get("kind") != "DeclStmt":
        raise Refuse("random_locus: loop body")
    vargs = kids(bs[0])[0]
    mc = member_call(kids(vargs)[0])
    ok = False
    if mc and mc[1] == "arguments" and not mc[2]:
        f = peel(kids(peel(kids(vargs)[0]))[0])
        obj = peel(kids(f)[0])
        if obj.get("kind") == "CXXOperatorCallExpr" and X.callee_name(obj) == "operator[]":
            o2 = kids(obj)
            who = peel(o2[1]).get("referencedDecl", {}).get("name")
            arg = peel(o2[2])
            if arg.get("kind") == "CXXConstructExpr" and len(kids(arg)) == 1:
                arg = peel(kids(arg)[0])
            ok = who == prg and arg.get("kind") == "CXXOperatorCallExpr" and X.callee_name(arg) == "operator*" and \
                peel(kids(arg)[1]).get("referencedDecl", {}).get("name") == vit.get("name")
    if not ok:
        raise Refuse("random_locus: the loop does not take prg[*iter].arguments()")
    mc = member_call(bs[1])
    if not (mc and mc[0] == ["$" + vset.get("name")] and mc[1] == "insert" and len(mc[2]) == 2):
        raise Refuse("random_locus: the loop does not insert a range into the set")
    m1, m2 = member_call(mc[2][0]), member_call(mc[2][1])
    if not (m1 and m2 and m1[0] == ["$" + vargs.get("name")] and m1[1] == "begin" and
            m2[0] == ["$" + vargs.get("name")] and m2[1] == "end"):
        raise Refuse("random_locus: the inserted range is not args.begin() .. args.end()")
    w["expand"] = "insert:prg[*iter].arguments()"
    c = peel(cond)
    ok = False
    if c.get("kind") == "CXXOperatorCallExpr" and X.callee_name(c) == "operator!=":
        a, b = kids(c)[1:]
        a = peel(a)
        mb = member_call(b)
        ok = a.get("kind") == "CXXOperatorCallExpr" and X.callee_name(a) == "operator++" and len(kids(a)) == 2 and \
            peel(kids(a)[1]).get("referencedDecl", {}).get("name") == vit.get("name") and \
            mb is not None and mb[0] == ["$" + vset.get("name")] and mb[1] == "end"
    if not ok:
        raise Refuse("random_locus: the loop does not run while ++iter != set.end()")
    w["advance"] = "do-while:++iter!=end()"
    r = peel(kids(st[3])[0])
    if r.get("kind") == "CXXConstructExpr" and len(kids(r)) == 1:
        r = peel(kids(r)[0])
    fc = free_call(r)
    ok = False
    if fc and fc[0] == "element" and len(fc[1]) == 1:
        a = peel(fc[1][0])
        f2 = free_call(a)
        if f2 and f2[0] == "as_const" and len(f2[1]) == 1:
            a = peel(f2[1][0])
        ok = a.get("referencedDecl", {}).get("name") == vset.get("name")
    if not ok:
        raise Refuse("random_locus: the result is not random::element(set)")
    w["result"] = "random::element(set)"
    res["randomLocus"] = w


# ------------------------------------------------------------------ i_mep::basic_iterator (begin() .. end(): the exons)
def tr_iterator(res):
    docs = X.ast_dump(TU, "vita::i_mep::basic_iterator")
    spec = []
    for d in docs:
        spec += X.find_all(d, lambda x: x.get("kind") == "ClassTemplateSpecializationDecl" and x.get("name") == "basic_iterator")
    spec = [s_ for s_ in spec if any(c.get("kind") == "CXXMethodDecl" and c.get("name") == "operator++" and body_of(c) is not None
                                      for c in kids(s_))]
    # the non-const instantiation is the one `mutation` uses
    spec = [s_ for s_ in spec if any(c.get("kind") == "TypeAliasDecl" and c.get("name") == "ind" and qtype(c) == "vita::i_mep"
                                      for c in kids(s_))]
    if not spec:
        raise Refuse("i_mep::basic_iterator<false> is not instantiated")
    cls = spec[0]

    def this_loci(n):
        return member_chain(n) == ["$this", "loci_"]

    def loci_call(n, meth, nargs):
        """args of `loci_.<meth>(…)`"""
        mc = member_call(n)
        if not (mc and mc[0] == ["$this", "loci_"] and mc[1] == meth and len(mc[2]) == nargs):
            return None
        return mc[2]

    def is_loci_begin(n, names=("begin", "cbegin")):
        mc = member_call(n)
        return mc is not None and mc[0] == ["$this", "loci_"] and mc[1] in names and not mc[2]

    fr = {}
    fields = [c.get("name") for c in kids(cls) if c.get("kind") == "FieldDecl"]
    if fields != ["loci_", "ind_"]:
        raise Refuse("basic_iterator: fields %r" % fields)
    lf = [c for c in kids(cls) if c.get("kind") == "FieldDecl" and c.get("name") == "loci_"][0]
    if qtype(lf) != "std::set<vita::locus>":
        raise Refuse("basic_iterator: loci_ is a %r" % qtype(lf))
    fr["container"] = "std::set<locus>"
    ctors = [c for c in kids(cls) if c.get("kind") == "CXXConstructorDecl" and body_of(c) is not None and not c.get("isImplicit")]
    c0 = [c for c in ctors if not params_of(c)]
    c1 = [c for c in ctors if len(params_of(c)) == 1 and "ind &" in qtype(c)]
    if len(c0) != 1 or len(c1) != 1:
        raise Refuse("basic_iterator: constructors")
    # basic_iterator() : loci_(), ind_(nullptr) {}
    i0 = [i for i in kids(c0[0]) if i.get("kind") == "CXXCtorInitializer"]
    e0 = peel(kids(i0[0])[0]) if i0 and kids(i0[0]) else {}
    if not (len(i0) == 2 and e0.get("kind") == "CXXConstructExpr" and not kids(e0) and kids(body_of(c0[0])) == []):
        raise Refuse("basic_iterator(): the sentinel does not have an empty set")
    fr["sentinel"] = "loci_()"
    # basic_iterator(ind &id) : loci_({id.best()}), ind_(&id) {}
    idn = params_of(c1[0])[0].get("name")
    i1 = [i for i in kids(c1[0]) if i.get("kind") == "CXXCtorInitializer"]
    il = X.find_all(i1[0], lambda x: x.get("kind") == "InitListExpr") if i1 else []
    mc = member_call(kids(il[0])[0]) if il and len(kids(il[0])) == 1 else None
    a1 = peel(kids(i1[1])[0]) if len(i1) == 2 else {}
    if not (mc and mc[0] == ["$" + idn] and mc[1] == "best" and not mc[2] and a1.get("kind") == "UnaryOperator" and
            a1.get("opcode") == "&" and peel(kids(a1)[0]).get("referencedDecl", {}).get("name") == idn and
            kids(body_of(c1[0])) == []):
        raise Refuse("basic_iterator(id): not loci_({id.best()}), ind_(&id)")
    fr["init"] = "{id.best()}"

    def method(name):
        ms = [c for c in kids(cls) if c.get("kind") == "CXXMethodDecl" and c.get("name") == name and body_of(c) is not None]
        if len(ms) != 1:
            raise Refuse("basic_iterator::%s: %d definitions" % (name, len(ms)))
        return ms[0]

    # locus() = *loci_.cbegin()
    st = [x for x in kids(body_of(method("locus"))) if x.get("kind") != "NullStmt"]
    r = peel(kids(st[0])[0]) if len(st) == 1 and st[0].get("kind") == "ReturnStmt" else {}
    if r.get("kind") == "CXXConstructExpr" and len(kids(r)) == 1:
        r = peel(kids(r)[0])
    if not (r.get("kind") == "CXXOperatorCallExpr" and X.callee_name(r) == "operator*" and is_loci_begin(kids(r)[1])):
        raise Refuse("basic_iterator::locus() is not *loci_.cbegin()")
    # operator*() = ind_->genome_(locus())
    st = [x for x in kids(body_of(method("operator*"))) if x.get("kind") != "NullStmt"]
    r = peel(kids(st[0])[0]) if len(st) == 1 and st[0].get("kind") == "ReturnStmt" else {}
    ok = False
    if r.get("kind") == "CXXOperatorCallExpr" and X.callee_name(r) == "operator()" and len(kids(r)) == 3:
        g = peel(kids(r)[1])
        own = peel(kids(g)[0]) if g.get("kind") == "MemberExpr" and g.get("name") == "genome_" and kids(g) else {}
        mcl = member_call(kids(r)[2])
        ok = member_chain(own) == ["$this", "ind_"] and mcl is not None and mcl[0] == ["$this"] and mcl[1] == "locus" and not mcl[2]
    if not ok:
        raise Refuse("basic_iterator::operator*() is not ind_->genome_(locus())")
    fr["deref"] = "ind_->genome_(*loci_.cbegin())"
    # operator==: (loci_.empty() && rhs.loci_.empty()) || loci_.cbegin() == rhs.loci_.cbegin()
    m = method("operator==")
    rhs = params_of(m)[0].get("name")
    st = [x for x in kids(body_of(m)) if x.get("kind") != "NullStmt"]
    e = strip(kids(st[0])[0]) if len(st) == 1 and st[0].get("kind") == "ReturnStmt" else {}
    ok = False
    if e.get("kind") == "BinaryOperator" and e.get("opcode") == "||":
        l, r = [strip(x) for x in kids(e)]
        if l.get("kind") == "BinaryOperator" and l.get("opcode") == "&&":
            m1, m2 = [member_call(x) for x in kids(l)]
            both = m1 and m2 and m1[1] == "empty" and m2[1] == "empty" and m1[0] == ["$this", "loci_"] and m2[0] == ["$" + rhs, "loci_"]
            if both and r.get("kind") == "CXXOperatorCallExpr" and X.callee_name(r) == "operator==":
                b1, b2 = [member_call(x) for x in kids(r)[1:]]
                ok = bool(b1 and b2 and b1[1] == "cbegin" and b2[1] == "cbegin" and b1[0] == ["$this", "loci_"] and
                          b2[0] == ["$" + rhs, "loci_"])
    if not ok:
        raise Refuse("basic_iterator::operator== has an unknown shape")
    m = method("operator!=")
    st = [x for x in kids(body_of(m)) if x.get("kind") != "NullStmt"]
    e = strip(kids(st[0])[0]) if len(st) == 1 and st[0].get("kind") == "ReturnStmt" else {}
    inner = strip(kids(e)[0]) if e.get("kind") == "UnaryOperator" and e.get("opcode") == "!" else {}
    if not (inner.get("kind") == "CXXOperatorCallExpr" and X.callee_name(inner) == "operator=="):
        raise Refuse("basic_iterator::operator!= is not !(*this == rhs)")
    fr["atEnd"] = "both-empty||same-cbegin"
    # operator++
    m = method("operator++")
    st = [x for x in kids(body_of(m)) if x.get("kind") != "NullStmt"]
    if len(st) != 2 or st[0].get("kind") != "IfStmt" or st[1].get("kind") != "ReturnStmt" or len(kids(st[0])) != 2:
        raise Refuse("basic_iterator::operator++: shape")
    g, blk = kids(st[0])
    g = strip(g)
    mg = member_call(kids(g)[0]) if g.get("kind") == "UnaryOperator" and g.get("opcode") == "!" else None
    if not (mg and mg[0] == ["$this", "loci_"] and mg[1] == "empty"):
        raise Refuse("basic_iterator::operator++ is not guarded by !loci_.empty()")
    bs = [x for x in kids(blk) if x.get("kind") != "NullStmt"]
    if len(bs) != 2 or bs[0].get("kind") != "DeclStmt" or bs[1].get("kind") != "IfStmt" or len(kids(bs[1])) != 3:
        raise Refuse("basic_iterator::operator++: body")
    vargs = kids(bs[0])[0]
    an = vargs.get("name")
    ma = peel(kids(vargs)[0])
    ok = False
    if ma.get("kind") == "CXXMemberCallExpr":
        f = peel(kids(ma)[0])
        if f.get("kind") == "MemberExpr" and f.get("name") == "arguments" and len(kids(ma)) == 1:
            md = member_call(kids(f)[0])
            ok = md is not None and md[0] == ["$this"] and md[1] == "operator*" and not md[2]
    if not ok:
        raise Refuse("basic_iterator::operator++: args is not (**this).arguments()")
    c, t, e = kids(bs[1])
    mc = member_call(c)
    if not (mc and mc[0] == ["$" + an] and mc[1] == "empty"):
        raise Refuse("basic_iterator::operator++: the case split is not on args.empty()")
    er = loci_call(t, "erase", 1)
    if not (er and is_loci_begin(er[0])):
        raise Refuse("basic_iterator::operator++: a leaf is not removed by loci_.erase(loci_.begin())")
    es = [x for x in kids(e) if x.get("kind") != "NullStmt"]
    if len(es) != 4 or es[0].get("kind") != "DeclStmt":
        raise Refuse("basic_iterator::operator++: else branch")
    vnode = kids(es[0])[0]
    nn = vnode.get("name")
    ex = loci_call(kids(vnode)[0], "extract", 1)
    if not (ex and is_loci_begin(ex[0])):
        raise Refuse("basic_iterator::operator++: node is not loci_.extract(loci_.begin())")
    asg = peel(es[1])
    ok = False
    if asg.get("kind") == "CXXOperatorCallExpr" and X.callee_name(asg) == "operator=":
        l, r = kids(asg)[1:]
        ml, mr = member_call(l), member_call(r)
        ok = bool(ml and mr and ml[0] == ["$" + nn] and ml[1] == "value" and mr[0] == ["$" + an] and mr[1] == "front")
    if not ok:
        raise Refuse("basic_iterator::operator++: node.value() = args.front()")
    i1_ = loci_call(es[2], "insert", 1)
    fc = free_call(i1_[0]) if i1_ else None
    if not (fc and fc[0] == "move" and peel(fc[1][0]).get("referencedDecl", {}).get("name") == nn):
        raise Refuse("basic_iterator::operator++: loci_.insert(std::move(node))")
    i2 = loci_call(es[3], "insert", 2)
    ok = False
    if i2:
        fn = free_call(i2[0])
        me = member_call(i2[1])
        if fn and fn[0] == "next" and len(fn[1]) == 1:
            mb = member_call(fn[1][0])
            ok = bool(mb and mb[0] == ["$" + an] and mb[1] == "begin" and me and me[0] == ["$" + an] and me[1] == "end")
    if not ok:
        raise Refuse("basic_iterator::operator++: loci_.insert(std::next(args.begin()), args.end())")
    fr["advance"] = "if(!empty){args:=(**this).arguments();empty?erase(begin()):replace(begin(),args.front())+insert(rest)}"
    # i_mep::begin() / end()
    for nm, nargs in (("begin", 1), ("end", 0)):
        dd = X.ast_dump(TU, "vita::i_mep::" + nm)
        ms = []
        for d in dd:
            ms += X.find_all(d, lambda x: x.get("kind") == "CXXMethodDecl" and x.get("name") == nm and body_of(x) is not None and
                             qtype(x).startswith("i_mep::iterator"))
        if len(ms) != 1:
            raise Refuse("i_mep::%s(): %d non-const definitions" % (nm, len(ms)))
        rets = [x for x in kids(body_of(ms[0])) if x.get("kind") == "ReturnStmt"]
        other = [x for x in kids(body_of(ms[0])) if x.get("kind") not in ("ReturnStmt", "NullStmt") and not Ctx(None, None).ignorable(x)]
        ce = X.find_all(rets[0], lambda x: x.get("kind") in ("CXXConstructExpr", "CXXTemporaryObjectExpr") and
                        "basic_iterator" in qtype(x)) if len(rets) == 1 else []
        ce = [x for x in ce if not (len(kids(x)) == 1 and "basic_iterator" in qtype(kids(x)[0]))]    # skip copy/move
        if other or not ce:
            raise Refuse("i_mep::%s(): shape" % nm)
        args = kids(ce[-1])
        if nargs == 1:
            a = peel(args[0]) if len(args) == 1 else {}
            if not (a.get("kind") == "UnaryOperator" and a.get("opcode") == "*" and peel(kids(a)[0]).get("kind") == "CXXThisExpr"):
                raise Refuse("i_mep::begin() is not iterator(*this)")
        elif args:
            raise Refuse("i_mep::end() is not iterator()")
    fr["beginEnd"] = "begin():iterator(*this);end():iterator()"
    res["exonIter"] = fr


def extract():
    res = {}
    for f in (tr_ctor, tr_mutation, tr_crossover, tr_destroy, tr_get_block, tr_gene, tr_team, tr_roulette, tr_walk, tr_iterator):
        try:
            f(res)
        except (KeyError, IndexError, AttributeError, TypeError, ValueError) as e:
            # a node that is not where the known shape has it: never guess
            raise Refuse("%s: the AST does not have the expected shape (%s: %s)" % (f.__name__, type(e).__name__, e))
    return res


def strs(l):
    return "[" + ", ".join('"%s"' % x for x in l) + "]"


def render(res):
    L = ["/- GENERATED by tools/translate_mep_ops.py from the clang AST of src/kernel/gp/mep/i_mep.cc,",
         "   src/kernel/gp/gene.tcc, src/kernel/gp/team.tcc, src/kernel/gp/locus.h and src/kernel/symbol_set.cc – do not edit.",
         "   Syntax only; the meaning is in Vita/C02/GenSem.lean, the proofs in Vita/C02/Props.lean (gen_*). -/",
         "import Vita.C02.GenSem",
         "namespace Vita.C02.Gen",
         "open Vita.IntE Vita.C02.GenSem", ""]
    L += ["/-- enum i_mep::crossover_t (without NUM_CROSSOVERS) -/", "def flavours : List String := " + strs(res["flavours"]), ""]
    L += ["/-- i_mep::i_mep(const problem &): genome writes in program order -/", "def ctor : List Write := " + lean_writes(res["ctor"]), ""]
    L += ["def ctorBest : E × E := (%s, %s)" % (lean_e(res["ctorBest"][0]), lean_e(res["ctorBest"][1])), ""]
    L += ["/-- i_mep(const problem &): genome_(rows, columns) – `.var 11` = env.mep.code_length, `.var 12` = sset.categories() -/",
          "def ctorDims : E × E := (%s, %s)" % (lean_e(res["ctorDims"][0]), lean_e(res["ctorDims"][1])), ""]
    L += ["/-- i_mep::mutation: the gene drawn for the locus (row `.var 3`, column `.var 4`) of the iterator -/",
          "def mutationCand : Src := " + lean_src(res["mutationCand"]), "",
          "def mutationShape : List String := " + strs(res["mutationShape"]), ""]
    L += ["/-- crossover(lhs, rhs): [from if b, from otherwise, to if b, to otherwise] -/",
          "def xoverParents : List String := " + strs(res["xoverParents"]), "",
          "def xoverCases : List (Nat × String) := [" + ", ".join('(%d, "%s")' % (k, n) for k, n in res["xoverCases"]) + "]", ""]
    for name, lname in (("one_point", "xoverOnePoint"), ("two_points", "xoverTwoPoints"), ("uniform", "xoverUniform")):
        x = res["xover_" + name]
        L += ["def %s : XBlock :=\n  { draws := [%s],\n    writes := %s }" % (lname, ",\n              ".join(x["draws"]), lean_writes(x["writes"])), ""]
    L += ["def xoverTree : List String := " + strs(res["xoverTree"]), "",
          "def xoverMeta : List String := " + strs(res["xoverMeta"]), ""]
    L += ["/-- i_mep::destroy_block(index, sset); `.var 7` = index -/", "def destroy : List Write := " + lean_writes(res["destroy"]), ""]
    L += ["/-- members assigned by i_mep::get_block(l) -/", "def getBlock : List String := " + strs(res["getBlock"]), ""]
    g = res["geneArgs"]
    L += ["/-- basic_gene(const symbol &s, from, sup); `.var 7` = from, `.var 8` = sup -/",
          "def geneArgs : GeneArgs := { count := \"%s\", lo := %s, sup := %s, bits := %d }" % (g["count"], lean_e(g["lo"]), lean_e(g["sup"]), g["bits"]), "",
          "def argLocus : List String := " + strs(res["argLocus"]), ""]
    for k in ("teamCtor", "teamCrossover"):
        t = res[k]
        L += ["def %s : TeamLoop := { range := ⟨%s, %s, %s⟩, op := \"%s\", n := \"%s\" }" % (
            k, lean_e(t["range"][0]), lean_e(t["range"][1]), "true" if t["range"][2] else "false", t["op"], t["n"]), ""]
    wd = res["wedge"]
    L += ["/-- symbol_set::collection::sum_container::roulette(): the wedge loop -/",
          "def wedge : WedgeLoop :=\n  { slotSup := \"%s\", idx0 := %s, acc0 := %s,\n    cmp := .%s, lhs := %s, rhs := %s,\n    step := [%s],\n    ret := %s }" % (
              wd["slotSup"], lean_we(wd["idx0"]), lean_we(wd["acc0"]), wd["cmp"], lean_we(wd["lhs"]), lean_we(wd["rhs"]),
              ", ".join("(.%s, %s)" % (v, lean_we(e)) for v, e in wd["step"]), lean_we(wd["ret"])), ""]
    rs = res["rouletteSel"]
    L += ["/-- symbol_set::roulette(c): `if (boolean() && views_[c].G.size()) return views_[c].T.roulette(); return views_[c].E.roulette();` -/",
          "def rouletteSel : Sel := { coin := %s, guardView := \"%s\", thenView := \"%s\", elseView := \"%s\" }" % (
              "true" if rs["coin"] else "false", rs["guard"], rs["then"], rs["else"]), "",
          "/-- symbol_set::roulette_terminal(c): the view asked -/",
          "def rouletteTerminal : String := \"%s\"" % res["rouletteTerminal"], "",
          "/-- symbol_set::insert: the views of `views_[category]` the new symbol enters, and when -/",
          "def viewInsert : List (String × String) := [" + ", ".join('("%s", "%s")' % x for x in res["viewInsert"]) + "]", ""]
    L += ["/-- operator<(const locus &l1, const locus &l2): `.var 0/1` = l1.index/category, `.var 2/3` = l2.index/category -/",
          "def locusLess : E := " + res["locusLess"], ""]
    rl = res["randomLocus"]
    L += ["/-- random_locus(prg) -/",
          "def randomLocus : Walk :=\n  { container := \"%s\", init := \"%s\", cursor := \"%s\",\n    expand := \"%s\", advance := \"%s\", result := \"%s\" }" % (
              rl["container"], rl["init"], rl["cursor"], rl["expand"], rl["advance"], rl["result"]), ""]
    it = res["exonIter"]
    L += ["/-- i_mep::basic_iterator (what `begin() .. end()` of an individual scans) -/",
          "def exonIter : Frontier :=\n  { container := \"%s\", init := \"%s\", sentinel := \"%s\", deref := \"%s\",\n    advance := \"%s\",\n    atEnd := \"%s\", beginEnd := \"%s\" }" % (
              it["container"], it["init"], it["sentinel"], it["deref"], it["advance"], it["atEnd"], it["beginEnd"]), ""]
    L += ["def teamMutation : List String := " + strs(res["teamMutation"]), "",
          "def teamIncAge : List String := " + strs(res["teamIncAge"]), "",
          "end Vita.C02.Gen"]
    return "\n".join(L) + "\n"


def emit(path):
    res = extract()
    txt = render(res)
    old = open(path).read() if os.path.exists(path) else None
    if old != txt:
        with open(path, "w") as f:
            f.write(txt)
    return res, old is not None and old != txt


if __name__ == "__main__":
    print(render(extract()))
