#!/usr/bin/env python3
"""Translate every member function (and friend) of i_mep / i_ga / i_de / team<i_mep> /
individual<> of /repo's *current* working tree into an "effect skeleton" with respect to the
signature cache (a term of `Vita.C03.Eff.Stm`, syntax only) -> lean/Vita/C03/GenMutators.lean.

What is kept of a function body: control flow (sequence, if, loops), and, for every object of
one of the classes that is in scope (`this`, local objects):
  write x          any modification of the content (genome_, best_, individuals_) of x, also
                   through references / iterators / range-for variables bound to it
  reset x k        x.signature_.clear() (k = clear) / x.signature_ = x.hash() (k = recompute)
  sigOther x       any other modification of x.signature_
  fresh x, copy    declarations of local objects
  incr n / kill n  ++n on a local integer / any other assignment to it;  `if (n)` is kept as guard
  countedWrite x n `n += e.m(...)` where e is an element of x's content and m changes e and returns
                   the number of changes (contract checked syntactically on m: it returns a counter
                   that it increments)
  handout x        a mutable reference / iterator into the content of x is returned
  ret [objects]    return statement
Calls of member functions of the classes on objects in scope are inlined (this := the object).
The meaning of the skeletons and the analysis are in Vita/C03/Eff.lean (+ soundness proof).

Refuses (raises `Refuse`) on any statement kind it does not know."""
import os
import sys

sys.path.insert(0, os.path.dirname(os.path.abspath(__file__)))
from cxx2lean import Refuse, ast_dump, kids  # noqa: E402

CONTENT = {"genome_", "best_", "individuals_"}
SIG = "signature_"
TRACKED = ("i_mep", "i_ga", "i_de", "team<i_mep>")
INT_TYPES = {"unsigned int", "int", "unsigned long", "long", "std::size_t", "size_t", "unsigned",
             "const unsigned int", "unsigned long long"}


def norm_type(t):
    t = t.replace("const ", "").replace("vita::", "").replace("class ", "").replace("struct ", "").strip()
    t = t.replace(" ", "")
    return t


def qt(n):
    t = n.get("type", {})
    return t.get("qualType", "")


def dqt(n):
    t = n.get("type", {})
    return t.get("desugaredQualType", t.get("qualType", ""))


def tracked_class(typ):
    """name of the tracked class a (value / reference) type denotes, else None"""
    t = norm_type(typ).rstrip("&").rstrip("*")
    if t in ("i_mep", "i_ga", "i_de"):
        return t
    if t in ("team<i_mep>", "team<T>"):
        return "team"
    if t.startswith("individual<") and t.endswith(">") and t.count("<") == 1:
        return "individual"
    return None


def is_const_type(typ):
    return typ.strip().startswith("const ")


def has_body(d):
    return any(c.get("kind") == "CompoundStmt" for c in kids(d))


# ---------------------------------------------------------------------------------------------
# skeleton terms: nested tuples, rendered to Lean at the end
# ---------------------------------------------------------------------------------------------
SKIP = ("skip",)


def seq(*ss):
    out = []
    for s in ss:
        if s is None or s == SKIP:
            continue
        if s[0] == "seq":
            out += list(s[1])
        else:
            out.append(s)
    if not out:
        return SKIP
    if len(out) == 1:
        return out[0]
    return ("seq", tuple(out))


def simplify(s, keep_ctrs):
    k = s[0]
    if k in ("incr", "kill") and s[1] not in keep_ctrs:
        return SKIP
    if k == "seq":
        xs = [simplify(x, keep_ctrs) for x in s[1]]
        out = []
        for x in xs:
            if x == SKIP:
                continue
            if out and x[0] == "ret" and out[-1] == x:
                continue
            out.append(x)
        return seq(*out)
    if k == "ite":
        t, e = simplify(s[2], keep_ctrs), simplify(s[3], keep_ctrs)
        if t == SKIP and e == SKIP:
            return SKIP
        return ("ite", s[1], t, e)
    if k == "call":
        b, t, e = (simplify(x, keep_ctrs) for x in s[1:])
        if t == SKIP and e == SKIP and not has_effects(b):
            return SKIP
        return ("call", b, t, e)
    if k == "loop":
        b = simplify(s[1], keep_ctrs)
        return SKIP if b == SKIP else ("loop", b)
    return s


def has_effects(s):
    """anything but control flow and assertion-free returns"""
    k = s[0]
    if k in ("skip", "incr", "kill"):
        return False
    if k in ("ret", "retc"):
        return bool(s[1])
    if k == "seq":
        return any(has_effects(x) for x in s[1])
    if k == "ite":
        return has_effects(s[2]) or has_effects(s[3])
    if k == "call":
        return any(has_effects(x) for x in s[1:])
    if k == "loop":
        return has_effects(s[1])
    return True


def used_counters(s, acc=None):
    acc = acc if acc is not None else set()
    k = s[0]
    if k == "countedWrite":
        acc.add(s[2])
    if k == "seq":
        for x in s[1]:
            used_counters(x, acc)
    if k == "ite":
        if s[1][0] == "nz":
            acc.add(s[1][1])
        used_counters(s[2], acc)
        used_counters(s[3], acc)
    if k == "call":
        for x in s[1:]:
            used_counters(x, acc)
    if k == "loop":
        used_counters(s[1], acc)
    return acc


def is_trivial(s):
    k = s[0]
    if k in ("skip", "ret", "retc", "incr", "kill"):
        return True
    if k == "seq":
        return all(is_trivial(x) for x in s[1])
    if k == "call":
        return all(is_trivial(x) for x in s[1:])
    if k == "ite":
        return is_trivial(s[2]) and is_trivial(s[3])
    if k == "loop":
        return is_trivial(s[1])
    return False


def touches_content(s, obj="this"):
    k = s[0]
    if k in ("write", "handout") and s[1] == obj:
        return True
    if k == "countedWrite" and s[1] == obj:
        return True
    if k == "seq":
        return any(touches_content(x, obj) for x in s[1])
    if k == "call":
        return any(touches_content(x, obj) for x in s[1:])
    if k == "ite":
        return touches_content(s[2], obj) or touches_content(s[3], obj)
    if k == "loop":
        return touches_content(s[1], obj)
    return False


def subst(s, m, ctr_prefix):
    """rename objects (dict m) and counters (prefix) of an inlined callee skeleton;
    `handout` becomes a plain write (the reference is used by the caller), `ret` disappears"""
    k = s[0]
    o = lambda x: m.get(x, ctr_prefix + x)
    if k == "skip":
        return s
    if k in ("write", "sigOther", "sigCall", "fresh", "construct"):
        return (k, o(s[1]))
    if k == "retc":
        return ("ret", (), "unk")
    if k == "reset":
        return (k, o(s[1]), s[2])
    if k == "copy":
        return (k, o(s[1]), o(s[2]))
    if k in ("incr", "kill"):
        return (k, ctr_prefix + s[1])
    if k == "countedWrite":
        return (k, o(s[1]), ctr_prefix + s[2])
    if k == "handout":
        return ("write", o(s[1]))
    if k == "ret":
        return ("ret", (), s[2])          # control flow only: the callee is checked on its own
    if k == "call":
        return ("call",) + tuple(subst(x, m, ctr_prefix) for x in s[1:])
    if k == "seq":
        return seq(*[subst(x, m, ctr_prefix) for x in s[1]])
    if k == "ite":
        g = s[1]
        if g[0] == "nz":
            g = ("nz", ctr_prefix + g[1])
        return ("ite", g, subst(s[2], m, ctr_prefix), subst(s[3], m, ctr_prefix))
    if k == "loop":
        return ("loop", subst(s[1], m, ctr_prefix))
    raise AssertionError(k)


def lean(s, ind=4):
    k = s[0]
    q = lambda x: '"%s"' % x
    if k == "skip":
        return ".skip"
    if k in ("write", "sigOther", "sigCall", "fresh", "construct", "incr", "kill", "handout"):
        return "(.%s %s)" % (k, q(s[1]))
    if k == "retc":
        return "(.retc [%s])" % ", ".join(q(x) for x in s[1])
    if k == "reset":
        return "(.reset %s .%s)" % (q(s[1]), s[2])
    if k == "copy":
        return "(.copy %s %s)" % (q(s[1]), q(s[2]))
    if k == "countedWrite":
        return "(.countedWrite %s %s)" % (q(s[1]), q(s[2]))
    if k == "ret":
        return "(.ret [%s] .%s)" % (", ".join(q(x) for x in s[1]), s[2])
    if k == "call":
        return "(.call\n%s%s\n%s%s\n%s%s)" % (" " * (ind + 2), lean(s[1], ind + 2), " " * (ind + 2), lean(s[2], ind + 2),
                                               " " * (ind + 2), lean(s[3], ind + 2))
    if k == "seq":
        xs = list(s[1])
        r = lean(xs[-1], ind)
        for x in reversed(xs[:-1]):
            r = "(.seq %s\n%s%s)" % (lean(x, ind), " " * ind, r)
        return r
    if k == "ite":
        g = "(.nz %s)" % q(s[1][1]) if s[1][0] == "nz" else ".other"
        return "(.ite %s\n%s%s\n%s%s)" % (g, " " * (ind + 2), lean(s[2], ind + 2), " " * (ind + 2), lean(s[3], ind + 2))
    if k == "loop":
        return "(.loop\n%s%s)" % (" " * (ind + 2), lean(s[1], ind + 2))
    raise AssertionError(k)


# ---------------------------------------------------------------------------------------------
# AST index
# ---------------------------------------------------------------------------------------------
class Index:
    def __init__(self):
        self.by_id = {}          # decl id -> (class name, decl node with body or None)
        self.classes = {}        # class -> list of (decl node, access)
        self.friends = []        # FunctionDecl nodes (with body) of friend / related free functions
        self.ctor_default_ok = {}

    def add_record(self, cls, rec):
        access = "private" if rec.get("tagUsed") == "class" else "public"
        members = self.classes.setdefault(cls, [])
        for c in kids(rec):
            k = c.get("kind")
            if k == "AccessSpecDecl":
                access = c.get("access", access)
            elif k in ("CXXMethodDecl", "CXXConstructorDecl", "CXXConversionDecl"):
                if c.get("isImplicit"):
                    continue
                members.append((c, access))
                self.by_id[c["id"]] = [cls, c if has_body(c) else None, c, access]

    def resolve(self, cls, name, const_obj, nargs, type_str=None):
        if cls is None:
            return None
        for c in (cls, "individual"):
            cands = [self.by_id[d["id"]] for d, _ in self.classes.get(c, []) if d.get("name") == name]
            if type_str is not None:
                ex = [r for r in cands if qt(r[2]) == type_str]
                if ex:
                    return ex[0]
            if nargs is not None:
                cands = [r for r in cands if n_params(r[2]) == nargs or has_default_args(r[2], nargs)]
            if const_obj is not None and len(cands) > 1:
                cc = [r for r in cands if qt(r[2]).rstrip().endswith("const") == const_obj]
                cands = cc or cands
            if len(cands) == 1:
                return cands[0]
            if len(cands) > 1:
                raise Refuse("ambiguous call %s::%s (%d candidates)" % (cls, name, len(cands)))
        return None

    def add_definition(self, d):
        """out-of-line definition: attach the body to the declaration it completes"""
        p = d.get("previousDecl")
        if p in self.by_id and has_body(d):
            self.by_id[p][1] = d
            self.by_id[d["id"]] = self.by_id[p]


def n_params(d):
    return len([c for c in kids(d) if c.get("kind") == "ParmVarDecl"])


def has_default_args(d, nargs):
    ps = [c for c in kids(d) if c.get("kind") == "ParmVarDecl"]
    if nargs > len(ps):
        return False
    return all(kids(p) for p in ps[nargs:]) and nargs < len(ps)


def build_index():
    ix = Index()
    docs = {}
    for f in ("vita::i_mep", "vita::i_ga", "vita::i_de", "vita::team", "vita::individual", "vita::crossover"):
        docs[f] = ast_dump("mutators_tu.cc", f)
    for f, cls in (("vita::i_mep", "i_mep"), ("vita::i_ga", "i_ga"), ("vita::i_de", "i_de")):
        for d in docs[f]:
            if d.get("kind") == "CXXRecordDecl" and d.get("name") == cls and d.get("completeDefinition"):
                ix.add_record(cls, d)
        for d in docs[f]:
            if d.get("kind") in ("CXXMethodDecl", "CXXConstructorDecl", "CXXConversionDecl"):
                ix.add_definition(d)
    for d in docs["vita::team"]:
        if d.get("kind") == "ClassTemplateSpecializationDecl" and d.get("name") == "team":
            ix.add_record("team", d)
    n_ind = 0
    for d in docs["vita::individual"]:
        if d.get("kind") == "ClassTemplateSpecializationDecl" and d.get("name") == "individual":
            # the three instantiations have the same bodies; keep them all addressable, list one
            cls = "individual" if n_ind == 0 else "individual#%d" % n_ind
            n_ind += 1
            ix.add_record(cls, d)
    if n_ind == 0:
        raise Refuse("no instantiation of individual<> found")
    for d in docs["vita::crossover"]:
        if d.get("kind") == "FunctionDecl" and has_body(d):
            ix.friends.append(d)
        if d.get("kind") == "FunctionTemplateDecl":
            for c in kids(d):
                if c.get("kind") == "FunctionDecl" and has_body(c) and "i_mep" in qt(c):
                    ix.friends.append(c)
    return ix


# ---------------------------------------------------------------------------------------------
# body walker
# ---------------------------------------------------------------------------------------------
STMT_KINDS = {"CompoundStmt", "DeclStmt", "IfStmt", "ForStmt", "WhileStmt", "DoStmt", "CXXForRangeStmt",
              "ReturnStmt", "NullStmt", "BreakStmt", "ContinueStmt", "SwitchStmt", "CaseStmt", "DefaultStmt",
              "CXXTryStmt", "CXXCatchStmt", "GotoStmt", "LabelStmt"}
ASSIGN_OPS = {"=", "+=", "-=", "*=", "/=", "%=", "<<=", ">>=", "&=", "|=", "^="}


class Walker:
    def __init__(self, ix, cls, decl, kind, translate_callee):
        self.ix, self.cls, self.decl, self.kind = ix, cls, decl, kind
        self.translate_callee = translate_callee
        self.alias = {}       # variable name -> (object, 'ref' | 'iter' | 'elem')
        self.objs = []        # tracked local objects in scope (stack of lists)
        self.scopes = [[]]
        self.counters = set()
        self.is_const_method = qt(decl).rstrip().endswith("const")
        self.ret_type = qt(decl).split("(")[0].strip()
        self.inl = 0

    # -- helpers ----------------------------------------------------------------------------
    def in_scope(self):
        xs = ["this"] if self.kind != "friend" else []
        for sc in self.scopes:
            xs += sc
        return xs

    def local_obj(self, name):
        return any(name in sc for sc in self.scopes)

    # -- expressions --------------------------------------------------------------------------
    # ev(n) -> (effects, acc) where acc describes what the expression denotes:
    #   None | ('obj', x, mutable) | ('mut', x) mutable lvalue into x's content | ('iter', x) |
    #   ('sig', x) | ('elem', x) element of x's content of a tracked class (mutable)
    def ev(self, n):
        k = n.get("kind")
        h = getattr(self, "ev_" + k, None)
        if h:
            return h(n)
        if k in STMT_KINDS:
            raise Refuse("statement %s inside an expression (%s::%s)" % (k, self.cls, self.decl.get("name")))
        return self.ev_default(n)

    def consume(self, acc):
        """an access that reaches a context we do not model precisely: assume the worst"""
        if acc is None:
            return SKIP
        if acc[0] in ("mut", "iter", "elem"):
            return ("write", acc[1])
        if acc[0] == "sig":
            return ("sigOther", acc[1])
        if acc[0] == "obj" and acc[2]:
            return seq(("write", acc[1]), ("sigOther", acc[1]))
        return SKIP

    def ev_default(self, n):
        eff = []
        for c in kids(n):
            e, acc = self.ev(c)
            eff += [e, self.consume(acc)]
        return seq(*eff), None

    def ev_CXXThisExpr(self, n):
        return SKIP, ("obj", "this", not is_const_type(qt(n)))

    def ev_DeclRefExpr(self, n):
        rd = n.get("referencedDecl", {})
        name = rd.get("name")
        if rd.get("kind") in ("VarDecl", "ParmVarDecl"):
            if name in self.alias:
                x, kind = self.alias[name]
                if is_const_type(qt(n)) and kind != "iter":
                    return SKIP, None
                return SKIP, ({"ref": "mut", "iter": "iter", "elem": "elem"}[kind], x)
            if self.local_obj(name):
                return SKIP, ("obj", name, not is_const_type(qt(n)))
            if tracked_class(qt(rd)) and rd.get("kind") == "ParmVarDecl" and not is_const_type(qt(rd)) \
                    and qt(rd).rstrip().endswith("&"):
                raise Refuse("non-const reference parameter of a tracked class: %s" % name)
        return SKIP, None

    def passthrough(self, n):
        ks = kids(n)
        if len(ks) != 1:
            return self.ev_default(n)
        return self.ev(ks[0])

    ev_ParenExpr = ev_ExprWithCleanups = ev_MaterializeTemporaryExpr = ev_CXXBindTemporaryExpr = passthrough
    ev_ConstantExpr = passthrough

    def ev_cast(self, n):
        ks = kids(n)
        if len(ks) != 1:
            return self.ev_default(n)
        e, acc = self.ev(ks[-1])
        ck = n.get("castKind")
        if acc is None:
            return e, None
        if ck == "LValueToRValue":
            return e, None                                   # a read
        if ck in ("NoOp", "DerivedToBase", "UncheckedDerivedToBase", "BaseToDerived", "Dependent"):
            if is_const_type(qt(n)) or is_const_type(qt(n).replace("*", "").strip()) and "const" in qt(n).split("*")[0]:
                if acc[0] == "iter":
                    return e, acc                            # a const iterator object still points to mutable data
                if acc[0] == "obj":
                    return e, ("obj", acc[1], False)
                return e, None
            return e, acc
        if ck in ("ConstructorConversion", "UserDefinedConversion", "FunctionToPointerDecay", "ArrayToPointerDecay",
                  "BitCast"):
            return e, acc
        return seq(e, self.consume(acc)), None

    ev_ImplicitCastExpr = ev_CXXStaticCastExpr = ev_CXXFunctionalCastExpr = ev_CStyleCastExpr = ev_cast
    ev_CXXConstCastExpr = ev_CXXReinterpretCastExpr = ev_cast

    def ev_UnaryOperator(self, n):
        op = n.get("opcode")
        c = kids(n)[0]
        if op in ("++", "--"):
            cn = self.counter_name(c)
            if cn:
                return (("incr", cn) if op == "++" else ("kill", cn)), None
            e, acc = self.ev(c)
            return seq(e, self.consume(acc)), None
        e, acc = self.ev(c)
        if op == "*":
            if acc and acc[0] == "iter":
                return e, (("mut", acc[1]) if not is_const_type(qt(n)) else None)
            return e, acc           # *this
        if op == "&":
            return e, acc           # address of: still the same thing (consumed by whoever takes it)
        return seq(e, self.consume(acc)), None

    def counter_name(self, n):
        while n.get("kind") in ("ParenExpr",):
            n = kids(n)[0]
        if n.get("kind") == "DeclRefExpr":
            rd = n.get("referencedDecl", {})
            if rd.get("kind") == "VarDecl" and rd.get("name") in self.counters:
                return rd.get("name")
        return None

    def ev_MemberExpr(self, n):
        ks = kids(n)
        if not ks:
            return SKIP, None
        e, acc = self.ev(ks[0])
        name = n.get("name")
        if acc and acc[0] == "obj":
            x = acc[1]
            if name in CONTENT:
                return e, (("mut", x) if (acc[2] and not is_const_type(qt(n))) else None)
            if name == SIG:
                return e, ("sig", x)           # `mutable`: writable even through a const object
            if qt(n) == "<bound member function type>":
                return e, ("method", x, acc[2], n)
            return e, None                     # age_, active_crossover_type_: not part of the signature
        if acc and acc[0] in ("mut", "elem"):
            if qt(n) == "<bound member function type>":
                # a member of the content itself, or of an element that is an object of a tracked class
                how = "elem" if (tracked_class(qt(ks[0])) or tracked_class(dqt(ks[0]))) else "mut"
                return e, ("cmethod", acc[1], how, n)
            if acc[0] == "elem" and name not in CONTENT:
                return e, None                 # e.g. age_ of a team member
            return e, (("mut", acc[1]) if not is_const_type(qt(n)) else None)
        if acc and acc[0] == "iter":
            if qt(n) == "<bound member function type>":
                return e, ("imethod", acc[1], n)
            return e, ("mut", acc[1])          # it->field
        if acc and acc[0] == "sig":
            if qt(n) == "<bound member function type>":
                return e, ("smethod", acc[1], n)
            return e, acc                      # signature_.data[...]
        return e, None

    def callee_record(self, member_expr, nargs=None):
        """resolve a member call by class (static type of the object expression), name,
        constness of the object and number of arguments (decl ids are not stable across the
        separate clang invocations the index is built from)"""
        base = kids(member_expr)[0]
        bt = qt(base)
        cls = tracked_class(bt) or tracked_class(dqt(base))
        const_obj = is_const_type(bt)
        return self.ix.resolve(cls, member_expr.get("name"), const_obj, nargs)

    def operator_record(self, callee_ref, obj_expr):
        rd = callee_ref.get("referencedDecl", {})
        cls = tracked_class(qt(obj_expr))
        return self.ix.resolve(cls, rd.get("name"), None, None, type_str=rd.get("type", {}).get("qualType"))

    def inline(self, rec, x):
        cls, body_decl, decl, access = rec
        if body_decl is None:
            raise Refuse("no body for %s::%s" % (cls, decl.get("name")))
        sk = self.translate_callee(rec)
        self.inl += 1
        body = subst(sk, {"this": x}, "%s.%d." % (decl.get("name"), self.inl))
        if not has_effects(body):
            return SKIP, sk
        return ("call", body, SKIP, SKIP), sk

    def ev_call(self, n):
        ks = kids(n)
        eff = []
        fe, facc = self.ev(ks[0])
        eff.append(fe)
        args = ks[1:]
        res_mut = n.get("valueCategory") == "lvalue" and not is_const_type(qt(n))
        # ---- member function of a tracked class, called on an object in scope -----------------
        if facc and facc[0] == "method":
            _, x, mutable, me = facc
            rec = self.callee_record(me, len([a for a in args if a.get("kind") != "CXXDefaultArgExpr"]))
            for a in args:
                e, acc = self.ev(a)
                eff += [e, self.consume(acc)]
            if rec is None:
                raise Refuse("call of unknown member %s on %s" % (me.get("name"), x))
            sk, raw = self.inline(rec, x)
            eff.append(sk)
            if touches_handout(raw):
                # e.g. ret[i] (a reference: the caller writes through it) / begin() (an iterator)
                return seq(*eff), (("mut", x) if n.get("valueCategory") == "lvalue" else ("iter", x))
            return seq(*eff), None
        # ---- member of the content (std::vector, matrix, gene…) or of an element ------------------
        if facc and facc[0] == "cmethod":
            _, x, how, me = facc
            for a in args:
                e, acc = self.ev(a)
                eff += [e, self.consume(acc)]
            if how == "elem":
                rec = self.callee_record(me, len([a for a in args if a.get("kind") != "CXXDefaultArgExpr"]))
                if rec is None:
                    raise Refuse("call of unknown member %s on an element of %s" % (me.get("name"), x))
                raw = self.translate_callee(rec)
                if touches_content(raw):
                    return seq(*eff), ("elemwrite", x, rec)
                return seq(*eff), None
            if res_mut:
                return seq(*eff), ("mut", x)
            tn = norm_type(qt(n))
            if "iterator" in tn and "const_iterator" not in tn:
                return seq(*eff), ("iter", x)
            if tn in ("void", "bool", "unsignedlong", "std::size_t", "size_type", "unsignedint") and \
                    me.get("name") in ("size", "empty", "rows", "cols", "capacity"):
                return seq(*eff), None
            eff.append(("write", x))           # reserve, emplace_back, clear, …
            return seq(*eff), None
        if facc and facc[0] == "imethod":
            _, x, me = facc
            for a in args:
                e, acc = self.ev(a)
                eff += [e, self.consume(acc)]
            if me.get("name") in ("operator*", "operator->", "operator[]") and res_mut:
                return seq(*eff), ("mut", x)
            return seq(*eff), None             # locus(), operator++, comparisons
        if facc and facc[0] == "smethod":
            _, x, me = facc
            for a in args:
                e, acc = self.ev(a)
                eff += [e, self.consume(acc)]
            nm = me.get("name")
            if nm == "clear":
                eff.append(("reset", x, "clear"))
            elif nm in ("empty", "operator==", "operator!=", "save"):
                pass
            else:
                eff.append(("sigOther", x))
            return seq(*eff), None
        eff.append(self.consume(facc))
        # ---- free function / unknown callee: arguments bound to non-const references are writes ----
        for a in args:
            e, acc = self.ev(a)
            eff += [e, self.consume(acc)]
        return seq(*eff), None

    ev_CallExpr = ev_CXXMemberCallExpr = ev_call

    def ev_CXXOperatorCallExpr(self, n):
        ks = kids(n)
        callee = ks[0]
        while callee.get("kind") == "ImplicitCastExpr":
            callee = kids(callee)[0]
        opname = callee.get("referencedDecl", {}).get("name", "")
        ctype = qt(callee)
        is_member = callee.get("referencedDecl", {}).get("kind") == "CXXMethodDecl"
        args = ks[1:]
        res_mut = n.get("valueCategory") == "lvalue" and not is_const_type(qt(n))
        if not args:
            return SKIP, None
        e0, a0 = self.ev(args[0])
        eff = [e0]
        rest = []
        for a in args[1:]:
            e, acc = self.ev(a)
            rest.append((e, acc))
        # assignment-like operators ------------------------------------------------------------
        if opname == "operator=" or (opname.startswith("operator") and opname[8:] in ASSIGN_OPS):
            for e, acc in rest:
                eff.append(e)
            if a0 and a0[0] == "sig":
                x = a0[1]
                if opname == "operator=" and len(args) == 2 and self.is_hash_call(args[1], x):
                    eff.append(("reset", x, "recompute"))
                elif opname == "operator=" and len(args) == 2 and is_empty_hash(args[1]):
                    eff.append(("reset", x, "clear"))       # signature_ = hash_t()
                else:
                    eff.append(("sigOther", x))
                return seq(*eff), None
            if a0 and a0[0] in ("mut", "elem"):
                for e, acc in rest:
                    eff.append(self.consume_read(acc))
                eff.append(("write", a0[1]))
                return seq(*eff), None
            if a0 and a0[0] == "obj" and a0[2]:
                x = a0[1]
                src = rest[0][1] if rest else None
                if src and src[0] == "obj":
                    eff.append(("copy", x, src[1]))
                else:
                    # assignment from a vector, from the result of a function, …: a member function
                    # of the class (inlined) when user provided, else a value respecting the invariant
                    rec = self.operator_record(callee, args[0])
                    if rec is not None and rec[1] is not None:
                        sk, _ = self.inline(rec, x)
                        eff.append(sk)
                    else:
                        eff.append(("fresh", x))
                return seq(*eff), ("obj", x, True)
            for e, acc in rest:
                eff.append(self.consume(acc))
            eff.append(self.consume(a0))
            return seq(*eff), None
        # member operators of tracked classes on objects in scope --------------------------------
        if a0 and a0[0] == "obj" and is_member:
            rec = self.operator_record(callee, args[0])
            for e, acc in rest:
                eff += [e, self.consume(acc)]
            if rec is not None:
                sk, raw = self.inline(rec, a0[1])
                eff.append(sk)
                if touches_handout(raw):
                    return seq(*eff), ("mut", a0[1])
                return seq(*eff), None
            if not a0[2]:
                return seq(*eff), None
            eff.append(self.consume(a0))
            return seq(*eff), None
        benign = opname in ("operator==", "operator!=", "operator<", "operator>", "operator<=", "operator>=",
                            "operator-", "operator+", "operator++", "operator--", "operator+=", "operator-=")
        for e, acc in rest:
            eff += [e, SKIP if (benign and acc and acc[0] == "iter") else self.consume(acc)]
        if a0 and a0[0] == "iter":
            if opname in ("operator*", "operator->", "operator[]"):
                return seq(*eff), (("mut", a0[1]) if res_mut else None)
            if opname in ("operator++", "operator--", "operator+=", "operator-=", "operator+", "operator-"):
                return seq(*eff), (("iter", a0[1]) if "iterator" in norm_type(qt(n)) else None)
            if opname in ("operator==", "operator!=", "operator<"):
                return seq(*eff), None
            eff.append(self.consume(a0))
            return seq(*eff), None
        if a0 and a0[0] in ("mut", "elem"):
            if ctype.rstrip().endswith("const") or opname in ("operator==", "operator!=", "operator<", "operator<<"):
                return seq(*eff), None
            if res_mut:
                return seq(*eff), ("mut", a0[1])   # genome_(l), genome_[i], individuals_[i]
            eff.append(("write", a0[1]))
            return seq(*eff), None
        eff.append(self.consume(a0))
        return seq(*eff), None

    def consume_read(self, acc):
        """right-hand side of an assignment: a copy is taken (binding to a const reference)"""
        if acc and acc[0] == "elemwrite":
            return ("write", acc[1])
        return SKIP

    def is_hash_call(self, n, x):
        while n.get("kind") in ("ExprWithCleanups", "MaterializeTemporaryExpr", "CXXBindTemporaryExpr",
                                "ImplicitCastExpr", "CXXConstructExpr", "ParenExpr") and len(kids(n)) == 1:
            n = kids(n)[0]
        if n.get("kind") != "CXXMemberCallExpr":
            return False
        me = kids(n)[0]
        if me.get("kind") != "MemberExpr" or me.get("name") != "hash" or len(kids(n)) != 1:
            return False
        _, acc = self.ev(kids(me)[0])
        return bool(acc and acc[0] == "obj" and acc[1] == x)

    def ev_BinaryOperator(self, n):
        op = n.get("opcode")
        l, r = kids(n)
        if op in ASSIGN_OPS:
            cn = self.counter_name(l)
            er, ar = self.ev(r)
            if cn:
                if op == "+=" and ar and ar[0] == "elemwrite":
                    rec = ar[2]
                    if not returns_counter(rec):
                        raise Refuse("%s::%s is used as a change count but does not return a counter it increments"
                                     % (rec[0], rec[2].get("name")))
                    return seq(er, ("countedWrite", ar[1], cn)), None
                return seq(er, self.consume_any(ar), ("kill", cn)), None
            el, al = self.ev(l)
            eff = [er, self.consume_any(ar) if not (ar and ar[0] in ("mut", "iter", "elem", "obj", "sig")) else SKIP, el]
            if al and al[0] in ("mut", "elem"):
                eff.append(("write", al[1]))
            elif al and al[0] == "sig":
                eff.append(("sigOther", al[1]))
            else:
                eff.append(self.consume(al))
            return seq(*eff), None
        el, al = self.ev(l)
        er, ar = self.ev(r)
        if op == ",":
            return seq(el, self.consume_any(al), er), ar
        # comparisons / arithmetic read their operands
        return seq(el, self.consume_any(al) if al and al[0] == "elemwrite" else SKIP,
                   er, self.consume_any(ar) if ar and ar[0] == "elemwrite" else SKIP), None

    ev_CompoundAssignOperator = ev_BinaryOperator

    def consume_any(self, acc):
        if acc and acc[0] == "elemwrite":
            return ("write", acc[1])
        if acc and acc[0] in ("method", "cmethod", "imethod", "smethod"):
            return SKIP
        return self.consume(acc)

    def ev_ConditionalOperator(self, n):
        c, t, e = kids(n)
        ec, ac = self.ev(c)
        et, at = self.ev(t)
        ee, ae = self.ev(e)
        s = seq(ec, self.consume_any(ac), ("ite", ("other",), seq(et), seq(ee)) if (et != SKIP or ee != SKIP) else SKIP)
        if at == ae:
            return s, at
        return seq(s, self.consume_any(at), self.consume_any(ae)), None

    def ev_CXXConstructExpr(self, n):
        # a constructor call: arguments bound to const references are reads; an object / content
        # passed by non-const reference escapes into the new object (e.g. i_mep::iterator(*this))
        eff, escaped = [], None
        for a in kids(n):
            e, acc = self.ev(a)
            eff.append(e)
            if acc and acc[0] == "elemwrite":
                eff.append(("write", acc[1]))
            elif acc and acc[0] == "obj" and not acc[2]:
                pass
            elif acc and acc[0] == "obj":
                if tracked_class(qt(n)):
                    pass                        # copy construction (handled by the declaration)
                else:
                    escaped = ("iter", acc[1])  # a handle on the object
            elif acc and acc[0] in ("mut", "iter"):
                escaped = ("iter", acc[1])
            elif acc and acc[0] == "sig":
                pass                            # a copy of the hash value
        return seq(*eff), escaped

    ev_CXXTemporaryObjectExpr = ev_CXXConstructExpr

    def ev_LambdaExpr(self, n):
        # the body may run any number of times, later: a loop at the point of definition
        eff = []
        for c in kids(n):
            if c.get("kind") == "CompoundStmt":
                self.scopes.append([])
                eff.append(("loop", self.stm(c, in_lambda=True)))
                self.scopes.pop()
            elif c.get("kind") == "CXXRecordDecl":
                continue
            else:
                e, acc = self.ev(c)
                eff += [e]
        s = seq(*eff)
        return (s if not is_trivial(s) else SKIP), None

    def ev_InitListExpr(self, n):
        return self.ev_default(n)

    # -- statements ---------------------------------------------------------------------------
    def stm(self, n, in_lambda=False):
        k = n.get("kind")
        if k == "CompoundStmt":
            self.scopes.append([])
            out = [self.stm(c, in_lambda) for c in kids(n)]
            self.scopes.pop()
            return seq(*out)
        if k == "NullStmt":
            return SKIP
        if k == "DeclStmt":
            return seq(*[self.decl_var(c) for c in kids(n) if c.get("kind") == "VarDecl"])
        if k == "IfStmt":
            ks = kids(n)
            pre = []
            if n.get("hasInit"):
                pre.append(self.stm(ks[0], in_lambda))
                ks = ks[1:]
            if n.get("hasVar"):
                pre.append(self.stm(ks[0], in_lambda))
                ks = ks[1:]
            cond, then = ks[0], ks[1]
            els = ks[2] if len(ks) > 2 else None
            g = ("other",)
            c = cond
            while c.get("kind") in ("ImplicitCastExpr", "ParenExpr") and len(kids(c)) == 1:
                c = kids(c)[0]
            cn = self.counter_name(c)
            if cn:
                g = ("nz", cn)
            ec, ac = self.ev(cond)
            t = self.stm(then, in_lambda)
            e = self.stm(els, in_lambda) if els else SKIP
            # `if (x.m(...))` / `if (!x.m(...))` on an inlined member: branch on the value it returned
            c, neg = cond, False
            while True:
                if c.get("kind") in ("ImplicitCastExpr", "ParenExpr", "ExprWithCleanups") and len(kids(c)) == 1:
                    c = kids(c)[0]
                elif c.get("kind") == "UnaryOperator" and c.get("opcode") == "!":
                    c, neg = kids(c)[0], not neg
                else:
                    break
            last = ec[1][-1] if ec[0] == "seq" else ec
            if c.get("kind") == "CXXMemberCallExpr" and last[0] == "call" and last[2] == SKIP and last[3] == SKIP \
                    and ac is None:
                first = list(ec[1][:-1]) if ec[0] == "seq" else []
                node = ("call", last[1], e, t) if neg else ("call", last[1], t, e)
                return seq(*pre, *first, node)
            body = SKIP if (t == SKIP and e == SKIP) else ("ite", g, t, e)
            return seq(*pre, ec, self.consume_any(ac), body)
        if k in ("ForStmt", "WhileStmt", "DoStmt"):
            self.scopes.append([])
            parts = []
            body_parts = []
            ks = [c for c in n.get("inner", []) if isinstance(c, dict)]
            if k == "ForStmt":
                init, _condvar, cond, inc, body = (ks + [{}] * 5)[:5]
                if init.get("kind"):
                    parts.append(self.stm(init, in_lambda) if init.get("kind") in STMT_KINDS else self.expr_stm(init))
                if cond.get("kind"):
                    body_parts.append(self.expr_stm(cond))
                if body.get("kind"):
                    body_parts.append(self.stm(body, in_lambda))
                if inc.get("kind"):
                    body_parts.append(self.expr_stm(inc))
            else:
                real = [c for c in ks if c.get("kind")]
                cond, body = (real[0], real[1]) if k == "WhileStmt" else (real[1], real[0])
                body_parts = [self.expr_stm(cond), self.stm(body, in_lambda)]
            self.scopes.pop()
            b = seq(*body_parts)
            return seq(*parts, ("loop", b) if b != SKIP else SKIP)
        if k == "CXXForRangeStmt":
            self.scopes.append([])
            ks = [c for c in n.get("inner", []) if isinstance(c, dict) and c.get("kind")]
            pre, body_parts = [], []
            # [init?] range, begin, end, cond, inc, loopvar, body
            decls = [c for c in ks if c.get("kind") == "DeclStmt"]
            others = [c for c in ks if c.get("kind") != "DeclStmt"]
            for d in decls[:-1]:
                pre.append(self.stm(d, in_lambda))
            body_parts.append(self.stm(decls[-1], in_lambda))
            for c in others[:-1]:
                body_parts.insert(0, self.expr_stm(c))
            body_parts.append(self.stm(others[-1], in_lambda) if others[-1].get("kind") in STMT_KINDS
                              else self.expr_stm(others[-1]))
            self.scopes.pop()
            b = seq(*body_parts)
            return seq(*pre, ("loop", b) if b != SKIP else SKIP)
        if k == "ReturnStmt":
            ks = kids(n)
            eff = []
            if ks:
                e, acc = self.ev(ks[0])
                eff.append(e)
                if acc and acc[0] == "elemwrite":
                    eff.append(("write", acc[1]))
                elif acc and acc[0] in ("mut", "iter", "elem") and not in_lambda:
                    if self.returns_handle():
                        eff.append(("handout", acc[1]))
                    # returned by value: a copy, nothing escapes
                elif acc and acc[0] in ("mut", "iter", "elem") and in_lambda:
                    pass
            if not in_lambda:
                v = "unk"
                if ks:
                    c = ks[0]
                    while c.get("kind") in ("ImplicitCastExpr", "ParenExpr", "ExprWithCleanups") and len(kids(c)) == 1:
                        c = kids(c)[0]
                    if c.get("kind") == "CXXBoolLiteralExpr":
                        v = "tt" if c.get("value") else "ff"
                eff.append(("ret", tuple(self.in_scope()), v))
            return seq(*eff)
        if k in ("BreakStmt", "ContinueStmt"):
            return SKIP     # loops are analysed as "any number of iterations of any prefix" (join at the head)
        if k == "SwitchStmt":
            ks = kids(n)
            ec, ac = self.ev(ks[0])
            body = self.stm(ks[-1], in_lambda)
            return seq(ec, self.consume_any(ac), ("loop", body) if body != SKIP else SKIP)
        if k in ("CaseStmt", "DefaultStmt"):
            ks = kids(n)
            return self.stm(ks[-1], in_lambda) if ks[-1].get("kind") in STMT_KINDS else self.expr_stm(ks[-1])
        if k in STMT_KINDS:
            raise Refuse("statement kind %s in %s::%s" % (k, self.cls, self.decl.get("name")))
        return self.expr_stm(n)

    def returns_handle(self):
        t = self.ret_type
        nt = norm_type(t)
        if nt.endswith("&") and not is_const_type(t):
            return True
        if nt.endswith("*") and not is_const_type(t):
            return True
        if "iterator" in nt and "const_iterator" not in nt:
            return True
        return False

    def expr_stm(self, n):
        e, acc = self.ev(n)
        return seq(e, self.consume_any(acc) if acc and acc[0] == "elemwrite" else SKIP)

    def decl_var(self, v):
        name = v.get("name")
        typ = qt(v)
        ks = kids(v)
        init = ks[-1] if ks else None
        is_ref = norm_type(typ).endswith("&")
        cls = tracked_class(typ)
        if cls and not is_ref and not norm_type(typ).endswith("*"):
            # a local object of a tracked class
            eff = []
            src = None
            if init is not None:
                e, acc = self.ev(init) if init.get("kind") != "CXXConstructExpr" else self.ctor_args(init)
                eff.append(e)
                src = acc
            self.scopes[-1].append(name)
            if src and src[0] == "obj":
                eff.append(("copy", name, src[1]))
            elif init is not None and init.get("kind") == "CXXConstructExpr" and not is_copy_ctor(init):
                eff.append(("construct", name))      # contract of the constructors: empty signature
            else:
                eff.append(("fresh", name))
            return seq(*eff)
        if init is None:
            if norm_type(dqt(v)) in {norm_type(t) for t in INT_TYPES}:
                self.counters.add(name)
            return SKIP
        e, acc = self.ev(init)
        if norm_type(dqt(v)) in {norm_type(t) for t in INT_TYPES} and not is_const_type(typ) and not is_ref:
            self.counters.add(name)
            return seq(e, self.consume_any(acc) if acc and acc[0] == "elemwrite" else SKIP)
        if acc and acc[0] in ("mut", "elem"):
            if is_ref and not is_const_type(typ):
                self.alias[name] = (acc[1], "elem" if cls else "ref")
                return e
            return e                          # a copy / const reference
        if acc and acc[0] == "iter":
            self.alias[name] = (acc[1], "iter")
            return e
        if acc and acc[0] == "obj" and is_ref and acc[2] and not is_const_type(typ):
            raise Refuse("non-const reference to a whole object: %s" % name)
        return seq(e, self.consume_any(acc) if acc and acc[0] == "elemwrite" else SKIP)

    def ctor_args(self, n):
        """constructor call initialising a local tracked object: copy of an object in scope?"""
        ks = kids(n)
        eff = []
        src = None
        for a in ks:
            e, acc = self.ev(a)
            eff.append(e)
            if acc and acc[0] == "obj" and len(ks) == 1:
                src = acc
            elif acc and acc[0] == "elemwrite":
                eff.append(("write", acc[1]))
        return seq(*eff), src

    # -- whole function ------------------------------------------------------------------------
    def run(self):
        d = self.decl
        eff = []
        for c in d.get("inner", []):
            if isinstance(c, dict) and c.get("kind") == "CXXCtorInitializer":
                fld = c.get("anyInit", {}).get("name")
                ks = kids(c)
                if fld == SIG:
                    if not (len(ks) == 1 and ks[0].get("kind") == "CXXConstructExpr" and
                            all(a.get("kind") == "CXXDefaultArgExpr" for a in kids(ks[0]))):
                        eff.append(("sigOther", "this"))
                elif fld in CONTENT:
                    for k in ks:
                        e, acc = self.ev(k)
                        eff.append(e)
                    eff.append(("write", "this"))
                else:
                    for k in ks:
                        e, acc = self.ev(k)
                        eff.append(e)
        for c in kids(d):
            if c.get("kind") == "ParmVarDecl":
                t = qt(c)
                if tracked_class(t) and norm_type(t).endswith("&") and not is_const_type(t):
                    raise Refuse("non-const reference parameter %s of %s::%s" % (c.get("name"), self.cls, d.get("name")))
            if c.get("kind") == "CompoundStmt":
                eff.append(self.stm(c))
        sk0 = seq(*eff)
        last = sk0[1][-1] if sk0[0] == "seq" else sk0
        if self.kind == "ctor":
            eff.append(("retc", ("this",)))
        elif last[0] != "ret":
            eff.append(("ret", tuple(["this"] if self.kind != "friend" else []), "unk"))
        sk = seq(*eff)
        return simplify(sk, used_counters(sk))


def is_copy_ctor(n):
    """CXXConstructExpr calling the copy / move constructor of its own class"""
    ct = n.get("ctorType", {}).get("qualType", "")
    cls = tracked_class(qt(n))
    inside = ct[ct.find("(") + 1:ct.rfind(")")]
    if "," in inside or not inside.strip():
        return False
    return tracked_class(inside.replace("&&", "&")) == cls


def is_empty_hash(n):
    """`hash_t()` / `hash_t{}` / `{}`: a default constructed (all zero = empty) hash"""
    while n.get("kind") in ("ExprWithCleanups", "MaterializeTemporaryExpr", "CXXBindTemporaryExpr",
                            "ImplicitCastExpr", "ParenExpr", "CXXFunctionalCastExpr") and len(kids(n)) == 1:
        n = kids(n)[0]
    if n.get("kind") in ("CXXTemporaryObjectExpr", "CXXConstructExpr") and "hash_t" in qt(n):
        return all(a.get("kind") == "CXXDefaultArgExpr" for a in kids(n))
    if n.get("kind") == "InitListExpr" and "hash_t" in qt(n) and not kids(n):
        return True
    return False


def touches_handout(s):
    k = s[0]
    if k == "handout":
        return True
    if k == "seq":
        return any(touches_handout(x) for x in s[1])
    if k == "call":
        return any(touches_handout(x) for x in s[1:])
    if k == "ite":
        return touches_handout(s[2]) or touches_handout(s[3])
    if k == "loop":
        return touches_handout(s[1])
    return False


def returns_counter(rec):
    """syntactic contract check: the function returns a local integer that it increments"""
    body = rec[1]
    if body is None:
        return False
    incs, rets = set(), []

    def walk(n):
        if n.get("kind") == "UnaryOperator" and n.get("opcode") == "++":
            c = kids(n)[0]
            if c.get("kind") == "DeclRefExpr":
                incs.add(c.get("referencedDecl", {}).get("name"))
        if n.get("kind") == "CompoundAssignOperator" and n.get("opcode") == "+=":
            c = kids(n)[0]
            if c.get("kind") == "DeclRefExpr":
                incs.add(c.get("referencedDecl", {}).get("name"))
        if n.get("kind") == "ReturnStmt":
            c = kids(n)[0] if kids(n) else {}
            while c.get("kind") in ("ImplicitCastExpr", "ParenExpr") and len(kids(c)) == 1:
                c = kids(c)[0]
            rets.append(c.get("referencedDecl", {}).get("name") if c.get("kind") == "DeclRefExpr" else None)
        for c in n.get("inner", []):
            if isinstance(c, dict):
                walk(c)

    walk(body)
    return bool(rets) and all(r is not None and r in incs for r in rets)


# ---------------------------------------------------------------------------------------------
def translate_all():
    ix = build_index()
    memo = {}
    stack = []
    recursive = set()

    def translate(rec):
        key = id(rec[2])
        if key in memo:
            return memo[key]
        if key in stack:
            recursive.add(key)      # checked below: a recursive function must have no effect
            return SKIP
        stack.append(key)
        cls, body_decl, decl, access = rec
        kind = "ctor" if decl.get("kind") == "CXXConstructorDecl" else "method"
        w = Walker(ix, cls, body_decl, kind, translate)
        sk = w.run()
        stack.pop()
        if key in recursive and not is_trivial(sk):
            raise Refuse("recursive member function with effects: %s::%s" % (cls, decl.get("name")))
        memo[key] = sk
        return sk

    methods = []
    for cls in ("i_mep", "i_ga", "i_de", "team", "individual"):
        if cls not in ix.classes:
            raise Refuse("class %s not found in the AST" % cls)
        for decl, access in ix.classes[cls]:
            rec = ix.by_id[decl["id"]]
            if rec[1] is None:
                if decl.get("explicitlyDefaulted") or decl.get("isImplicit"):
                    continue
                if decl.get("kind") == "CXXConstructorDecl" and decl.get("explicitlyDefaulted") == "default":
                    continue
                # declared but never defined in the translation unit (e.g. pure declarations)
                raise Refuse("no definition found for %s::%s" % (cls, decl.get("name")))
            sk = translate(rec)
            kind = "ctor" if decl.get("kind") == "CXXConstructorDecl" else "method"
            methods.append({"cls": cls, "name": decl.get("name"), "kind": kind, "access": access,
                            "const": qt(decl).rstrip().endswith("const"), "type": qt(decl), "body": sk})
    seen = set()
    for f in ix.friends:
        key = qt(f)
        if key in seen:
            continue
        seen.add(key)
        cls = tracked_class(qt(f).split("(")[0]) or "?"
        w = Walker(ix, cls, f, "friend", translate)
        sk = w.run()
        methods.append({"cls": cls, "name": f.get("name"), "kind": "friend", "access": "public",
                        "const": False, "type": qt(f), "body": sk})
    return methods


def last_reset(s, obj):
    """the kind of the last `reset obj` in the skeleton (none if there is none)"""
    k = s[0]
    if k == "reset" and s[1] == obj:
        return s[2]
    if k == "seq":
        for x in reversed(s[1]):
            r = last_reset(x, obj)
            if r:
                return r
    if k == "call":
        return last_reset(s[3], obj) or last_reset(s[2], obj) or last_reset(s[1], obj)
    if k == "ite":
        return last_reset(s[2], obj) or last_reset(s[3], obj)
    if k == "loop":
        return last_reset(s[1], obj)
    return None


def written_objects(s, acc=None):
    acc = acc if acc is not None else []
    k = s[0]
    if k in ("write", "countedWrite", "handout") and s[1] not in acc:
        acc.append(s[1])
    if k == "seq":
        for x in s[1]:
            written_objects(x, acc)
    if k == "call":
        for x in s[1:]:
            written_objects(x, acc)
    if k == "ite":
        written_objects(s[2], acc)
        written_objects(s[3], acc)
    if k == "loop":
        written_objects(s[1], acc)
    return acc


def render(methods):
    out = ["-- GENERATED by tools/translate_mutators.py from the clang AST of the current sources.",
           "-- Do not edit: regenerated on every run of checks/c03.py.",
           "import Vita.C03.Eff", "", "namespace Vita.C03.GenMutators", "open Vita.C03.Eff", ""]
    table, resets, trivial = [], [], []
    for i, m in enumerate(methods):
        if m["access"] != "public":
            continue
        if is_trivial(m["body"]):
            trivial.append("%s::%s" % (m["cls"], m["name"]))
            continue
        dn = "m%d" % len(table)
        out.append("/-- `%s::%s` : `%s` -/" % (m["cls"], m["name"], m["type"]))
        out.append("def %s : Method := {" % dn)
        out.append('  cls := "%s", name := "%s", kind := "%s", access := "%s",' % (m["cls"], m["name"], m["kind"], m["access"]))
        out.append("  body :=\n    %s }" % lean(m["body"]))
        out.append("")
        table.append(dn)
        wo = written_objects(m["body"])
        for o in wo:
            r = last_reset(m["body"], o) or "none"
            resets.append((m["cls"], m["name"], r))
            break
    out.append("def table : List Method := [%s]" % ", ".join(table))
    out.append("")
    out.append("/-- how each content-changing member treats `signature_` of the object it changes -/")
    out.append("def resets : List (String × String × ResetKind) := [")
    seen = {}
    for c, n, r in resets:
        key = (c, n)
        # overloads: the weakest treatment wins (none < recompute/clear)
        if key in seen and seen[key] != "none" and r != "none":
            continue
        if key in seen and r != "none":
            continue
        seen[key] = r
    out.append(",\n".join('  ("%s", "%s", .%s)' % (c, n, r) for (c, n), r in seen.items()))
    out.append("]")
    out.append("")
    out.append("def resetOf (cls name : String) : ResetKind :=")
    out.append("  match resets.find? (fun e => e.1 == cls && e.2.1 == name) with")
    out.append("  | some e => e.2.2")
    out.append("  | none => .none")
    out.append("")
    out.append("-- public members without any effect on content or signature_: " + ", ".join(trivial))
    out.append("")
    out.append("end Vita.C03.GenMutators")
    return "\n".join(out) + "\n", table, trivial


def emit(path):
    methods = translate_all()
    text, table, trivial = render(methods)
    old = open(path).read() if os.path.exists(path) else ""
    if old != text:
        with open(path, "w") as f:
            f.write(text)
    names = ["%s::%s" % (m["cls"], m["name"]) for m in methods
             if m["access"] == "public" and not is_trivial(m["body"])]
    return {"methods": names, "changed": old != text, "trivial": trivial}


if __name__ == "__main__":
    ms = translate_all()
    for m in ms:
        if len(sys.argv) > 1 and sys.argv[1] not in ("%s::%s" % (m["cls"], m["name"])):
            continue
        print("%s %s::%s [%s]%s" % (m["access"], m["cls"], m["name"], m["kind"], " trivial" if is_trivial(m["body"]) else ""))
        if not is_trivial(m["body"]) or len(sys.argv) > 1:
            print("    " + lean(m["body"]))
