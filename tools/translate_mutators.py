def emit(path):
    return {"methods": [], "changed": False}
