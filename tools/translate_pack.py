#!/usr/bin/env python3
"""C03 – translate, from the clang AST of /repo's *current* working tree (syntax only), the
functions that turn an individual into a signature -> lean/Vita/C03/GenPack.lean:

  i_mep::pack            -> PackSyn.PStm          opcode bytes / recursion over arguments / parameter bytes
  i_mep::hash            -> PackSyn.MepHashSyn    scratch buffer (storage class), clear, pack(best()), hash128
  team<i_mep>::hash      -> PackSyn.TeamHashSyn   fold of hash_t::combine over the members' signatures
  i_ga::hash, i_de::hash -> PackSyn.VecHashSyn    raw bytes of the genome vector
  hash_t::combine        -> List USyn.UStm
  murmurhash3::hash128 (+ fmix, rotl64, get_block) -> USyn.MurmurSyn

Only the shapes described in Vita/C03/PackSyn.lean and USyn.lean are accepted; anything else is
refused (`Refuse`): a translator must never skip code it does not understand."""
import os
import sys

sys.path.insert(0, os.path.dirname(os.path.abspath(__file__)))
from cxx2lean import Refuse  # noqa: E402
import translate_sigpath as SP  # noqa: E402

inner = SP.inner
WRAPPERS = {"ExprWithCleanups", "MaterializeTemporaryExpr", "CXXBindTemporaryExpr", "ParenExpr", "ConstantExpr"}
UNSIGNED = {"unsigned char": 8, "unsigned short": 16, "unsigned int": 32, "unsigned long": 64,
            "unsigned long long": 64}
SIZEOF = {"unsigned char": 1, "unsigned short": 2, "unsigned int": 4, "unsigned long": 8, "int": 4, "double": 8,
          "float": 4, "std::byte": 1, "long": 8, "short": 2, "char": 1, "enum std::byte": 1}


def dq(n):
    t = n.get("type", {})
    return t.get("desugaredQualType", t.get("qualType", ""))


TYPEDEFS = (("std::uint_least64_t", "unsigned long"), ("std::uint64_t", "unsigned long"),
            ("std::size_t", "unsigned long"), ("std::uint32_t", "unsigned int"), ("std::uint16_t", "unsigned short"),
            ("std::uint8_t", "unsigned char"), ("vita::terminal_param_t", "double"), ("vita::opcode_t", "unsigned int"))


def bare(t):
    t = t.strip()
    for a, b in TYPEDEFS:
        t = t.replace(a, b)
    while t.startswith("const "):
        t = t[6:].strip()
    if t.endswith(" const"):
        t = t[:-6].strip()
    return t


def peel(n, casts=("NoOp", "LValueToRValue")):
    while True:
        k = n.get("kind")
        cs = inner(n)
        if k in WRAPPERS and len(cs) == 1:
            n = cs[0]
        elif k == "ImplicitCastExpr" and n.get("castKind") in casts and len(cs) == 1:
            n = cs[0]
        else:
            return n


def find_fn(ix, qname, pred=None):
    c = [i for i, n in ix.funcs.items() if ix.info[i]["name"] == qname and SP.has_body(n) and
         not ix.info[i]["dependent"] and (pred is None or pred(n))]
    if len(c) != 1:
        raise Refuse("expected exactly one definition of %s, found %d" % (qname, len(c)))
    return ix.funcs[c[0]]


def body_stmts(fn):
    b = [c for c in inner(fn) if c.get("kind") == "CompoundStmt"]
    return flatten(inner(b[0]))


def flatten(stmts):
    out = []
    for s in stmts:
        if s.get("kind") == "CompoundStmt":
            out += flatten(inner(s))
        elif s.get("kind") == "NullStmt":
            continue
        elif is_void0(s):
            continue
        else:
            out.append(s)
    return out


def is_void0(s):
    """`assert(..)` / `Expects(..)` with NDEBUG: `(static_cast<void>(0))`"""
    s = peel(s)
    return s.get("kind") in ("CXXStaticCastExpr", "CStyleCastExpr") and s.get("castKind") == "ToVoid" and \
        peel(inner(s)[0]).get("kind") == "IntegerLiteral"


def ref_name(n):
    n = peel(n, ("NoOp", "LValueToRValue", "FunctionToPointerDecay"))
    if n.get("kind") == "DeclRefExpr":
        return n.get("referencedDecl", {}).get("name")
    return None


def member_call(n):
    """(method name, object expr, args) of a CXXMemberCallExpr"""
    n = peel(n)
    if n.get("kind") != "CXXMemberCallExpr":
        return None
    cs = inner(n)
    me = cs[0]
    if me.get("kind") != "MemberExpr":
        return None
    return me.get("name"), (inner(me)[0] if inner(me) else None), cs[1:]


def is_this_member(n, name):
    n = peel(n, ("NoOp", "LValueToRValue", "UncheckedDerivedToBase"))
    if n.get("kind") != "MemberExpr" or n.get("name") != name:
        return False
    b = peel(inner(n)[0], ("NoOp", "LValueToRValue", "UncheckedDerivedToBase"))
    return b.get("kind") == "CXXThisExpr"


def int_lit(n):
    n = peel(n, ("NoOp", "LValueToRValue", "IntegralCast"))
    if n.get("kind") == "IntegerLiteral":
        return int(n.get("value"))
    return None


def sizeof_of(n, env_types):
    """value of `sizeof(x)` / `sizeof(T)`"""
    n = peel(n, ("NoOp", "LValueToRValue", "IntegralCast"))
    if n.get("kind") != "UnaryExprOrTypeTraitExpr" or n.get("name") != "sizeof":
        return None
    if "argType" in n:
        t = bare(n["argType"].get("desugaredQualType", n["argType"].get("qualType", "")))
    else:
        t = bare(dq(inner(n)[0]))
    if t not in SIZEOF:
        raise Refuse("sizeof of a type the translator does not know: %r" % t)
    return SIZEOF[t]


# ---------------------------------------------------------------------------------------------
# i_mep::pack
# ---------------------------------------------------------------------------------------------
class PackTr:
    def __init__(self, fn):
        self.fn = fn
        ps = [c for c in inner(fn) if c.get("kind") == "ParmVarDecl"]
        if len(ps) != 2:
            raise Refuse("pack: two parameters expected")
        self.locus, self.out = ps[0].get("name"), ps[1].get("name")
        self.gene = None
        self.vals = {}      # local -> (PVal term, object size in bytes)
        self.ptrs = {}      # local byte pointer -> local whose bytes it designates
        self.flags = {}     # local -> "arity"

    def gene_expr(self, n, field):
        """g.<field> / g.sym-><method>()"""
        n = peel(n)
        if n.get("kind") == "MemberExpr" and n.get("name") == field and ref_name(inner(n)[0]) == self.gene:
            return True
        return False

    def sym_call(self, n, method):
        mc = member_call(n)
        if mc and mc[0] == method and not mc[2] and mc[1] is not None and self.gene_expr(mc[1], "sym"):
            return True
        return False

    def value(self, n):
        """(term, size) of an rvalue built from the gene"""
        k = n.get("kind")
        cs = inner(n)
        if k in WRAPPERS and len(cs) == 1:
            return self.value(cs[0])
        if k in ("ImplicitCastExpr", "CXXStaticCastExpr", "CStyleCastExpr", "CXXFunctionalCastExpr"):
            ck = n.get("castKind")
            if ck in ("NoOp", "LValueToRValue"):
                return self.value(cs[0])
            v, _ = self.value(cs[0])
            t = bare(dq(n))
            if ck == "IntegralCast" and t in UNSIGNED:
                return "(.castU %d %s)" % (UNSIGNED[t], v), UNSIGNED[t] // 8
            if ck == "FloatingCast" and t == "float":
                return "(.castF32 %s)" % v, 4
            if t not in SIZEOF:
                raise Refuse("pack: conversion to %r" % t)
            return "(.castOther %s)" % v, SIZEOF[t]
        if self.sym_call(n, "opcode"):
            return ".opcode", 4
        if self.gene_expr(n, "par"):
            if bare(dq(n)) != "double":
                raise Refuse("pack: gene::par is not a double (%s)" % dq(n))
            return ".par", 8
        if k == "DeclRefExpr" and ref_name(n) in self.vals:
            return self.vals[ref_name(n)]
        raise Refuse("pack: value expression not understood (%s)" % k)

    def cond(self, n):
        n = peel(n, ("NoOp", "LValueToRValue", "IntegralToBoolean"))
        if n.get("kind") == "DeclRefExpr" and self.flags.get(ref_name(n)) == "arity":
            return "arity"
        if self.sym_call(n, "arity"):
            return "arity"
        mc = member_call(n)
        if mc and mc[0] == "parametric" and not mc[2]:
            o = peel(mc[1])
            if o.get("kind") == "CallExpr" and ref_name(inner(o)[0]) == "cast" and len(inner(o)) == 2 and \
                    "terminal" in dq(o) and self.gene_expr(inner(o)[1], "sym"):
                return "param"
        raise Refuse("pack: condition not understood")

    def push_loop(self, s):
        """for (size_t i(lo); i < hi; ++i) out->push_back(ptr[i]);"""
        cs = [c for c in s.get("inner", [])]
        init, cnd, inc, body = cs[0], cs[2], cs[3], cs[4]
        if not (isinstance(init, dict) and init.get("kind") == "DeclStmt" and len(inner(init)) == 1):
            raise Refuse("pack: loop initialisation")
        iv = inner(init)[0]
        lo = int_lit(inner(iv)[0]) if inner(iv) else None
        if lo is None:
            raise Refuse("pack: loop does not start at a literal")
        c = peel(cnd)
        if c.get("kind") != "BinaryOperator" or c.get("opcode") != "<" or ref_name(inner(c)[0]) != iv.get("name"):
            raise Refuse("pack: loop condition is not `i < n`")
        hi = sizeof_of(inner(c)[1], None)
        if hi is None:
            hi = int_lit(inner(c)[1])
        if hi is None:
            raise Refuse("pack: loop bound is neither sizeof nor a literal")
        if not (inc.get("kind") == "UnaryOperator" and inc.get("opcode") == "++" and ref_name(inner(inc)[0]) == iv.get("name")):
            raise Refuse("pack: loop increment is not ++i")
        bs = flatten([body])
        if len(bs) != 1:
            raise Refuse("pack: loop body is not a single statement")
        mc = member_call(bs[0])
        if not (mc and mc[0] == "push_back" and ref_name(mc[1]) == self.out and len(mc[2]) == 1):
            raise Refuse("pack: loop body is not out->push_back(..)")
        a = peel(mc[2][0])
        if a.get("kind") != "ArraySubscriptExpr" or ref_name(inner(a)[1]) != iv.get("name"):
            raise Refuse("pack: pushed byte is not ptr[i]")
        ptr = ref_name(inner(a)[0])
        if ptr not in self.ptrs:
            raise Refuse("pack: pushed byte does not come from a byte view of a local")
        v, size = self.vals[self.ptrs[ptr]]
        return "(.pushBytes %s %d %d)" % (v, lo, hi)

    def stmts(self, ss):
        out = []
        for s in ss:
            k = s.get("kind")
            if k == "DeclStmt":
                for v in inner(s):
                    self.decl(v)
            elif k == "ForStmt":
                out.append(self.push_loop(s))
            elif k == "IfStmt":
                cs = inner(s)
                c = self.cond(cs[0])
                t = self.stmts(flatten([cs[1]]))
                e = self.stmts(flatten([cs[2]])) if len(cs) > 2 else ".skip"
                out.append("(.%s %s %s)" % ("ifArity" if c == "arity" else "ifParam", t, e))
            elif k == "CXXForRangeStmt":
                out.append(self.for_args(s))
            else:
                raise Refuse("pack: statement kind %s" % k)
        if not out:
            return ".skip"
        r = out[-1]
        for x in reversed(out[:-1]):
            r = "(.seq %s %s)" % (x, r)
        return r

    def decl(self, v):
        name, t = v.get("name"), bare(dq(v))
        if not inner(v):
            raise Refuse("pack: uninitialised local %s" % name)
        e = inner(v)[0]
        if self.gene is None:
            # const gene &g(genome_(l));
            p = peel(e)
            ok = p.get("kind") == "CXXOperatorCallExpr" and len(inner(p)) == 3 and \
                ref_name(inner(p)[0]) == "operator()" and is_this_member(inner(p)[1], "genome_") and \
                ref_name(inner(p)[2]) == self.locus
            if not ok:
                raise Refuse("pack: the first declaration is not `g(genome_(l))`")
            self.gene = name
            return
        p = peel(e)
        if p.get("kind") == "CXXReinterpretCastExpr" and t.replace(" ", "").replace("const", "") in ("std::byte*", "unsignedchar*", "char*", "enumstd::byte*"):
            a = peel(inner(p)[0])
            if a.get("kind") == "UnaryOperator" and a.get("opcode") == "&" and ref_name(inner(a)[0]) in self.vals:
                self.ptrs[name] = ref_name(inner(a)[0])
                return
            raise Refuse("pack: byte view of something that is not a local value")
        if self.sym_call(e, "arity"):
            self.flags[name] = "arity"
            return
        val, size = self.value(e)
        # the object has the declared type: implicit conversion at initialisation
        if t in UNSIGNED and UNSIGNED[t] // 8 != size:
            val, size = "(.castU %d %s)" % (UNSIGNED[t], val), UNSIGNED[t] // 8
        elif t == "float" and size != 4:
            val, size = "(.castF32 %s)" % val, 4
        elif t in SIZEOF and SIZEOF[t] != size:
            val, size = "(.castOther %s)" % val, SIZEOF[t]
        self.vals[name] = (val, size)

    def for_args(self, s):
        cs = s.get("inner", [])
        rng = [c for c in cs if isinstance(c, dict) and c.get("kind") == "DeclStmt"]
        if not rng:
            raise Refuse("pack: range-for without range")
        r = peel(inner(inner(rng[0])[0])[0])
        mc = member_call(r)
        if not (mc and mc[0] == "arguments" and ref_name(mc[1]) == self.gene and not mc[2]):
            raise Refuse("pack: range-for over something that is not g.arguments()")
        loopvar = inner(rng[-1])[0].get("name")
        body = flatten([cs[-1]])
        if len(body) != 1:
            raise Refuse("pack: body of the range-for is not a single call")
        mc = member_call(body[0])
        if not (mc and mc[0] == "pack" and peel(mc[1]).get("kind") == "CXXThisExpr" and len(mc[2]) == 2 and
                ref_name(mc[2][0]) == loopvar and ref_name(mc[2][1]) == self.out):
            raise Refuse("pack: body of the range-for is not pack(al, p)")
        return ".forArgs"

    def run(self):
        return self.stmts(body_stmts(self.fn))


# ---------------------------------------------------------------------------------------------
# i_mep::hash, i_ga::hash, i_de::hash, team::hash
# ---------------------------------------------------------------------------------------------
def hash128_call(s):
    """return hash128(<data>, <len>) -> (data expr, len expr)"""
    if s.get("kind") != "ReturnStmt":
        raise Refuse("hash: last statement is not a return")
    c = peel(inner(s)[0])
    while c.get("kind") == "CXXConstructExpr" and len(inner(c)) == 1:
        c = peel(inner(c)[0])
    if c.get("kind") != "CallExpr" or ref_name(inner(c)[0]) != "hash128":
        raise Refuse("hash: return value is not hash128(..)")
    a = inner(c)[1:]
    if len(a) != 3 or a[2].get("kind") != "CXXDefaultArgExpr":
        raise Refuse("hash: hash128 is not called with (data, len) and the default seed")
    return a[0], a[1]


def size_times(n, obj_pred, lens):
    """n = <obj>.size() * sizeof(..)  -> factor (or 1 for plain size())"""
    n = peel(n, ("NoOp", "LValueToRValue", "IntegralCast"))
    if n.get("kind") == "DeclRefExpr" and ref_name(n) in lens:
        return lens[ref_name(n)]
    mc = member_call(n)
    if mc and mc[0] == "size" and obj_pred(mc[1]):
        return 1
    if n.get("kind") == "BinaryOperator" and n.get("opcode") == "*":
        a, b = inner(n)
        for x, y in ((a, b), (b, a)):
            mc = member_call(x)
            if mc and mc[0] == "size" and obj_pred(mc[1]):
                f = sizeof_of(y, None)
                if f is None:
                    f = int_lit(y)
                if f is not None:
                    return f
    raise Refuse("hash: length expression not understood")


def tr_mep_hash(fn):
    ss = body_stmts(fn)
    buf, storage, ops, lens = None, None, [], {}
    for s in ss[:-1]:
        k = s.get("kind")
        if k == "DeclStmt":
            for v in inner(s):
                t = bare(dq(v))
                if t.startswith("std::vector<std::byte") or t.startswith("std::vector<unsigned char"):
                    if buf is not None:
                        raise Refuse("i_mep::hash: two buffers")
                    buf = v.get("name")
                    storage = "threadLocal" if v.get("tls") else ("static" if v.get("storageClass") == "static" else "automatic")
                    ctor = [c for c in inner(v) if c.get("kind") == "CXXConstructExpr"]
                    if not ctor or inner(ctor[0]):
                        raise Refuse("i_mep::hash: the buffer is not default constructed")
                elif buf is not None and inner(v):
                    lens[v.get("name")] = size_times(inner(v)[0], lambda o: ref_name(o) == buf, lens)
                else:
                    raise Refuse("i_mep::hash: declaration of %s" % v.get("name"))
            continue
        mc = member_call(s)
        if mc and mc[0] == "clear" and ref_name(mc[1]) == buf and not mc[2]:
            ops.append(".clear")
            continue
        if mc and mc[0] == "pack" and peel(mc[1]).get("kind") == "CXXThisExpr" and len(mc[2]) == 2:
            b = member_call(mc[2][0])
            a = peel(mc[2][1])
            if b and b[0] == "best" and peel(b[1]).get("kind") == "CXXThisExpr" and \
                    a.get("kind") == "UnaryOperator" and a.get("opcode") == "&" and ref_name(inner(a)[0]) == buf:
                ops.append(".packBest")
                continue
        raise Refuse("i_mep::hash: statement kind %s not understood" % k)
    d, ln = hash128_call(ss[-1])
    dm = member_call(peel(d, ("NoOp", "LValueToRValue", "BitCast")))
    hashes = bool(dm and dm[0] == "data" and ref_name(dm[1]) == buf)
    f = size_times(ln, lambda o: ref_name(o) == buf, lens)
    return "⟨.%s, [%s], %d, %s⟩" % (storage, ", ".join(ops), f, "true" if hashes else "false")


def tr_vec_hash(fn, elem):
    ss = body_stmts(fn)
    lens = {}
    is_g = lambda o: is_this_member(o, "genome_")
    for s in ss[:-1]:
        if s.get("kind") != "DeclStmt":
            raise Refuse("vector hash: statement kind %s" % s.get("kind"))
        for v in inner(s):
            lens[v.get("name")] = size_times(inner(v)[0], is_g, lens)
    d, ln = hash128_call(ss[-1])
    dm = member_call(peel(d, ("NoOp", "LValueToRValue", "BitCast")))
    ok = bool(dm and dm[0] == "data" and is_g(dm[1]))
    et = bare(dq(dm[1])) if dm else ""
    want = "std::vector<%s" % elem
    if not et.startswith(want):
        raise Refuse("vector hash: genome_ is %s, expected %s" % (et, want))
    return "⟨%d, %d, %s⟩" % (SIZEOF[elem], size_times(ln, is_g, lens), "true" if ok else "false")


def tr_team_hash(fn):
    ss = body_stmts(fn)
    if len(ss) != 3:
        raise Refuse("team::hash: three statements expected, found %d" % len(ss))
    d = ss[0]
    if d.get("kind") != "DeclStmt" or len(inner(d)) != 1:
        raise Refuse("team::hash: first statement is not the declaration of the accumulator")
    acc = inner(d)[0]
    ctor = [c for c in inner(acc) if c.get("kind") == "CXXConstructExpr"]
    init_zero = bare(dq(acc)) == "vita::hash_t" and len(ctor) == 1 and \
        all(c.get("kind") == "CXXDefaultArgExpr" for c in inner(ctor[0]))
    c = peel(ss[1])
    if c.get("kind") != "CallExpr" or ref_name(inner(c)[0]) != "for_each" or len(inner(c)) != 4:
        raise Refuse("team::hash: second statement is not std::for_each(first, last, f)")
    first, last, lam = inner(c)[1:]

    def it(n, name):
        mc = member_call(n)
        if mc and mc[0] == name and not mc[2]:
            o = peel(mc[1])
            return o.get("kind") == "CXXThisExpr" or is_this_member(o, "individuals_")
        return False
    if it(first, "begin") and it(last, "end"):
        forward = True
    elif it(first, "rbegin") and it(last, "rend"):
        forward = False
    else:
        raise Refuse("team::hash: range of the for_each not understood")
    lam = peel(lam)
    while lam.get("kind") == "CXXConstructExpr" and len(inner(lam)) == 1:
        lam = peel(inner(lam)[0])
    if lam.get("kind") != "LambdaExpr":
        raise Refuse("team::hash: the function object is not a lambda")
    rec = [x for x in inner(lam) if x.get("kind") == "CXXRecordDecl"][0]
    call = [x for x in inner(rec) if x.get("kind") == "CXXMethodDecl" and x.get("name") == "operator()"][0]
    par = [x for x in inner(call) if x.get("kind") == "ParmVarDecl"]
    body = body_stmts(call)
    step = "other"
    if len(par) == 1 and len(body) == 1:
        mc = member_call(body[0])
        if mc and mc[0] == "combine" and ref_name(mc[1]) == acc.get("name") and len(mc[2]) == 1:
            a = peel(mc[2][0])
            while a.get("kind") == "CXXConstructExpr" and len(inner(a)) == 1:
                a = peel(inner(a)[0])
            sc = member_call(a)
            if sc and sc[0] == "signature" and ref_name(sc[1]) == par[0].get("name") and not sc[2]:
                step = "accCombineSig"
    r = peel(inner(ss[2])[0]) if ss[2].get("kind") == "ReturnStmt" else {}
    while r.get("kind") == "CXXConstructExpr" and len(inner(r)) == 1:
        r = peel(inner(r)[0])
    returns = ref_name(r) == acc.get("name")
    return "⟨%s, %s, .%s, %s⟩" % ("true" if init_zero else "false", "true" if forward else "false", step,
                                "true" if returns else "false")


# ---------------------------------------------------------------------------------------------
# 64-bit integer code: combine, hash128, fmix, rotl64, get_block
# ---------------------------------------------------------------------------------------------
BINOPS = {"*": "mul", "+": "add", "-": "sub", "^": "xor", "|": "or", "<<": "shl", ">>": "shr"}


class UTr:
    """expressions / assignments over the registers; `names` maps C lvalues to registers"""

    def __init__(self, names, consts=None, params=None, loopvar=None, tailptr=None, blocks=None):
        self.names = dict(names)           # local variable -> register
        self.consts = dict(consts or {})   # const local -> literal value
        self.params = dict(params or {})   # parameter name -> term
        self.loopvar, self.tailptr, self.blocks = loopvar, tailptr, blocks
        self.hvar = None                   # local hash_t whose data[0/1] are h0/h1
        self.hreg = {}                     # (object name or "this", index) -> register

    def lvalue(self, n):
        n = peel(n, ("NoOp",))
        if n.get("kind") == "DeclRefExpr" and ref_name(n) in self.names:
            return self.names[ref_name(n)]
        if n.get("kind") == "ArraySubscriptExpr":
            a, i = inner(n)
            a = peel(a, ("NoOp", "ArrayToPointerDecay"))
            idx = int_lit(i)
            if a.get("kind") == "MemberExpr" and a.get("name") == "data" and idx in (0, 1):
                b = peel(inner(a)[0])
                key = ("this" if b.get("kind") == "CXXThisExpr" else ref_name(b), idx)
                if key in self.hreg:
                    return self.hreg[key]
        return None

    def expr(self, n):
        k = n.get("kind")
        cs = inner(n)
        if k in WRAPPERS and len(cs) == 1:
            return self.expr(cs[0])
        if k in ("ImplicitCastExpr", "CXXFunctionalCastExpr", "CXXStaticCastExpr", "CStyleCastExpr"):
            ck = n.get("castKind")
            t = bare(dq(n))
            if ck in ("NoOp", "LValueToRValue"):
                return self.expr(cs[0])
            if ck == "IntegralCast":
                src = bare(dq(cs[0]))
                # widening (or same width) conversions between unsigned types / of non-negative
                # literals / of std::byte keep the value; `int` operands of shifts are literals
                if t in ("unsigned long", "unsigned long long") or \
                        (t in ("unsigned char", "int", "unsigned int", "long") and int_lit(n) is not None):
                    if src in ("unsigned long", "unsigned int", "unsigned char", "std::byte", "enum std::byte",
                               "unsigned short") or int_lit(cs[0]) is not None:
                        return self.expr(cs[0])
                raise Refuse("integer conversion %s -> %s" % (src, t))
            raise Refuse("cast kind %s" % ck)
        if k == "IntegerLiteral":
            return "(.lit %d)" % int(n.get("value"))
        lv = self.lvalue(n)
        if lv is not None:
            return "(.reg .%s)" % lv
        if k == "DeclRefExpr":
            nm = ref_name(n)
            if nm in self.consts:
                return "(.lit %d)" % self.consts[nm]
            if nm in self.params:
                return self.params[nm]
            raise Refuse("reference to %s" % nm)
        if k == "BinaryOperator" and n.get("opcode") in BINOPS:
            return "(.%s %s %s)" % (BINOPS[n.get("opcode")], self.expr(cs[0]), self.expr(cs[1]))
        if k == "CallExpr":
            f = ref_name(cs[0])
            if f == "rotl64" and len(cs) == 3:
                return "(.rotl %s %s)" % (self.expr(cs[1]), self.expr(cs[2]))
            if f == "fmix" and len(cs) == 2 and bare(dq(n)) == "unsigned long" and bare(dq(cs[1])) == "unsigned long":
                return "(.fmix %s)" % self.expr(cs[1])
            if f == "get_block" and len(cs) == 3 and self.blocks and ref_name(cs[1]) == self.blocks:
                return self.block_index(cs[2])
            raise Refuse("call of %s" % f)
        if k == "ArraySubscriptExpr" and self.tailptr and ref_name(cs[0]) == self.tailptr:
            j = int_lit(cs[1])
            if j is None:
                raise Refuse("tail index is not a literal")
            return "(.tailByte %d)" % j
        raise Refuse("expression kind %s" % k)

    def block_index(self, n):
        """i * two + plus"""
        n = peel(n, ("NoOp", "LValueToRValue", "IntegralCast"))
        if n.get("kind") == "BinaryOperator" and n.get("opcode") == "+":
            a, b = inner(n)
            plus = int_lit(b)
            a = peel(a, ("NoOp", "LValueToRValue", "IntegralCast"))
            if plus is not None and a.get("kind") == "BinaryOperator" and a.get("opcode") == "*":
                x, y = inner(a)
                two = int_lit(y)
                if ref_name(x) == self.loopvar and two is not None:
                    return "(.block %d %d)" % (two, plus)
        raise Refuse("get_block index is not `i * c + d`")

    def stmt(self, s):
        """-> list of UStm terms"""
        k = s.get("kind")
        cs = inner(s)
        if k in WRAPPERS and len(cs) == 1:
            return self.stmt(cs[0])
        if k == "BinaryOperator" and s.get("opcode") == "=":
            d = self.lvalue(cs[0])
            if d is None:
                raise Refuse("assignment to something that is not a register")
            return ["⟨.%s, %s⟩" % (d, self.expr(cs[1]))]
        if k == "CompoundAssignOperator":
            op = s.get("opcode", "")[:-1]
            d = self.lvalue(cs[0])
            if d is None or op not in BINOPS:
                raise Refuse("compound assignment %s" % s.get("opcode"))
            return ["⟨.%s, (.%s (.reg .%s) %s)⟩" % (d, BINOPS[op], d, self.expr(cs[1]))]
        if k == "AttributedStmt":
            if any(c.get("kind") == "FallThroughAttr" for c in cs):
                return []
        raise Refuse("statement kind %s in integer code" % k)

    def stmts(self, ss):
        out = []
        for s in ss:
            out += self.stmt(s)
        return out


def ulist(xs):
    return "[" + ",\n     ".join(xs) + "]"


def tr_combine(fn):
    ps = [c for c in inner(fn) if c.get("kind") == "ParmVarDecl"]
    if len(ps) != 1:
        raise Refuse("combine: one parameter expected")
    t = UTr({})
    t.hreg = {("this", 0): "h0", ("this", 1): "h1", (ps[0].get("name"), 0): "a0", (ps[0].get("name"), 1): "a1"}
    return ulist(t.stmts(body_stmts(fn)))


def tr_rotl(fn):
    ps = [c.get("name") for c in inner(fn) if c.get("kind") == "ParmVarDecl"]
    ss = body_stmts(fn)
    if len(ps) != 2 or len(ss) != 1 or ss[0].get("kind") != "ReturnStmt":
        raise Refuse("rotl64: `return <expr>;` over two parameters expected")
    t = UTr({}, params={ps[0]: "(.arg 0)", ps[1]: "(.arg 1)"})
    # the shift count is promoted from std::uint8_t to int: value preserving
    return t.expr(strip_promotions(inner(ss[0])[0]))


def strip_promotions(n):
    """remove integral promotions of the std::uint8_t parameter (value preserving)"""
    if isinstance(n, dict):
        if n.get("kind") == "ImplicitCastExpr" and n.get("castKind") == "IntegralCast" and \
                bare(dq(n)) == "int" and bare(dq(inner(n)[0])) == "unsigned char":
            return strip_promotions(inner(n)[0])
        m = dict(n)
        if "inner" in n:
            m["inner"] = [strip_promotions(c) for c in n["inner"]]
        return m
    return n


def tr_fmix(fn):
    ps = [c.get("name") for c in inner(fn) if c.get("kind") == "ParmVarDecl"]
    ss = body_stmts(fn)
    if len(ps) != 1 or ss[-1].get("kind") != "ReturnStmt" or ref_name(inner(ss[-1])[0]) != ps[0]:
        raise Refuse("fmix: one parameter, returned at the end, expected")
    t = UTr({ps[0]: "k"})
    return ulist(t.stmts(ss[:-1]))


def tr_get_block(fn):
    """T tmp; std::memcpy(&tmp, p + i, sizeof(T)); return tmp;  -> sizeof(T)"""
    ps = [c.get("name") for c in inner(fn) if c.get("kind") == "ParmVarDecl"]
    ss = body_stmts(fn)
    if len(ps) != 2 or len(ss) != 3 or ss[0].get("kind") != "DeclStmt":
        raise Refuse("get_block: shape")
    tmp = inner(ss[0])[0].get("name")
    c = peel(ss[1])
    if c.get("kind") != "CallExpr" or ref_name(inner(c)[0]) not in ("memcpy", "__builtin_memcpy") or len(inner(c)) != 4:
        raise Refuse("get_block: second statement is not memcpy(..)")
    dst, src, n = inner(c)[1:]
    d = peel(dst, ("NoOp", "LValueToRValue", "BitCast"))
    ok = d.get("kind") == "UnaryOperator" and d.get("opcode") == "&" and ref_name(inner(d)[0]) == tmp
    s = peel(src, ("NoOp", "LValueToRValue", "BitCast"))
    ok = ok and s.get("kind") == "BinaryOperator" and s.get("opcode") == "+" and \
        ref_name(inner(s)[0]) == ps[0] and ref_name(inner(s)[1]) == ps[1]
    size = sizeof_of(n, None)
    ok = ok and ss[2].get("kind") == "ReturnStmt" and ref_name(inner(ss[2])[0]) == tmp and \
        bare(dq(inner(ss[0])[0])) == "unsigned long" and size == 8
    if not ok:
        raise Refuse("get_block is not `T tmp; memcpy(&tmp, p + i, sizeof(T)); return tmp;` on 8-byte words")
    return size


def tr_hash128(fn):
    ps = [c.get("name") for c in inner(fn) if c.get("kind") == "ParmVarDecl"]
    if len(ps) != 3:
        raise Refuse("hash128: three parameters expected")
    data, ln, seed = ps
    sd = [c for c in inner(fn) if c.get("kind") == "ParmVarDecl"][2]
    default_seed = int_lit(inner(sd)[0]) if inner(sd) else None
    if default_seed is None:
        raise Refuse("hash128: the seed has no literal default value")
    ss = body_stmts(fn)
    t = UTr({}, params={ln: ".len", seed: ".seed"})
    r = {"blockLen": None, "init": None, "loopBody": None, "tailMul": None, "tailInit": [], "switchMask": None,
         "cases": None, "final": [], "defaultSeed": default_seed}
    nblocks = None
    phase = "head"
    for s in ss:
        k = s.get("kind")
        if k == "DeclStmt":
            for v in inner(s):
                name, ty = v.get("name"), bare(dq(v))
                e = inner(v)[0] if inner(v) else None
                if e is None:
                    raise Refuse("hash128: uninitialised local %s" % name)
                p = peel(e, ("NoOp", "LValueToRValue", "IntegralCast"))
                if phase == "head" and p.get("kind") == "BinaryOperator" and p.get("opcode") == "/" and \
                        ref_name(inner(p)[0]) == ln and int_lit(inner(p)[1]) is not None:
                    nblocks, r["blockLen"] = name, int_lit(inner(p)[1])
                elif ty == "unsigned long" and dq(v).strip().startswith("const") and int_lit(e) is not None:
                    t.consts[name] = int_lit(e)
                elif p.get("kind") == "CXXReinterpretCastExpr" and ty.replace(" ", "").replace("const", "") == "unsignedlong*" and \
                        ref_name(inner(p)[0]) == data:
                    t.blocks = name
                elif ty == "vita::hash_t" and p.get("kind") == "CXXConstructExpr" and len(inner(p)) == 2:
                    t.hreg = {(name, 0): "h0", (name, 1): "h1"}
                    t.hvar = name
                    r["init"] = ["⟨.h0, %s⟩" % t.expr(inner(p)[0]), "⟨.h1, %s⟩" % t.expr(inner(p)[1])]
                elif phase == "tail" and ty.replace(" ", "").replace("const", "") in ("std::byte*", "unsignedchar*", "enumstd::byte*") and \
                        p.get("kind") == "BinaryOperator" and p.get("opcode") == "+":
                    a, b = inner(p)
                    a = peel(a, ("NoOp", "LValueToRValue"))
                    b = peel(b, ("NoOp", "LValueToRValue", "IntegralCast"))
                    ok = a.get("kind") == "CXXReinterpretCastExpr" and ref_name(inner(a)[0]) == data and \
                        b.get("kind") == "BinaryOperator" and b.get("opcode") == "*" and \
                        ref_name(inner(b)[0]) == nblocks and int_lit(inner(b)[1]) is not None
                    if not ok:
                        raise Refuse("hash128: tail pointer is not data + n_blocks * c")
                    t.tailptr, r["tailMul"] = name, int_lit(inner(b)[1])
                elif phase == "tail" and ty == "unsigned long" and name in ("k1", "k2"):
                    t.names[name] = name
                    r["tailInit"].append("⟨.%s, %s⟩" % (name, t.expr(e)))
                else:
                    raise Refuse("hash128: declaration of %s : %s" % (name, ty))
        elif k == "ForStmt" and phase == "head":
            cs = s.get("inner", [])
            init, cnd, inc, body = cs[0], cs[2], cs[3], cs[4]
            iv = inner(init)[0]
            c = peel(cnd)
            ok = int_lit(inner(iv)[0]) == 0 and c.get("kind") == "BinaryOperator" and c.get("opcode") == "<" and \
                ref_name(inner(c)[0]) == iv.get("name") and ref_name(inner(c)[1]) == nblocks and \
                inc.get("kind") == "UnaryOperator" and inc.get("opcode") == "++" and ref_name(inner(inc)[0]) == iv.get("name")
            if not ok:
                raise Refuse("hash128: block loop is not `for (i = 0; i < n_blocks; ++i)`")
            lt = UTr({}, consts=t.consts, params=t.params, loopvar=iv.get("name"), blocks=t.blocks)
            lt.hreg = t.hreg
            out = []
            for b in flatten([body]):
                if b.get("kind") == "DeclStmt":
                    for v in inner(b):
                        if v.get("name") not in ("k1", "k2") or bare(dq(v)) != "unsigned long":
                            raise Refuse("hash128: loop local %s" % v.get("name"))
                        lt.names[v.get("name")] = v.get("name")
                        out.append("⟨.%s, %s⟩" % (v.get("name"), lt.expr(inner(v)[0])))
                else:
                    out += lt.stmt(b)
            r["loopBody"] = out
            phase = "tail"
        elif k == "SwitchStmt" and phase == "tail":
            cs = inner(s)
            c = peel(cs[0], ("NoOp", "LValueToRValue", "IntegralCast"))
            if not (c.get("kind") == "BinaryOperator" and c.get("opcode") == "&" and ref_name(inner(c)[0]) == ln and
                    int_lit(inner(c)[1]) is not None):
                raise Refuse("hash128: switch expression is not `len & c`")
            r["switchMask"] = int_lit(inner(c)[1])
            cases = []
            for b in inner(cs[1]):
                while b.get("kind") == "CaseStmt":
                    lab = int_lit(inner(b)[0])
                    if lab is None:
                        raise Refuse("hash128: case label")
                    cases.append((lab, []))
                    b = inner(b)[1]
                if b.get("kind") in ("BreakStmt", "DefaultStmt", "ReturnStmt", "ContinueStmt", "GotoStmt"):
                    raise Refuse("hash128: %s inside the tail switch (the model assumes fall-through everywhere)" % b.get("kind"))
                if not cases:
                    raise Refuse("hash128: statement before the first case label")
                if b.get("kind") != "NullStmt":
                    cases[-1][1].extend(t.stmt(b))
            r["cases"] = cases
            phase = "final"
        elif phase == "final" and k == "ReturnStmt":
            x = peel(inner(s)[0])
            while x.get("kind") == "CXXConstructExpr" and len(inner(x)) == 1:
                x = peel(inner(x)[0])
            if ref_name(x) != t.hvar:
                raise Refuse("hash128: does not return h")
            phase = "done"
        elif phase == "final":
            r["final"] += t.stmt(s)
        else:
            raise Refuse("hash128: statement kind %s in phase %s" % (k, phase))
    if phase != "done" or None in (r["blockLen"], r["init"], r["loopBody"], r["tailMul"], r["switchMask"], r["cases"]):
        raise Refuse("hash128: incomplete (phase %s)" % phase)
    return r


# ---------------------------------------------------------------------------------------------
# where opcodes come from: symbol::symbol / symbol::opc_count_
# ---------------------------------------------------------------------------------------------
def tr_opcode_counter(ix):
    ctors = [n for i, n in ix.funcs.items() if n.get("kind") == "CXXConstructorDecl" and
             ix.info[i]["record"] == "symbol" and SP.has_body(n) and not n.get("isImplicit")]
    if len(ctors) != 1:
        raise Refuse("symbol: exactly one user-provided constructor expected, found %d" % len(ctors))
    inits = [c for c in ctors[0].get("inner", []) if c.get("kind") == "CXXCtorInitializer" and
             c.get("anyInit", {}).get("name") == "opcode_"]
    if len(inits) != 1:
        raise Refuse("symbol::symbol does not initialise opcode_ in its initialiser list")
    e = peel(inner(inits[0])[0])
    if e.get("kind") != "UnaryOperator" or e.get("opcode") != "++" or ref_name(inner(e)[0]) != "opc_count_":
        raise Refuse("opcode_ is not initialised with opc_count_++ / ++opc_count_")
    post = bool(e.get("isPostfix"))
    cid = peel(inner(e)[0]).get("referencedDecl", {}).get("id")
    t = bare(dq(e))
    if t not in UNSIGNED:
        raise Refuse("opcode_t is %r: the counter model needs an unsigned type (wrap-around)" % t)
    # the definition of the static member and its initial value
    defs = [v for v in ix.vars.values() if v["node"].get("name") == "opc_count_" and inner(v["node"])]
    if len(defs) != 1:
        raise Refuse("definition of symbol::opc_count_ not found")
    init = int_lit(inner(defs[0]["node"])[0])
    if init is None:
        raise Refuse("symbol::opc_count_ is not initialised with a literal")
    ids = {i for i, v in ix.vars.items() if v["node"].get("name") == "opc_count_"}
    if not any(v["node"].get("storageClass") == "static" for v in ix.vars.values() if v["node"].get("name") == "opc_count_"):
        raise Refuse("symbol::opc_count_ is not a static data member")
    # nobody else touches the counter or assigns opcode_
    uses = 0
    for i, n in ix.funcs.items():
        if ix.info[i]["dependent"] or not SP.has_body(n):
            continue
        for d in SP_find(n, lambda x: x.get("kind") == "DeclRefExpr" and x.get("referencedDecl", {}).get("id") in ids):
            uses += 1
        for m in SP_find(n, lambda x: x.get("kind") in ("BinaryOperator", "CompoundAssignOperator") and
                         x.get("opcode", "").endswith("=") and x.get("opcode") not in ("==", "!=", "<=", ">=") and
                         peel(inner(x)[0]).get("kind") == "MemberExpr" and peel(inner(x)[0]).get("name") == "opcode_"):
            raise Refuse("opcode_ is assigned in %s" % ix.info[i]["name"])
    if uses != 1:
        raise Refuse("symbol::opc_count_ is used %d times in the translation unit (expected: once, in the constructor)" % uses)
    return "⟨%d, %s, %d⟩" % (init, "true" if post else "false", UNSIGNED[t])


def SP_find(n, pred, out=None):
    out = [] if out is None else out
    if pred(n):
        out.append(n)
    for c in inner(n):
        SP_find(c, pred, out)
    return out


# ---------------------------------------------------------------------------------------------
def translate():
    ix = SP.Ix(SP.load_ast())
    out = {}
    out["pack"] = PackTr(find_fn(ix, "i_mep::pack")).run()
    out["mepHash"] = tr_mep_hash(find_fn(ix, "i_mep::hash"))
    out["gaHash"] = tr_vec_hash(find_fn(ix, "i_ga::hash"), "int")
    out["deHash"] = tr_vec_hash(find_fn(ix, "i_de::hash"), "double")
    out["teamHash"] = tr_team_hash(find_fn(ix, "team::hash"))
    out["combine"] = tr_combine(find_fn(ix, "hash_t::combine"))
    m = tr_hash128(find_fn(ix, "murmurhash3::hash128"))
    m["rotlBody"] = tr_rotl(find_fn(ix, "rotl64"))
    m["fmixBody"] = tr_fmix(find_fn(ix, "murmurhash3::fmix", lambda n: bare(SP.qual(n)).startswith("unsigned long (")))
    m["getBlockBytes"] = tr_get_block(find_fn(ix, "murmurhash3::get_block"))
    out["murmur"] = m
    out["opcodeCounter"] = tr_opcode_counter(ix)
    return out


def emit(path):
    o = translate()
    m = o["murmur"]
    cases = ",\n     ".join("(%d, [%s])" % (lab, ", ".join(ss)) for lab, ss in m["cases"])
    L = ["-- GENERATED by tools/translate_pack.py from the clang AST of the current working tree",
         "-- (regenerated on every check run; do not edit)",
         "import Vita.C03.PackSyn", "import Vita.C03.USyn", "namespace Vita.C03.GenPack",
         "open Vita.C03.PackSyn Vita.C03.USyn", "",
         "/-- `i_mep::pack` (src/kernel/gp/mep/i_mep.cc) -/",
         "def pack : PStm :=\n  %s" % o["pack"], "",
         "/-- `symbol::symbol`: `opcode_(opc_count_++)`, `opcode_t symbol::opc_count_(0)` (src/kernel/gp/symbol.cc) -/",
         "def opcodeCounter : CounterSyn := %s" % o["opcodeCounter"], "",
         "/-- `i_mep::hash` -/", "def mepHash : MepHashSyn := %s" % o["mepHash"], "",
         "/-- `i_ga::hash`, `i_de::hash` -/", "def gaHash : VecHashSyn := %s" % o["gaHash"],
         "def deHash : VecHashSyn := %s" % o["deHash"], "",
         "/-- `team<i_mep>::hash` -/", "def teamHash : TeamHashSyn := %s" % o["teamHash"], "",
         "/-- `hash_t::combine` (src/kernel/cache_hash.h) -/",
         "def combine : List UStm :=\n    %s" % o["combine"], "",
         "/-- `murmurhash3::hash128`, `fmix`, `rotl64`, `get_block` -/",
         "def murmur : MurmurSyn where",
         "  blockLen := %d" % m["blockLen"],
         "  init :=\n    %s" % ulist(m["init"]),
         "  loopBody :=\n    %s" % ulist(m["loopBody"]),
         "  tailMul := %d" % m["tailMul"],
         "  tailInit :=\n    %s" % ulist(m["tailInit"]),
         "  switchMask := %d" % m["switchMask"],
         "  cases :=\n    [%s]" % cases,
         "  final :=\n    %s" % ulist(m["final"]),
         "  getBlockBytes := %d" % m["getBlockBytes"],
         "  rotlBody := %s" % m["rotlBody"],
         "  fmixBody :=\n    %s" % m["fmixBody"], "",
         "/-- default argument of `seed` in `hash128(const void *, std::size_t, std::uint32_t = …)` -/",
         "def murmurDefaultSeed : Nat := %d" % m["defaultSeed"], "",
         "end Vita.C03.GenPack", ""]
    txt = "\n".join(L)
    old = open(path).read() if os.path.exists(path) else None
    if old != txt:
        os.makedirs(os.path.dirname(path), exist_ok=True)
        with open(path, "w") as f:
            f.write(txt)
    return {"changed": old is not None and old != txt, "pack": o["pack"], "mepHash": o["mepHash"],
            "teamHash": o["teamHash"], "gaHash": o["gaHash"], "deHash": o["deHash"],
            "opcodeCounter": o["opcodeCounter"],
            "murmur_statements": len(m["init"]) + len(m["loopBody"]) + len(m["final"]) + len(m["tailInit"]) +
            sum(len(ss) for _, ss in m["cases"]), "murmur_cases": len(m["cases"])}


if __name__ == "__main__":
    here = os.path.dirname(os.path.dirname(os.path.abspath(__file__)))
    try:
        print(emit(os.path.join(here, "lean", "Vita", "C03", "GenPack.lean")))
    except Refuse as e:
        print("REFUSE:", e)
        sys.exit(2)
