#!/usr/bin/env python3
"""C01 translator for the `eval` bodies that neither the C13 (real.h, string.h) nor the C14 (int.h functions)
translator covers: vita::boolean::* (bool.h), vita::integer::number (int.h), vita::variable (variable.h),
vita::constant<T> (constant.h) -> lean/Vita/C01/GenPrims.lean, as terms of `Vita.Prog F (Val F)`.

Built on tools/translate_real.py's CPS translation (same house style, same refusals) with the few extra
shapes these bodies use:
    std::get<D_INT>(v)                 Val.withInt v fun x => …        (bad_variant_access = .throw)
    int used as a condition            decide (x ≠ 0)
    static_cast<D_INT>(double)         FloatOps.toInt
    static_cast<double>(int)           FloatOps.ofInt
    std::numeric_limits<int>::max()    the literal 2147483647 (min / lowest: -2147483648)
    integer literals, `base_t(0)`      Int literals
    `>=` `<=` `!=` … on doubles, `const auto v(p.fetch_param())`, `if … return …` chains: translate_real's
    value_t(int) / value_t(bool)       Val.int / Val.ofBool
    p.fetch_var(var_)                  .var k fun v => …   (k = the symbol's own feature index, a parameter)
    constant<T>::eval() / val_         the stored value, a parameter of the term
Refuses anything else."""
import os
import sys

sys.path.insert(0, os.path.dirname(os.path.abspath(__file__)))
import translate_real as R  # noqa: E402
from cxx2lean import Refuse, ast_dump, kids, qtype, peel, callee_name, find_all, LIMITS  # noqa: E402

TU = "prims01_tu.cc"
VALUE_T = ("vita::value_t", "std::variant<std::monostate, int, double, std::basic_string<char>>",
           "variant<std::monostate, int, double, std::basic_string<char>>")


def plain(n):
    return qtype(n).replace("const ", "").strip()


def to_val(t, ty):
    if ty == "int":
        return "(Val.int %s)" % t
    return R.to_val(t, ty)


class Tr(R.Tr):
    def __init__(self, this_cls=None):
        super().__init__()
        self.this_cls = this_cls

    def ex(self, n, k):
        kd = n.get("kind")
        ks = kids(n)
        if kd in ("ImplicitCastExpr", "CXXStaticCastExpr", "CXXFunctionalCastExpr", "CStyleCastExpr") and len(ks) == 1:
            ck = n.get("castKind")
            if ck == "IntegralToBoolean":
                def conv(t, ty):
                    if ty != "int":
                        raise Refuse("condition on a %s" % ty)
                    return k("(decide (%s ≠ 0))" % t, "bool")
                return self.ex(ks[0], conv)
            if ck == "FloatingToIntegral" and plain(n) == "int":
                def conv2(t, ty):
                    if ty != "dbl":
                        raise Refuse("floating-to-integral conversion from %s" % ty)
                    return k("(FloatOps.toInt %s)" % t, "int")
                return self.ex(ks[0], conv2)
            if ck == "IntegralToFloating" and plain(n) == "double":
                def conv3(t, ty):
                    if ty == "int":
                        return k("(FloatOps.ofInt %s)" % t, "dbl")
                    if ty == "nat":
                        return k("(FloatOps.ofNat %s)" % t, "dbl")
                    raise Refuse("integral-to-floating conversion from %s" % ty)
                return self.ex(ks[0], conv3)
            if ck in ("ConstructorConversion",) or (ck in R.PASS_CASTS):
                return self.ex(ks[0], k)
        if kd == "IntegerLiteral" and plain(n) == "int":
            return k("(%d)" % int(n["value"]), "int")
        if kd == "CallExpr" and callee_name(n) in ("max", "min", "lowest") and len(ks) == 1 and plain(n) == "int":
            f = peel(ks[0])
            ftype = f.get("type", {}).get("qualType", "")
            if ftype.startswith("int ()") and "noexcept" in ftype:      # std::numeric_limits<int>::max() …
                return k("(%d)" % LIMITS[("i32", callee_name(n))], "int")
            raise Refuse("call to %r of type %r" % (callee_name(n), ftype))
        if kd in ("CXXConstructExpr", "CXXTemporaryObjectExpr") and plain(n) in VALUE_T and len(ks) == 1:
            return self.ex(ks[0], lambda t, ty: k(to_val(t, ty), "val"))
        if kd == "CallExpr" and callee_name(n) == "get" and len(ks) == 2 and plain(n) == "int":
            x = self.fresh("x")
            return self.ex(ks[1], lambda t, ty: "(Val.withInt %s fun %s =>\n%s)" % (t, x, k(x, "int")))
        if kd == "CXXMemberCallExpr":
            name = callee_name(n)
            obj = peel(kids(ks[0])[0]) if ks and kids(ks[0]) else {}
            if name == "fetch_var" and "symbol_params" in qtype(obj) and len(ks) == 2:
                a = peel(ks[1])
                if a.get("kind") == "MemberExpr" and a.get("name") == "var_" and \
                        peel(kids(a)[0]).get("kind") == "CXXThisExpr":
                    v = self.fresh("v")
                    return "(.var k fun %s =>\n%s)" % (v, k(v, "val"))
                raise Refuse("fetch_var of something that is not the symbol's own index")
        if kd == "MemberExpr" and n.get("name") == "val_" and peel(ks[0]).get("kind") == "CXXThisExpr":
            return k("v", "val")          # value_t(val_): the stored value, a parameter of the term
        return super().ex(n, k)


def eval_method(rec, nparams):
    ms = [m for m in kids(rec) if m.get("kind") == "CXXMethodDecl" and m.get("name") == "eval" and
          len([p for p in kids(m) if p.get("kind") == "ParmVarDecl"]) == nparams and
          any(c.get("kind") == "CompoundStmt" for c in kids(m))]
    if len(ms) != 1:
        raise Refuse("%s: %d eval methods with %d parameters" % (rec.get("name"), len(ms), nparams))
    return ms[0]


def body_of(m):
    return [c for c in kids(m) if c.get("kind") == "CompoundStmt"][0]


def translate():
    out = []          # (lean name, parameters text, term, doc)
    for ns, want in (("boolean", None), ("integer", ("number",))):
        docs = ast_dump(TU, "vita::" + ns)
        nds = [d for d in docs if d.get("kind") == "NamespaceDecl" and d.get("name") == ns]
        if not nds:
            raise Refuse("namespace vita::%s not found" % ns)
        seen = set()
        for nd in nds:
            for c in kids(nd):
                if c.get("kind") != "CXXRecordDecl" or not c.get("completeDefinition"):
                    continue
                if want is not None and c.get("name") not in want:
                    continue
                if not any(m.get("kind") == "CXXMethodDecl" and m.get("name") == "eval" for m in kids(c)):
                    continue
                m = eval_method(c, 1)
                t = Tr().body([body_of(m)], lambda t, ty: "(.ret %s)" % to_val(t, ty))
                out.append(("%s_%s" % (ns, c["name"]), "", t, "vita::%s::%s::eval" % (ns, c["name"])))
                seen.add(c["name"])
        if want is not None and set(want) - seen:
            raise Refuse("vita::%s: %s not found" % (ns, sorted(set(want) - seen)))
    # variable
    recs = [d for d in ast_dump(TU, "vita::variable") if d.get("kind") == "CXXRecordDecl" and
            d.get("name") == "variable" and d.get("completeDefinition")]
    if len(recs) != 1:
        raise Refuse("class variable: %d definitions" % len(recs))
    t = Tr().body([body_of(eval_method(recs[0], 1))], lambda t, ty: "(.ret %s)" % to_val(t, ty))
    # k IS the constructor's `var_id`: the member is initialised from the parameter without any conversion
    inits = []
    for ct in kids(recs[0]):
        if ct.get("kind") == "CXXConstructorDecl" and not ct.get("isImplicit"):
            for ini in kids(ct):
                if ini.get("kind") == "CXXCtorInitializer" and ini.get("anyInit", {}).get("name") == "var_":
                    inits.append((ct, ini))
    if len(inits) != 1:
        raise Refuse("variable: %d constructors initialise var_" % len(inits))
    ct, ini = inits[0]
    e = kids(ini)[0]
    while e.get("kind") in ("ImplicitCastExpr",) and e.get("castKind") in ("LValueToRValue", "NoOp") and len(kids(e)) == 1:
        e = kids(e)[0]
    pnames = [p.get("name") for p in kids(ct) if p.get("kind") == "ParmVarDecl"]
    if e.get("kind") != "DeclRefExpr" or e.get("referencedDecl", {}).get("name") not in pnames or \
            plain(e) != plain(ini.get("anyInit", {})):
        raise Refuse("variable: var_ (%s) is not initialised by a constructor parameter of the same type (%s %s)"
                     % (plain(ini.get("anyInit", {})), e.get("kind"), plain(e)))
    out.append(("variable", "(k : Nat)", t, "vita::variable::eval (k = var_ = the constructor's var_id)"))
    # constant<T>: eval(symbol_params &) { return eval(); }   eval() { return val_; }
    specs = []
    for d in ast_dump(TU, "vita::constant"):
        specs += find_all(d, lambda x: x.get("kind") in ("ClassTemplateSpecializationDecl",) and
                          x.get("name") == "constant" and x.get("completeDefinition"))
    terms = set()
    for s in specs:
        m1, m0 = eval_method(s, 1), eval_method(s, 0)
        st = [x for x in kids(body_of(m1)) if x.get("kind") != "NullStmt"]
        ok = len(st) == 1 and st[0].get("kind") == "ReturnStmt"
        if ok:
            c = peel(kids(st[0])[0])
            ok = c.get("kind") == "CXXMemberCallExpr" and callee_name(c) == "eval" and len(kids(c)) == 1 and \
                peel(kids(kids(c)[0])[0]).get("kind") == "CXXThisExpr"
        if not ok:
            raise Refuse("constant<T>::eval(symbol_params &) is not `return eval();`")
        terms.add(Tr().body([body_of(m0)], lambda t, ty: "(.ret %s)" % to_val(t, ty)))
    if len(specs) < 3:
        raise Refuse("constant<T>: expected the specialisations for double, int and std::string, found %d" % len(specs))
    if len(terms) != 1:
        raise Refuse("the constant<T> specialisations have different eval bodies")
    out.append(("constant", "(v : Val F)", terms.pop(), "vita::constant<T>::eval (v = value_t(val_)), T = double, int, std::string"))
    return out


def render(prims):
    L = ["-- GENERATED by tools/translate_prims01.py from src/kernel/gp/src/primitive/bool.h, int.h (number),",
         "-- src/kernel/gp/src/variable.h, constant.h of the repo working tree; regenerated on every check run; do not edit",
         "import Vita.Common.Prog", "import Vita.Common.FloatOps", "namespace Vita.C01.GenPrims", "open Vita",
         "variable {F : Type} [FloatOps F]", ""]
    for name, params, t, doc in prims:
        L.append("/-- `%s` -/" % doc)
        L.append("def %sP %s: Prog F (Val F) :=\n%s\n" % (name, params + " " if params else "", R.indent(t)))
    L.append("def names : List String :=\n  [" + ", ".join('"%s"' % n for n, _, _, _ in prims) + "]")
    L.append("\nend Vita.C01.GenPrims\n")
    return "\n".join(L)


def emit(path):
    prims = translate()
    txt = render(prims)
    old = open(path).read() if os.path.exists(path) else None
    if old != txt:
        os.makedirs(os.path.dirname(path), exist_ok=True)
        with open(path, "w") as f:
            f.write(txt)
    return [n for n, _, _, _ in prims], old is not None and old != txt


if __name__ == "__main__":
    here = os.path.dirname(os.path.dirname(os.path.abspath(__file__)))
    try:
        if len(sys.argv) > 1 and sys.argv[1] == "--print":
            print(render(translate()))
        else:
            names, changed = emit(os.path.join(here, "lean", "Vita", "C01", "GenPrims.lean"))
            print("translated:", " ".join(names), "(changed)" if changed else "")
    except Refuse as e:
        print("REFUSE:", e)
        sys.exit(2)
