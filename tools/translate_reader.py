#!/usr/bin/env python3
"""C10 — extract every unchecked-access site of the dataset readers from the clang AST.

Sources: src/kernel/gp/src/dataframe.{h,cc}, src/utility/pocket_csv.h, src/utility/utility.cc,
src/kernel/gp/src/problem.cc (the data-reading constructors, setup_terminals), category_set.cc.

Starting from the ENTRY points (read_csv / read_xrff / read / src_problem(stream) / sniffer / is_valid …)
every function defined in those files is walked with the calls to other functions of the set INLINED
(arguments substituted for reference parameters, `this` for the object expression), so that a guard in
the caller (`read_record`'s width test) dominates the accesses of the callee (`to_example`'s
`columns[i]`).  A SITE is emitted for

    c[i]  c.front()  c.back()  c.pop_back()      on std::vector / std::string / std::array / std::deque
                                                 (`s[i]` on a std::string only needs i <= size(): s[size()] is the NUL)
    *it  it->m                                   on a std iterator whose position is known (c.begin() + k …)
    std::next(it, k)  std::prev  it + k          iterator arithmetic
    p->m  *p                                     on a raw pointer (not `this`)
    *opt  opt->m                                 on a std::optional
    std::string(p), s = p                        from a `const char *` that is not a literal

with the guards that dominate it: conditions of enclosing if / for / while / && / || / ?:, negated conditions
of early exits (`if (c) return/continue/break/throw`), defining equations of locals and by-value
parameters.  A guard is dropped as soon as something it mentions is modified (assignment, ++/--, a mutating
member call, an lvalue handed to a function by non-const reference); guards from outside a loop that mention
anything the loop modifies are dropped inside it.  Names are the (substituted) texts of pure expressions;
`#c` is the size of container `c`.  Output: lean/Vita/C10/GenSites.lean (terms of Vita/C10/Sites.lean), the
call graph among the functions of the set and every call that closes a cycle (recursion).

Syntax only; the meaning of a site (`guards ⇒ index < size`) and the proofs are in Lean.  Any statement or
expression kind not listed here makes the translator refuse.
"""
import concurrent.futures as cf
import functools
import hashlib
import json
import os
import re
import subprocess
import sys

sys.path.insert(0, os.path.dirname(os.path.abspath(__file__)))
from cxx2lean import Refuse, ast_dump, kids  # noqa: E402

TU = "reader_tu.cc"
FILTERS = ["pocket_csv::", "vita::dataframe", "vita::label", "vita::from_weka", "vita::(anonymous namespace)::convert",
           "vita::src_problem", "vita::category_set", "vita::trim", "vita::is_number", "vita::iequals"]

# entry points: (qualified name, parameter-type fragments that pick the overload)
ENTRIES = [
    ("vita::dataframe::read_csv", ["istream", "params"]),
    ("vita::dataframe::read_csv", ["path", "params"]),
    ("vita::dataframe::read_xrff", ["istream", "params"]),
    ("vita::dataframe::read_xrff", ["path", "params"]),
    ("vita::dataframe::read", ["path", "params"]),
    ("vita::dataframe::is_valid", []),
    ("vita::dataframe::class_name", None),
    ("vita::dataframe::variables", None),
    ("vita::src_problem::src_problem", ["istream", "typing"]),
    ("vita::src_problem::src_problem", ["path", "typing"]),
    ("pocket_csv::sniffer", None),
]

FUNC_KINDS = {"FunctionDecl", "CXXMethodDecl", "CXXConstructorDecl", "CXXConversionDecl"}
SCOPE_KINDS = {"CXXRecordDecl", "NamespaceDecl"}

# std member functions that do not modify the object although the overload called may be non-const
NON_MUTATING = {"begin", "end", "cbegin", "cend", "rbegin", "rend", "front", "back", "data", "c_str", "size", "length",
                "empty", "find", "count", "at", "operator[]", "capacity", "max_size", "lower_bound", "upper_bound",
                "compare", "substr", "str", "rdbuf", "good", "eof", "fail", "bad", "tellg", "has_value", "value",
                "operator bool", "operator*", "operator->", "get", "base", "extension", "string", "index",
                "find_first_of", "find_last_of", "find_first_not_of", "find_last_not_of", "rfind", "equal_range",
                "key_comp", "first", "second", "native", "filename", "holds_alternative"}
SEQ_RE = re.compile(r"^(std::)?(__cxx11::)?(vector|basic_string|array|deque|basic_string_view)<")
ITER_RE = re.compile(r"__normal_iterator<|_Rb_tree_(const_)?iterator<|reverse_iterator<|_List_(const_)?iterator<|"
                     r"_Node_(const_)?iterator<|__detail::_Node_")
INT_RE = re.compile(r"^(unsigned |signed )?(char|short|int|long|long long|bool|size_t|std::size_t)$|^unsigned$|"
                    r"^(std::)?(u?int\d+_t|size_t|ptrdiff_t)$")


def strip_type(t):
    t = t.strip()
    changed = True
    while changed:
        changed = False
        for pre in ("const ", "volatile ", "struct ", "class "):
            if t.startswith(pre):
                t, changed = t[len(pre):], True
        for suf in (" &&", " &", "&&", "&", " const"):
            if t.endswith(suf):
                t, changed = t[:-len(suf)].rstrip(), True
    return t


def tdes(n):
    t = n.get("type", {})
    return t.get("desugaredQualType", t.get("qualType", ""))


def tq(n):
    return n.get("type", {}).get("qualType", "")


def is_seq(t):
    return bool(SEQ_RE.match(strip_type(t)))


def is_std(t):
    s = strip_type(t)
    return s.startswith("std::") or s.startswith("__gnu_cxx::") or s.startswith("basic_") or s.startswith("optional<")


def is_ptr(t):
    s = t.strip()
    for suf in (" const", "const"):
        if s.endswith("*" + suf):
            return True
    return s.endswith("*")


def is_iter(t):
    return bool(ITER_RE.search(t)) or bool(re.search(r"::(const_)?(reverse_)?iterator\b", strip_type(t))) and is_std(t)


def is_optional(t):
    s = strip_type(t)
    return s.startswith("std::optional<") or s.startswith("optional<")


def is_integral(t):
    s = strip_type(t)
    return bool(INT_RE.match(s)) or s.startswith("enum ") or "size_type" in s or s.endswith("_t") and "::" not in s


# ---------------------------------------------------------------------------------------------
# definitions
# ---------------------------------------------------------------------------------------------

class Def:
    def __init__(self, node, qname, scope):
        self.node = node
        self.qname = qname                      # e.g. vita::dataframe::read_csv
        self.cls = scope                        # qualified class name for members, "" for free functions
        self.name = node.get("name", "")
        self.kind = node["kind"]
        self.params = [c for c in kids(node) if c["kind"] == "ParmVarDecl"]
        self.body = next((c for c in kids(node) if c["kind"] == "CompoundStmt"), None)
        self.inits = [c for c in kids(node) if c["kind"] == "CXXCtorInitializer"]
        self.type = tq(node)
        self.is_const = bool(re.search(r"\)\s*const\b", self.type))
        self.ptypes = [tdes(p) for p in self.params]

    def ns(self):
        return self.qname.split("::")[0]

    def single_return(self):
        """the returned expression when the body is `{ return E; }` (an accessor)"""
        if self.body is None or self.inits:
            return None
        st = kids(self.body)
        if len(st) == 1 and st[0]["kind"] == "ReturnStmt" and kids(st[0]):
            return kids(st[0])[0]
        return None

    def sig(self):
        return "%s(%s)" % (self.qname, ", ".join(strip_type(t) for t in self.ptypes))


def demangle(names):
    if not names:
        return {}
    p = subprocess.run(["c++filt"], input="\n".join(names).encode(), stdout=subprocess.PIPE)
    out = p.stdout.decode("utf-8", "replace").splitlines()
    return dict(zip(names, out))


def qname_of(dem):
    """`ns::cls::fn(args) const` -> `ns::cls::fn`"""
    s = dem.replace("(anonymous namespace)", "{anon}")
    s = re.sub(r"\[abi:\w+\]", "", s)
    depth, out = 0, []
    for ch in s:
        if ch == "<":
            depth += 1
        elif ch == ">":
            depth -= 1
        elif ch == "(" and depth == 0:
            break
        if depth == 0 and ch != ">":
            out.append(ch)
    q = "".join(out).strip()
    # a return type may precede the name of a template function: keep the last token
    return q.split(" ")[-1]


def collect_defs(docs):
    found = []

    def walk(n, scope):
        k = n.get("kind")
        if k in FUNC_KINDS:
            if n.get("isImplicit") or not any(c.get("kind") == "CompoundStmt" for c in kids(n)):
                return
            found.append((n, scope))
            return
        if k in SCOPE_KINDS:
            for c in kids(n):
                walk(c, scope + [n.get("name") or "{anon}"])

    for d in docs:
        walk(d, [])
    dm = demangle(sorted({n["mangledName"] for n, _ in found if n.get("mangledName")}))
    defs, seen = [], set()
    for n, scope in found:
        if n.get("mangledName"):
            q = qname_of(dm[n["mangledName"]])
        else:
            q = "::".join(scope + [n.get("name", "?")])
        cls = "::".join(q.split("::")[:-1]) if n["kind"] != "FunctionDecl" else ""
        d = Def(n, q, cls)
        if d.sig() in seen:          # the same definition reached through two filters
            continue
        seen.add(d.sig())
        defs.append(d)
    return defs


# ---------------------------------------------------------------------------------------------
# terms
# ---------------------------------------------------------------------------------------------

def lit(n):
    return ("lit", int(n))


def var(x):
    return ("var", x)


def size(c):
    return ("size", c)


def ie_tokens(t):
    if t[0] == "lit":
        return set()
    if t[0] in ("var", "size"):
        return {t[1]}
    return ie_tokens(t[1]) | ie_tokens(t[2])


def ge_tokens(g):
    k = g[0]
    if k in ("lt", "le", "eq", "ne"):
        return ie_tokens(g[1]) | ie_tokens(g[2])
    if k == "not":
        return ge_tokens(g[1])
    if k in ("and", "or"):
        return ge_tokens(g[1]) | ge_tokens(g[2])
    return set()


def lstr(s):
    return '"' + s.replace("\\", "\\\\").replace('"', '\\"').replace("\n", " ") + '"'


def ie_lean(t):
    k = t[0]
    if k == "lit":
        return "(.lit %d)" % t[1]
    if k == "var":
        return "(.var %s)" % lstr(t[1])
    if k == "size":
        return "(.size %s)" % lstr(t[1])
    return "(.add %s %s)" % (ie_lean(t[1]), ie_lean(t[2]))


def ge_lean(g):
    k = g[0]
    if k in ("lt", "le", "eq", "ne"):
        return "(.%s %s %s)" % (k, ie_lean(g[1]), ie_lean(g[2]))
    if k == "not":
        return "(.not %s)" % ge_lean(g[1])
    if k in ("and", "or"):
        return "(.%s %s %s)" % (k, ge_lean(g[1]), ge_lean(g[2]))
    return ".tt"


def ie_text(t):
    k = t[0]
    if k == "lit":
        return str(t[1])
    if k == "var":
        return t[1]
    if k == "size":
        return "#" + t[1]
    return "%s + %s" % (ie_text(t[1]), ie_text(t[2]))


def ge_text(g):
    k = g[0]
    ops = {"lt": "<", "le": "<=", "eq": "==", "ne": "!="}
    if k in ops:
        return "%s %s %s" % (ie_text(g[1]), ops[k], ie_text(g[2]))
    if k == "not":
        return "!(%s)" % ge_text(g[1])
    if k in ("and", "or"):
        return "(%s %s %s)" % (ge_text(g[1]), "&&" if k == "and" else "||", ge_text(g[2]))
    return "true"


@functools.lru_cache(maxsize=None)
def mentions(token, text):
    """does the name `token` depend on the object named `text`?"""
    if text not in token:
        return False
    return re.search(r"(?<![\w.>])" + re.escape(text) + (r"(?![\w])" if re.search(r"\w$", text) else ""), token) is not None


TRANSPARENT = {"ExprWithCleanups", "MaterializeTemporaryExpr", "CXXBindTemporaryExpr", "ParenExpr", "ConstantExpr",
               "ImplicitCastExpr", "CXXStaticCastExpr", "CXXFunctionalCastExpr", "CStyleCastExpr", "CXXConstCastExpr",
               "CXXReinterpretCastExpr", "SubstNonTypeTemplateParmExpr", "FullExpr"}
LITERALS = {"IntegerLiteral", "CharacterLiteral", "CXXBoolLiteralExpr", "FloatingLiteral", "StringLiteral",
            "CXXNullPtrLiteralExpr", "GNUNullExpr"}
# expression kinds that are walked through their children without any meaning of their own
PLAIN = {"InitListExpr", "CXXStdInitializerListExpr", "ImplicitValueInitExpr", "CXXScalarValueInitExpr",
         "CXXDefaultInitExpr", "UnaryExprOrTypeTraitExpr", "TypeTraitExpr", "CXXThrowExpr", "ArrayInitLoopExpr",
         "OpaqueValueExpr", "ArrayInitIndexExpr", "PredefinedExpr", "CXXTypeidExpr", "CXXNoexceptExpr",
         "UnresolvedLookupExpr", "CXXDependentScopeMemberExpr", "CXXUnresolvedConstructExpr", "DependentScopeDeclRefExpr",
         "UnresolvedMemberExpr", "PackExpansionExpr", "SizeOfPackExpr", "CXXPseudoDestructorExpr"}


class Frame:
    def __init__(self, fid, d, this_text, sub):
        self.fid, self.d, self.this_text, self.sub = fid, d, this_text, dict(sub)
        self.lambdas = {}      # local name -> (LambdaExpr node, frame)
        self.itervars = {}     # rendered name -> container text


class Walker:
    def __init__(self, defs):
        self.defs = defs
        self.by_name = {}
        for d in defs:
            self.by_name.setdefault(d.name, []).append(d)
        self.sites = []
        self.site_keys = set()
        self.recursive = []        # (caller qname, callee qname) closing a cycle on the inlining stack
        self.edges = set()
        self.stack = []            # frames
        self.emit = True
        self.only_never = False
        self.post = []             # guards that hold once the statement being visited is complete
        self.fallthrough = None    # of the last `if`: what is modified on the paths that reach the next statement
        self.tail = ()
        self.summaries = {}        # def -> templates of what a call may modify (in terms of ⟨this⟩ / ⟨p:name⟩)
        self.summ_busy = set()
        self.summary_mode = 0
        self.reached = set()       # definitions walked from an entry point
        self.nframes = 0
        self.entry = ""
        self.external = {}
        self.kinds_seen = set()

    # ---- callee resolution (by name, class and arity: ids differ between clang invocations) ------------
    def resolve_free(self, ref, nargs):
        name = ref.get("name")
        sig = ref.get("type", {}).get("qualType", "")
        cands = [d for d in self.by_name.get(name, []) if d.kind == "FunctionDecl"]
        cands = [d for d in cands if d.type == sig] or [d for d in cands if len(d.params) == nargs]
        if len(cands) > 1 and self.stack:
            same = [d for d in cands if d.ns() == self.stack[-1].d.ns()]
            cands = same or cands
        if len(cands) > 1:
            raise Refuse("ambiguous callee %s %s: %s" % (name, sig, [d.sig() for d in cands]))
        return cands[0] if cands else None

    def resolve_member(self, cls_type, name, args, kinds=("CXXMethodDecl", "CXXConversionDecl"), const_obj=None):
        cls = strip_type(cls_type).rstrip("*").strip()
        cls = strip_type(cls)
        cands = [d for d in self.by_name.get(name, []) if d.kind in kinds and d.cls and
                 (d.cls == cls or d.cls.endswith("::" + cls) or cls.endswith("::" + d.cls))]
        if not cands:
            return None
        exact = [d for d in cands if len(d.params) == len(args)]
        # default arguments: CXXDefaultArgExpr children are present in the call, so arity is exact
        cands = exact or cands
        if len(cands) > 1:
            def score(d):
                s = 0
                for p, a in zip(d.params, args):
                    pts = {strip_type(tq(p)), strip_type(tdes(p))}
                    ats = {strip_type(tq(a)), strip_type(tdes(a))}
                    if pts & ats or {x.split("::")[-1] for x in pts} & {x.split("::")[-1] for x in ats}:
                        s += 2
                    elif any(x.split("<")[0].split("::")[-1] in y for x in ats for y in pts):
                        s += 1
                return s
            best = max(score(d) for d in cands)
            cands = [d for d in cands if score(d) == best]
        if len(cands) > 1 and const_obj is not None:
            c2 = [d for d in cands if d.is_const == const_obj]
            cands = c2 or cands
        if len(cands) > 1:
            # overloads that differ only in the ref-qualifier / constness have the same body shape
            bodies = {json.dumps(strip_ids(d.body)) for d in cands}
            if len(bodies) > 1:
                raise Refuse("ambiguous member %s::%s: %s" % (cls, name, [d.sig() for d in cands]))
        return cands[0]

    # ---- rendering --------------------------------------------------------------------------------
    def F(self):
        return self.stack[-1]

    def local(self, name, fr=None):
        fr = fr or self.F()
        if name in fr.sub:
            return fr.sub[name]
        return "%s'%d" % (name, fr.fid)

    def peel(self, e):
        while e.get("kind") in TRANSPARENT and len(kids(e)) >= 1:
            if e["kind"] == "CXXFunctionalCastExpr" and e.get("castKind") == "ConstructorConversion":
                break
            e = kids(e)[0]
        return e

    def accessor(self, e):
        """(def, frame) when `e` is a call of a single-`return` function of the set, else None"""
        e = self.peel(e)
        k = e.get("kind")
        if k == "CXXMemberCallExpr":
            me = self.peel(kids(e)[0])
            if me.get("kind") != "MemberExpr":
                return None
            obj = kids(me)[0]
            d = self.resolve_member(tdes(obj), me.get("name"), kids(e)[1:], const_obj=tq(obj).startswith("const "))
            if d is not None and d.single_return() is not None and not self.on_stack(d):
                return d, self.bind(d, obj, kids(e)[1:], bool(me.get("isArrow")))
        if k == "CXXOperatorCallExpr":
            ref = self.peel(kids(e)[0])
            rd = ref.get("referencedDecl", {})
            if rd.get("kind") == "CXXMethodDecl" and len(kids(e)) >= 2:
                obj = kids(e)[1]
                d = self.resolve_member(tdes(obj), rd.get("name"), kids(e)[2:], const_obj=tq(self.peel(obj)).startswith("const "))
                if d is not None and d.single_return() is not None and not self.on_stack(d):
                    return d, self.bind(d, obj, kids(e)[2:], False)
        if k == "CallExpr":
            ref = self.peel(kids(e)[0])
            if ref.get("kind") == "DeclRefExpr" and ref.get("referencedDecl", {}).get("kind") == "FunctionDecl":
                d = self.resolve_free(ref["referencedDecl"], len(kids(e)) - 1)
                if d is not None and d.single_return() is not None and not self.on_stack(d):
                    return d, self.bind(d, None, kids(e)[1:], False)
        return None

    def on_stack(self, d, limit=2):
        """is `d` already being inlined `limit` times?  (one repetition is inlined: a cycle whose second turn is
        provably unreachable – `const_iterator()` with its default null stream – is not a recursion)"""
        return sum(1 for f in self.stack if f.d is d and f.fid >= 0 and f.this_text != "⟨this⟩") >= limit

    def bind(self, d, obj, args, arrow, fresh=False):
        """frame of a call of `d`: reference / pointer-free parameters are the argument's text"""
        if fresh:
            self.nframes += 1
            fid = self.nframes
        else:
            fid = -1           # pure evaluation of an accessor: never declares locals
        if obj is None:
            this_text = self.F().this_text if self.stack else "this"
        else:
            ot = self.R(obj)
            this_text = ot
        sub = {}
        for p, a in zip(d.params, args):
            pn = p.get("name")
            if not pn:
                continue
            if self.peel(a).get("kind") == "CXXDefaultArgExpr":
                continue
            sub[pn] = self.R(a)
        return Frame(fid, d, this_text, sub)

    def R(self, e):
        """canonical text of a (pure) expression under the substitutions of the current frame"""
        e0 = e
        e = self.peel(e)
        k = e.get("kind")
        if k == "DeclRefExpr":
            rd = e.get("referencedDecl", {})
            if rd.get("kind") in ("VarDecl", "ParmVarDecl", "BindingDecl"):
                return self.local(rd.get("name", "?"))
            return rd.get("name", "?")
        if k == "CXXThisExpr":
            return self.F().this_text
        if k == "MemberExpr":
            if not kids(e):
                return self.F().this_text + "." + e.get("name", "?")
            base = kids(e)[0]
            bt = self.R(base)
            if bt.endswith("->"):
                return bt + e.get("name", "?")
            if self.peel(base).get("kind") == "CXXThisExpr" or not e.get("isArrow"):
                return bt + "." + e.get("name", "?")
            return bt + "->" + e.get("name", "?")
        if k in LITERALS:
            if k == "StringLiteral":
                return e.get("value", '""')
            if k == "CXXNullPtrLiteralExpr" or k == "GNUNullExpr":
                return "nullptr"
            return str(e.get("value"))
        if k == "UnaryOperator":
            op = e.get("opcode")
            a = self.R(kids(e)[0])
            return (a + op) if e.get("isPostfix") else (op + a)
        if k in ("BinaryOperator", "CompoundAssignOperator"):
            return "%s %s %s" % (self.R(kids(e)[0]), e.get("opcode"), self.R(kids(e)[1]))
        if k == "ConditionalOperator":
            c, a, b = kids(e)
            return "(%s ? %s : %s)" % (self.R(c), self.R(a), self.R(b))
        if k in ("CXXMemberCallExpr", "CXXOperatorCallExpr", "CallExpr"):
            acc = self.accessor(e)
            if acc is not None:
                d, fr = acc
                self.stack.append(fr)
                try:
                    return self.R(d.single_return())
                finally:
                    self.stack.pop()
        if k == "CXXMemberCallExpr":
            me = self.peel(kids(e)[0])
            args = ", ".join(self.R(a) for a in kids(e)[1:] if self.peel(a).get("kind") != "CXXDefaultArgExpr")
            if me.get("kind") == "MemberExpr":
                obj = self.R(kids(me)[0])
                sep = "->" if me.get("isArrow") and self.peel(kids(me)[0]).get("kind") != "CXXThisExpr" else "."
                if me.get("name") == "operator bool":
                    return obj
                return "%s%s%s(%s)" % (obj, sep, me.get("name"), args)
            return "?(%s)" % args
        if k == "CXXOperatorCallExpr":
            ref = self.peel(kids(e)[0])
            name = ref.get("referencedDecl", {}).get("name", "operator?")
            a = [self.R(x) for x in kids(e)[1:]]
            op = name[len("operator"):]
            if op == "[]" and len(a) == 2:
                return "%s[%s]" % (a[0], a[1])
            if op == "()":
                return "%s(%s)" % (a[0], ", ".join(a[1:]))
            if op in ("*", "!", "-", "++", "--", "~") and len(a) == 1:
                return op + a[0]
            if op == "->" and len(a) == 1:
                return a[0] + "->"
            if len(a) == 2:
                return "%s %s %s" % (a[0], op, a[1])
            return "%s(%s)" % (name, ", ".join(a))
        if k == "CallExpr":
            ref = self.peel(kids(e)[0])
            name = ref.get("referencedDecl", {}).get("name") or ref.get("name") or "?"
            return "%s(%s)" % (name, ", ".join(self.R(a) for a in kids(e)[1:]
                                               if self.peel(a).get("kind") != "CXXDefaultArgExpr"))
        if k in ("CXXConstructExpr", "CXXTemporaryObjectExpr", "CXXFunctionalCastExpr"):
            a = [self.R(x) for x in kids(e) if self.peel(x).get("kind") != "CXXDefaultArgExpr"]
            if len(a) == 1 and k == "CXXConstructExpr":
                return a[0]                      # copy / conversion: named after its source
            return "%s{%s}" % (strip_type(tq(e)).split("<")[0], ", ".join(a))
        if k == "LambdaExpr":
            return "<lambda>"
        if k == "CXXDefaultArgExpr":
            return "<default>"
        if k == "ArraySubscriptExpr":
            return "%s[%s]" % (self.R(kids(e)[0]), self.R(kids(e)[1]))
        if k in PLAIN:
            return "%s{%s}" % (k, ", ".join(self.R(x) for x in kids(e)))
        raise Refuse("cannot render %s in %s" % (k, self.F().d.qname))

    # ---- values ------------------------------------------------------------------------------------
    def I(self, e):
        e = self.peel(e)
        k = e.get("kind")
        if k == "IntegerLiteral":
            return lit(e.get("value", "0"))
        if k == "CharacterLiteral":
            return lit(e.get("value", 0))
        if k == "CXXBoolLiteralExpr":
            return lit(1 if e.get("value") else 0)
        if k in ("CXXNullPtrLiteralExpr", "GNUNullExpr"):
            return lit(0)
        if k == "BinaryOperator" and e.get("opcode") == "+" and not is_ptr(tdes(e)):
            return ("add", self.I(kids(e)[0]), self.I(kids(e)[1]))
        if k in ("CXXMemberCallExpr", "CXXOperatorCallExpr", "CallExpr"):
            acc = self.accessor(e)
            if acc is not None:
                d, fr = acc
                self.stack.append(fr)
                try:
                    return self.I(d.single_return())
                finally:
                    self.stack.pop()
        if k == "CXXMemberCallExpr":
            me = self.peel(kids(e)[0])
            if me.get("kind") == "MemberExpr" and me.get("name") in ("size", "length") and is_std(tdes(kids(me)[0])):
                return size(self.R(kids(me)[0]))
        return var(self.R(e))

    def P(self, e):
        """(container text, position) of an iterator expression, or None"""
        e = self.peel(e)
        k = e.get("kind")
        if k in ("CXXMemberCallExpr", "CXXOperatorCallExpr", "CallExpr"):
            acc = self.accessor(e)
            if acc is not None:
                d, fr = acc
                self.stack.append(fr)
                try:
                    return self.P(d.single_return())
                finally:
                    self.stack.pop()
        if k == "CXXMemberCallExpr":
            me = self.peel(kids(e)[0])
            if me.get("kind") == "MemberExpr" and is_std(tdes(kids(me)[0])):
                c = self.R(kids(me)[0])
                if me.get("name") in ("begin", "cbegin"):
                    return c, lit(0)
                if me.get("name") in ("end", "cend"):
                    return c, size(c)
            return None
        if k == "CallExpr":
            ref = self.peel(kids(e)[0])
            name = ref.get("referencedDecl", {}).get("name")
            a = kids(e)[1:]
            if name == "next" and a:
                p = self.P(a[0])
                if p is not None:
                    n = lit(1) if len(a) < 2 or self.peel(a[1]).get("kind") == "CXXDefaultArgExpr" else self.I(a[1])
                    return p[0], ("add", p[1], n)
            return None
        if k == "CXXOperatorCallExpr":
            ref = self.peel(kids(e)[0])
            name = ref.get("referencedDecl", {}).get("name")
            a = kids(e)[1:]
            if name == "operator+" and len(a) == 2 and is_iter(tdes(a[0])):
                p = self.P(a[0])
                if p is not None:
                    return p[0], ("add", p[1], self.I(a[1]))
            return None
        if k == "DeclRefExpr":
            nm = self.R(e)
            for fr in reversed(self.stack):
                if nm in fr.itervars:
                    return fr.itervars[nm], var(nm)
        return None

    def G(self, e):
        """condition -> guard term"""
        e = self.peel(e)
        k = e.get("kind")
        if k == "BinaryOperator":
            op = e.get("opcode")
            a, b = kids(e)
            if op == "&&":
                return ("and", self.G(a), self.G(b))
            if op == "||":
                return ("or", self.G(a), self.G(b))
            cmp = {"<": ("lt", 0), "<=": ("le", 0), ">": ("lt", 1), ">=": ("le", 1), "==": ("eq", 0), "!=": ("ne", 0)}
            if op in cmp:
                x, y = self.I(a), self.I(b)
                if cmp[op][1]:
                    x, y = y, x
                return (cmp[op][0], x, y)
        if k == "UnaryOperator" and e.get("opcode") == "!":
            return ("not", self.G(kids(e)[0]))
        if k in ("CXXMemberCallExpr", "CXXOperatorCallExpr", "CallExpr"):
            acc = self.accessor(e)
            if acc is not None:
                d, fr = acc
                self.stack.append(fr)
                try:
                    return self.G(d.single_return())
                finally:
                    self.stack.pop()
        if k == "CXXMemberCallExpr":
            me = self.peel(kids(e)[0])
            if me.get("kind") == "MemberExpr" and me.get("name") == "empty" and is_std(tdes(kids(me)[0])):
                return ("eq", size(self.R(kids(me)[0])), lit(0))
        if k == "CXXOperatorCallExpr":
            ref = self.peel(kids(e)[0])
            name = ref.get("referencedDecl", {}).get("name")
            a = kids(e)[1:]
            if name in ("operator==", "operator!=") and len(a) == 2 and is_iter(tdes(a[0])):
                p, q = self.P(a[0]), self.P(a[1])
                if p is not None and q is not None and p[0] == q[0]:
                    return ("eq" if name == "operator==" else "ne", p[1], q[1])
            if name == "operator!" and len(a) == 1:
                return ("not", ("ne", var(self.R(a[0])), lit(0)))
        if k == "CXXBoolLiteralExpr":
            return ("tt",) if e.get("value") else ("not", ("tt",))
        return ("ne", self.I(e), lit(0))

    # ---- context -------------------------------------------------------------------------------------
    @staticmethod
    def kill(ctx, texts):
        if not texts:
            return ctx
        return tuple(g for g in ctx if not any(mentions(t, x) for t in ge_tokens(g) for x in texts))

    def site(self, ctx, kind, container, idx, node, note="", force=False):
        if not self.emit or (self.only_never and kind != "never"):
            return
        fr = self.F()
        plain = Walker.plain_text(self, node)
        guards = [g for g in ctx if g != ("tt",)]
        if guards:
            # only the guards connected to the access (through shared names) can matter for it; for a call that
            # must be unreachable: connected to the innermost conditions it is under
            names = set(ie_tokens(idx)) | ({container} if container else set())
            if kind == "never":
                names = set(ge_tokens(guards[-1]))
            keep = [False] * len(guards)
            changed = True
            while changed:
                changed = False
                for i, g in enumerate(guards):
                    if keep[i]:
                        continue
                    tk = ge_tokens(g)
                    if any(mentions(a, b) or mentions(b, a) for a in tk for b in names):
                        keep[i], changed = True, True
                        names |= tk
            guards = [g for g, kp in zip(guards, keep) if kp]
        # frame numbers in order of appearance: the same access reached through another chain is the same site
        ren = {}

        def rn(txt):
            def f(m):
                ren.setdefault(m.group(0), "'%d" % (len(ren) + 1))
                return ren[m.group(0)]
            return re.sub(r"'(obj)?\d+", f, txt)

        def rn_ie(t):
            if t[0] == "lit":
                return t
            if t[0] in ("var", "size"):
                return (t[0], rn(t[1]))
            return ("add", rn_ie(t[1]), rn_ie(t[2]))

        def rn_ge(g):
            if g[0] in ("lt", "le", "eq", "ne"):
                return (g[0], rn_ie(g[1]), rn_ie(g[2]))
            if g[0] == "not":
                return ("not", rn_ge(g[1]))
            if g[0] in ("and", "or"):
                return (g[0], rn_ge(g[1]), rn_ge(g[2]))
            return g
        idx = rn_ie(idx)
        container = rn(container)
        guards = [rn_ge(g) for g in guards]
        gtxt = " && ".join(ge_text(g) for g in guards)
        # guards as a digest: the table of reviewed sites stays readable and `decide` on it cheap
        key = "%s | %s | %s" % (fr.d.qname, plain, hashlib.sha1(re.sub(r"'\d+", "", gtxt).encode()).hexdigest()[:10])
        full = (fr.d.qname, plain, kind, container, idx, tuple(guards))
        if full in self.site_keys:
            return
        self.site_keys.add(full)
        via = " > ".join(f.d.qname.split("::")[-1] for f in self.stack)
        self.sites.append({"fn": fr.d.qname, "what": plain, "via": self.entry + ": " + via, "kind": kind,
                           "container": container, "idx": idx, "guards": guards, "key": key, "note": note})

    def plain_text(self, node):
        """the access as written in its own function (no substitution, no frame numbers)"""
        fr = self.F()
        saved = self.stack
        self.stack = [Frame(0, fr.d, "this", {})]
        try:
            t = self.R(node)
        finally:
            self.stack = saved
        return re.sub(r"'\d+", "", re.sub(r"\bthis\.", "", t))

    # ---- expressions: sites, inlined calls, modifications -----------------------------------------------
    def V(self, e, ctx):
        """visit an expression in evaluation order: emits the sites, returns the texts it modifies"""
        if not isinstance(e, dict) or "kind" not in e:
            return set()
        k = e["kind"]
        self.kinds_seen.add(k)
        if k in TRANSPARENT:
            if k in ("ImplicitCastExpr", "CStyleCastExpr", "CXXFunctionalCastExpr", "CXXStaticCastExpr") and kids(e):
                self.string_from_ptr(e, ctx)
            out = set()
            for c in kids(e):
                out |= self.V(c, ctx)
            return out
        if k in LITERALS or k in ("DeclRefExpr", "CXXThisExpr", "CXXDefaultArgExpr"):
            return set()
        if k == "MemberExpr":
            out = set()
            if kids(e):
                base = kids(e)[0]
                out |= self.V(base, ctx)
                self.deref(e, base, ctx, arrow=bool(e.get("isArrow")))
            return out
        if k == "UnaryOperator":
            a = kids(e)[0]
            out = self.V(a, ctx)
            op = e.get("opcode")
            if op == "*":
                self.deref(e, a, ctx, arrow=True)
            if op in ("++", "--"):
                out.add(self.R(a))
            return out
        if k in ("BinaryOperator", "CompoundAssignOperator"):
            a, b = kids(e)
            op = e.get("opcode")
            if op == "&&":
                out = self.V(a, ctx)
                return out | self.V(b, self.kill(ctx, out) + (self.G(a),))
            if op == "||":
                out = self.V(a, ctx)
                return out | self.V(b, self.kill(ctx, out) + (("not", self.G(a)),))
            out = self.V(b, ctx) | self.V(a, ctx)
            if op == "=" or k == "CompoundAssignOperator":
                out.add(self.R(a))
            return out
        if k == "ConditionalOperator":
            c, a, b = kids(e)
            out = self.V(c, ctx)
            ctx2 = self.kill(ctx, out)
            g = self.G(c)
            return out | self.V(a, ctx2 + (g,)) | self.V(b, ctx2 + (("not", g),))
        if k == "ArraySubscriptExpr":
            out = set()
            for c in kids(e):
                out |= self.V(c, ctx)
            return out
        if k == "LambdaExpr":
            return self.lambda_in_place(e, ctx)
        if k in ("CXXConstructExpr", "CXXTemporaryObjectExpr"):
            return self.construct(e, ctx, None)
        if k == "CXXMemberCallExpr":
            return self.member_call(e, ctx)
        if k == "CXXOperatorCallExpr":
            return self.operator_call(e, ctx)
        if k == "CallExpr":
            return self.free_call(e, ctx)
        if k == "CXXNewExpr" or k == "CXXDeleteExpr":
            out = set()
            for c in kids(e):
                out |= self.V(c, ctx)
            return out
        if k in PLAIN:
            out = set()
            for c in kids(e):
                out |= self.V(c, ctx)
            return out
        raise Refuse("expression kind %s not handled (in %s)" % (k, self.F().d.qname))

    def string_from_ptr(self, e, ctx):
        pass

    def deref(self, node, base, ctx, arrow):
        """`base->m` / `*base`"""
        if not arrow:
            return
        b = self.peel(base)
        if b.get("kind") == "CXXThisExpr":
            return
        t = tdes(base)
        if is_ptr(t):
            if b.get("kind") == "UnaryOperator" and b.get("opcode") == "&":
                return                       # *&x
            if b.get("kind") == "CXXOperatorCallExpr" and \
                    self.peel(kids(b)[0]).get("referencedDecl", {}).get("name") == "operator->":
                return                       # it->m: the site is the iterator's operator->
            self.site(ctx, "nonzero", "", var(self.R(base)), node)

    def args_modified(self, args, ptypes=None):
        """lvalues handed over where the callee may write through them"""
        out = set()
        for i, a in enumerate(args):
            pt = ptypes[i] if ptypes and i < len(ptypes) else None
            if pt is not None:
                s = pt.strip()
                if not (s.endswith("&") and not s.endswith("&&")) or s.startswith("const ") or " const &" in s:
                    if not is_ptr(s):
                        continue
            n = a
            const_cast = False
            while n.get("kind") in TRANSPARENT and kids(n):
                if n["kind"] == "ImplicitCastExpr" and n.get("castKind") in ("LValueToRValue",):
                    const_cast = True
                if n["kind"] == "ImplicitCastExpr" and n.get("castKind") == "NoOp" and tq(n).startswith("const "):
                    const_cast = True
                if n["kind"] == "MaterializeTemporaryExpr":
                    const_cast = True
                n = kids(n)[0]
            if const_cast:
                continue
            if n.get("kind") in ("DeclRefExpr", "MemberExpr", "ArraySubscriptExpr") or \
                    (n.get("kind") == "UnaryOperator" and n.get("opcode") in ("*", "&")) or \
                    (n.get("kind") == "CXXOperatorCallExpr" and self.R(n).endswith("]")):
                if tq(n).startswith("const "):
                    continue
                if n.get("kind") == "DeclRefExpr" and n.get("referencedDecl", {}).get("kind") not in \
                        ("VarDecl", "ParmVarDecl", "BindingDecl"):
                    continue
                txt = self.R(n)
                if n.get("kind") == "UnaryOperator" and n.get("opcode") == "&":
                    txt = self.R(kids(n)[0])          # f(&x) may write x; f(*p) writes the pointee `*p`, not p
                out.add(txt)
        return out

    def ptypes_of(self, callee_ref):
        """parameter types out of a function type string `R (A, B) const`"""
        t = callee_ref.get("type", {}).get("qualType", "")
        m = re.search(r"\((.*)\)[^()]*$", t)
        if not m:
            return None
        s, depth, cur, out = m.group(1), 0, "", []
        for ch in s:
            if ch in "<(":
                depth += 1
            elif ch in ">)":
                depth -= 1
            if ch == "," and depth == 0:
                out.append(cur.strip())
                cur = ""
            else:
                cur += ch
        if cur.strip():
            out.append(cur.strip())
        return out

    def summary(self, d):
        """what a call of `d` may modify, as templates over ⟨this⟩ and ⟨p:name⟩ (reference / pointer parameters):
        the body is walked once, on its own, with the calls it makes replaced by their summaries"""
        if id(d) in self.summaries:
            return self.summaries[id(d)]
        refs = [p.get("name") for p in d.params if p.get("name") and (tdes(p).strip().endswith("&") or is_ptr(tdes(p)))]
        if id(d) in self.summ_busy:             # a cycle: assume the object and every reference argument
            return ([] if d.is_const else ["⟨this⟩"]) + ["⟨p:%s⟩" % r for r in refs]
        self.summ_busy.add(id(d))
        saved = (self.stack, self.emit, self.nframes, self.post, self.fallthrough, self.tail)
        self.nframes += 1
        fid = self.nframes
        fr = Frame(fid, d, "⟨this⟩", {r: "⟨p:%s⟩" % r for r in refs})
        self.stack = saved[0] + [fr]            # keeps `local()` of lambdas working; `on_stack` ignores it below
        self.emit = False
        self.summary_mode += 1
        self.post = []
        try:
            killed = set()
            for ini in d.inits:
                for c in kids(ini):
                    killed |= self.V(c, ())
                mem = ini.get("anyInit", {})
                if mem.get("name"):
                    killed.add("⟨this⟩." + mem["name"])
            if d.body is not None:
                kk, _ = self.S(d.body, ())
                killed |= kk
        finally:
            self.summary_mode -= 1
            self.stack, self.emit, self.nframes, self.post, self.fallthrough, self.tail = saved
            self.summ_busy.discard(id(d))
        out = sorted(t for t in killed if ("⟨this⟩" in t or "⟨p:" in t) and not re.search(r"'%d\b" % fid, t))
        self.summaries[id(d)] = out
        return out

    def inline(self, d, obj, args, ctx, arrow=False, this_text=None, call_node=None):
        """walk the body of `d` in the caller's context; returns the modified texts (caller's names)"""
        caller = self.F().d.sig() if self.stack else "<entry>"
        self.edges.add((caller, d.sig()))
        if self.summary_mode or not self.emit:
            # only the modifications matter here (a dry run over a loop body, or the summary of the caller)
            out = set()
            if obj is not None:
                out |= self.V(obj, ctx)
            for a in args:
                out |= self.V(a, ctx)
            tt = this_text if this_text is not None else \
                (self.R(obj) if obj is not None else (self.F().this_text if self.stack else "this"))
            amap = {}
            for p_, a in zip(d.params, args):
                if p_.get("name") and self.peel(a).get("kind") != "CXXDefaultArgExpr":
                    amap[p_["name"]] = self.R(a)
            for t in self.summary(d):
                t = t.replace("⟨this⟩", tt)
                t = re.sub(r"⟨p:(\w+)⟩", lambda m: amap.get(m.group(1), "?" + m.group(1)), t)
                out.add(t)
            return out
        self.reached.add(id(d))
        if self.on_stack(d):
            # a call that closes a cycle: safe only if it cannot be reached (its guards contradict each other)
            if (caller, d.sig()) not in self.recursive:
                self.recursive.append((caller, d.sig()))
            self.site(ctx, "never", "", lit(0), call_node if call_node is not None else {"kind": "DeclRefExpr",
                      "referencedDecl": {"name": d.name + "(…)"}}, "recursive call of " + d.sig(), force=True)
            return self.args_modified(args) | ({self.R(obj)} if obj is not None and not d.is_const else set())
        out = set()
        if obj is not None:
            out |= self.V(obj, ctx)
        for a in args:
            out |= self.V(a, ctx)
        ctx = self.kill(ctx, out)
        self.nframes += 1
        fid = self.nframes
        if this_text is None:
            this_text = self.R(obj) if obj is not None else (self.F().this_text if self.stack else "this")
        sub, eqs = {}, []
        for p, a in zip(d.params, args):
            pn = p.get("name")
            if not pn:
                continue
            pt = tdes(p).strip()
            nm = "%s'%d" % (pn, fid)
            if self.peel(a).get("kind") == "CXXDefaultArgExpr":
                # the default value is written at the parameter
                dv = kids(p)[0] if kids(p) else None
                if dv is not None and (is_integral(pt) or is_ptr(pt)) and self.peel(dv).get("kind") in LITERALS:
                    eqs.append(("eq", var(nm), self.I(dv)))
                continue
            byref = pt.endswith("&")
            if byref:
                sub[pn] = self.R(a)
            else:
                if is_integral(pt) or is_ptr(pt) or is_optional(pt):
                    eqs.append(("eq", var(nm), self.I(a)))
                elif is_std(pt):
                    src = self.peel(a)
                    if src.get("kind") in ("CXXConstructExpr",) and len(kids(src)) == 1:
                        eqs.append(("eq", size(nm), size(self.R(kids(src)[0]))))
        fr = Frame(fid, d, this_text, sub)
        self.stack.append(fr)
        try:
            ctx2 = ctx + tuple(eqs)
            for ini in d.inits:
                kk = set()
                for c in kids(ini):
                    kk |= self.V(c, ctx2)
                out |= kk
                ctx2 = self.kill(ctx2, kk)
                mem = ini.get("anyInit", {})
                if mem.get("name") and kids(ini):
                    mt = mem.get("type", {}).get("qualType", "")
                    mtext = this_text + "." + mem["name"]
                    ctx2 = self.kill(ctx2, {mtext})
                    out.add(mtext)
                    if is_integral(mt) or is_ptr(mt):
                        ctx2 = ctx2 + (("eq", var(mtext), self.I(kids(ini)[0])),)
            if d.body is not None:
                saved_post = self.post
                self.post = []
                killed, _ = self.S(d.body, ctx2)
                out |= killed
                self.post = saved_post
                # what the callee established and the caller can see (no early `return` that could skip it)
                st = kids(d.body)
                if not any(has_return(x) for x in st[:-1]) and not (st and st[-1].get("kind") != "ReturnStmt" and has_return(st[-1])):
                    for g in self.tail:
                        if not any(re.search(r"'%d\b" % fid, t) for t in ge_tokens(g)) and g[0] in ("lt", "le") and \
                                g[1] == lit(0) and g[2][0] == "size":
                            self.post.append(g)
        finally:
            self.stack.pop()
        # only what is visible to the caller: drop the callee's own locals
        return {t for t in out if not re.search(r"'%d\b" % fid, t)}

    def lambda_in_place(self, e, ctx):
        """a lambda handed to an algorithm: its body runs under the current guards, parameters unknown"""
        body = next((c for c in reversed(kids(e)) if c.get("kind") == "CompoundStmt"), None)
        if body is None:
            return set()
        self.nframes += 1
        fr = Frame(self.nframes, self.F().d, self.F().this_text, self.F().sub)
        fr.lambdas, fr.itervars = self.F().lambdas, self.F().itervars
        # names captured by reference keep the caller's text: locals of frame 0 are unnumbered, so render
        # through a frame that maps every name visible in the enclosing frame to its text
        fr.sub = _Passthrough(self.F(), self)
        self.stack.append(fr)
        try:
            killed, _ = self.S(body, ctx)
        finally:
            self.stack.pop()
        return {t for t in killed if not re.search(r"'%d\b" % fr.fid, t)}

    def construct(self, e, ctx, target):
        args = kids(e)
        t = tdes(e)
        # std::string from a `const char *`
        if strip_type(t).startswith(("std::basic_string<char", "std::__cxx11::basic_string<char")) and len(args) >= 1:
            a0 = self.peel(args[0])
            if is_ptr(tdes(args[0])) and "char" in tdes(args[0]) and a0.get("kind") != "StringLiteral" and \
                    len([a for a in args if self.peel(a).get("kind") != "CXXDefaultArgExpr"]) == 1:
                if a0.get("kind") == "ConditionalOperator":
                    c, x, y = kids(a0)
                    g = self.G(c)
                    for br, gg in ((x, g), (y, ("not", g))):
                        if self.peel(br).get("kind") != "StringLiteral":
                            self.site(ctx + (gg,), "nonzero", "", var(self.R(br)), e, "std::string from const char *")
                else:
                    self.site(ctx, "nonzero", "", var(self.R(a0)), e, "std::string from const char *")
        d = self.resolve_member(t, strip_type(t).split("<")[0].split("::")[-1], args, kinds=("CXXConstructorDecl",)) \
            if not is_std(t) else None
        if d is not None:
            return self.inline(d, None, args, ctx, this_text=target or "%s'obj%d" % (d.name, self.nframes + 1), call_node=e)
        out = set()
        for a in args:
            out |= self.V(a, ctx)
        return out

    def member_call(self, e, ctx):
        me = self.peel(kids(e)[0])
        args = kids(e)[1:]
        if me.get("kind") != "MemberExpr":
            out = set()
            for c in kids(e):
                out |= self.V(c, ctx)
            return out
        obj = kids(me)[0] if kids(me) else None
        name = me.get("name")
        ot = tdes(obj) if obj is not None else ""
        arrow = bool(me.get("isArrow"))
        d = self.resolve_member(ot, name, args, const_obj=tq(self.peel(obj)).startswith("const ")) \
            if obj is not None and not is_std(ot) else None
        if d is not None:
            if arrow:
                self.V(obj, ctx)
                self.deref(me, obj, ctx, True)
            return self.inline(d, obj, args, ctx, arrow, call_node=e)
        out = self.V(obj, ctx) if obj is not None else set()
        if obj is not None and arrow:
            self.deref(me, obj, ctx, True)
        for a in args:
            out |= self.V(a, ctx)
        if obj is not None and is_seq(ot):
            c = self.R(obj)
            if name in ("front", "back", "pop_back"):
                self.site(ctx, "index", c, lit(0), e, name + "() needs a non-empty container")
            if name in ("erase", "insert", "emplace"):
                for a in args:
                    p = self.P(a) if is_iter(tdes(a)) else None
                    if p is not None and p[1] not in (lit(0), size(p[0])):
                        self.site(ctx, "position", p[0], p[1], a)
        if obj is not None and is_optional(ot) and name == "value":
            pass                              # throws bad_optional_access
        # modification of the object
        if obj is not None and name not in NON_MUTATING and not tq(self.peel(obj)).startswith("const "):
            # through a pointer the pointee is modified, not the pointer
            out.add(self.R(obj) + "->" if arrow and self.peel(obj).get("kind") != "CXXThisExpr" else self.R(obj))
        out |= self.args_modified(args)
        # after an insertion the container is not empty
        if obj is not None and is_std(ot) and (name in ("push_back", "emplace_back", "push_front", "emplace_front") or
                                               (name in ("insert", "emplace") and len(args) == 2 and is_iter(tdes(args[0])))):
            self.post.append(("lt", lit(0), size(self.R(obj))))
        return out

    def operator_call(self, e, ctx):
        ref = self.peel(kids(e)[0])
        rd = ref.get("referencedDecl", {})
        name = rd.get("name", "")
        a = kids(e)[1:]
        op = name[len("operator"):]
        # a lambda stored in a local variable
        if op == "()" and a:
            callee = self.peel(a[0])
            if callee.get("kind") == "DeclRefExpr":
                nm = callee.get("referencedDecl", {}).get("name")
                for fr in reversed(self.stack):
                    if nm in fr.lambdas:
                        return self.call_lambda(fr.lambdas[nm], a[1:], ctx)
        # operators of classes of the set
        if a and not is_std(tdes(a[0])) and not is_ptr(tdes(a[0])):
            d = None
            if rd.get("kind") == "CXXMethodDecl":
                d = self.resolve_member(tdes(a[0]), name, a[1:], const_obj=tq(self.peel(a[0])).startswith("const "))
                if d is not None:
                    return self.inline(d, a[0], a[1:], ctx, call_node=e)
            elif rd.get("kind") == "FunctionDecl":
                d = self.resolve_free(rd, len(a))
                if d is not None:
                    return self.inline(d, None, a, ctx, call_node=e)
        out = set()
        for x in a:
            out |= self.V(x, ctx)
        t0 = tdes(a[0]) if a else ""
        if op == "[]" and len(a) == 2 and is_seq(t0):
            # std::basic_string: s[s.size()] is the terminating NUL – defined (read) access since C++11
            is_string = "basic_string<" in strip_type(t0) and "basic_string_view" not in strip_type(t0)
            self.site(ctx, "position" if is_string else "index", self.R(a[0]), self.I(a[1]), e,
                      "std::string: index == size() is allowed" if is_string else "")
        elif op in ("*", "->") and len(a) == 1:
            if is_optional(t0):
                self.site(ctx, "nonzero", "", var(self.R(a[0])), e, "std::optional")
            elif is_iter(t0):
                p = self.P(a[0])
                if p is not None:
                    self.site(ctx, "index", p[0], p[1], e)
                else:
                    self.site(ctx, "index", "?", var(self.R(a[0])), e, "iterator of unknown position")
        elif op == "+" and len(a) == 2 and is_iter(t0):
            p = self.P(e)
            if p is not None:
                self.site(ctx, "position", p[0], p[1], e)
        elif op == "=" and len(a) == 2 and strip_type(t0).startswith(("std::basic_string<char", "std::__cxx11::basic_string<char")):
            r = self.peel(a[1])
            if is_ptr(tdes(a[1])) and "char" in tdes(a[1]) and r.get("kind") != "StringLiteral":
                self.site(ctx, "nonzero", "", var(self.R(r)), e, "std::string from const char *")
        # modifications
        if op in ("=", "+=", "-=", "*=", "/=", "++", "--", "<<=", ">>=", "|=", "&=", "^=") and a:
            out.add(self.R(a[0]))
        elif op == ">>" and len(a) == 2:
            out |= {self.R(a[0]), self.R(a[1])}
        elif op == "<<" and a:
            pass                                   # stream insertion: the stream is not a guard quantity
        elif op == "()" and a:
            out |= self.args_modified(a[1:], self.ptypes_of(ref))
        elif op == "[]" and a and not is_seq(t0) and not tq(self.peel(a[0])).startswith("const "):
            out.add(self.R(a[0]))                 # std::map::operator[] may insert
        return out

    def call_lambda(self, lam, args, ctx):
        node, home = lam
        md = None
        for c in kids(node):
            if c.get("kind") == "CXXRecordDecl":
                for m in kids(c):
                    if m.get("kind") == "CXXMethodDecl" and m.get("name") == "operator()":
                        md = m
        if md is None:
            raise Refuse("lambda without operator() in " + self.F().d.qname)
        out = set()
        for a in args:
            out |= self.V(a, ctx)
        ctx = self.kill(ctx, out)
        params = [c for c in kids(md) if c.get("kind") == "ParmVarDecl"]
        body = next((c for c in kids(md) if c.get("kind") == "CompoundStmt"), None)
        self.nframes += 1
        fid = self.nframes
        sub = _Passthrough(home, self)
        eqs = []
        for p, a in zip(params, args):
            pn, pt = p.get("name"), tdes(p).strip()
            if not pn:
                continue
            if pt.endswith("&"):
                sub.extra[pn] = self.R(a)
            else:
                nm = "%s'%d" % (pn, fid)
                sub.extra[pn] = nm
                if is_integral(pt) or is_ptr(pt):
                    eqs.append(("eq", var(nm), self.I(a)))
        fr = Frame(fid, home.d, home.this_text, {})
        fr.sub = sub
        fr.lambdas, fr.itervars = home.lambdas, home.itervars
        self.stack.append(fr)
        try:
            killed, _ = self.S(body, ctx + tuple(eqs)) if body is not None else (set(), False)
        finally:
            self.stack.pop()
        return out | {t for t in killed if not re.search(r"'%d\b" % fid, t)}

    def free_call(self, e, ctx):
        ref = self.peel(kids(e)[0])
        args = kids(e)[1:]
        rd = ref.get("referencedDecl", {}) if ref.get("kind") == "DeclRefExpr" else {}
        name = rd.get("name")
        if rd.get("kind") == "FunctionDecl":
            d = self.resolve_free(rd, len(args))
            if d is not None:
                return self.inline(d, None, args, ctx, call_node=e)
        elif rd.get("kind") in ("VarDecl", "ParmVarDecl") or ref.get("kind") not in ("DeclRefExpr",):
            pass
        out = set()
        if ref.get("kind") != "DeclRefExpr":
            out |= self.V(kids(e)[0], ctx)
        for a in args:
            out |= self.V(a, ctx)
        if name in ("next", "prev", "advance") and args and is_iter(tdes(args[0])):
            p = self.P(e) if name == "next" else None
            if p is not None:
                self.site(ctx, "position", p[0], p[1], e)
            else:
                q = self.P(args[0])
                self.site(ctx, "position", q[0] if q else "?", var(self.R(e)), e, "iterator arithmetic of unknown position")
        if name:
            self.external[name] = self.external.get(name, 0) + 1
        out |= self.args_modified(args, self.ptypes_of(ref) if rd else None)
        return out

    # ---- statements -------------------------------------------------------------------------------------
    def decl(self, v, ctx):
        """one VarDecl: returns (killed, new guards)"""
        name = v.get("name")
        init = next((c for c in kids(v)), None)
        killed, new = set(), []
        if init is None or not name:
            return killed, new
        nm = self.local(name)
        pin = self.peel(init)
        if pin.get("kind") == "LambdaExpr":
            self.F().lambdas[name] = (pin, self.F())
            return killed, new
        t = tdes(v).strip()
        if pin.get("kind") in ("CXXConstructExpr", "CXXTemporaryObjectExpr") and not is_std(t):
            killed |= self.construct(pin, ctx, nm)
        else:
            killed |= self.V(init, ctx)
        if is_iter(t):
            p = self.P(init)
            if p is not None:
                self.F().itervars[nm] = p[0]
                new.append(("eq", var(nm), p[1]))
            else:
                sr = self.search_result(init)
                if sr is not None:
                    # contract of the library: the result of a search in c lies in [c.begin(), c.end()];
                    # max_element / min_element return end() only for an empty range
                    self.F().itervars[nm] = sr[0]
                    new.append(("le", var(nm), size(sr[0])))
                    if sr[1]:
                        new.append(("or", ("lt", var(nm), size(sr[0])), ("eq", size(sr[0]), lit(0))))
        elif is_integral(t) or is_ptr(t):
            new.append(("eq", var(nm), self.I(init)))
        elif SEQ_RE.match(strip_type(t)) and pin.get("kind") == "CXXConstructExpr":
            a = [x for x in kids(pin) if self.peel(x).get("kind") != "CXXDefaultArgExpr"]
            if len(a) == 2 and is_integral(tdes(a[0])) and not is_iter(tdes(a[1])) and strip_type(t).split("<")[0].endswith("vector"):
                new.append(("eq", size(nm), self.I(a[0])))          # std::vector<T> v(n, x)
            elif len(a) == 1 and is_std(tdes(a[0])) and strip_type(tdes(a[0])) == strip_type(t):
                new.append(("eq", size(nm), size(self.R(a[0]))))    # copy
        return killed, new

    SEARCH_MEMBERS = {"find", "lower_bound", "upper_bound"}
    SEARCH_ALGOS = {"find", "find_if", "find_if_not", "lower_bound", "upper_bound", "adjacent_find", "max_element",
                    "min_element", "search", "find_first_of", "partition_point", "remove", "remove_if", "unique"}

    def search_result(self, e):
        """(container, is-extremum) when `e` is `c.find(…)` or `std::algo(c.begin(), c.end(), …)`"""
        e = self.peel(e)
        if e.get("kind") == "CXXMemberCallExpr":
            me = self.peel(kids(e)[0])
            if me.get("kind") == "MemberExpr" and me.get("name") in self.SEARCH_MEMBERS and is_std(tdes(kids(me)[0])):
                return self.R(kids(me)[0]), False
        if e.get("kind") == "CallExpr":
            ref = self.peel(kids(e)[0])
            name = ref.get("referencedDecl", {}).get("name")
            a = kids(e)[1:]
            if name in self.SEARCH_ALGOS and len(a) >= 2:
                p, q = self.P(a[0]), self.P(a[1])
                if p is not None and q is not None and p[0] == q[0] and p[1] == lit(0) and q[1] == size(q[0]):
                    return p[0], name in ("max_element", "min_element")
        return None

    def exits(self, s):
        """does the statement always leave the enclosing block (return / continue / break / throw)?"""
        k = s.get("kind")
        if k in ("ReturnStmt", "ContinueStmt", "BreakStmt"):
            return True
        if k == "ExprWithCleanups" or k == "CXXThrowExpr":
            p = self.peel(s)
            return p.get("kind") == "CXXThrowExpr"
        if k == "CompoundStmt":
            st = kids(s)
            return bool(st) and self.exits(st[-1])
        if k == "IfStmt":
            parts = [c for c in s.get("inner", [])]
            body = [c for c in parts if isinstance(c, dict) and c.get("kind")]
            if s.get("hasElse") and len(body) >= 3:
                return self.exits(body[-2]) and self.exits(body[-1])
        return False

    def S(self, s, ctx):
        """visit a statement: returns (modified texts, always-exits); `self.tail` = the guards the block
        established that still hold at its end"""
        if not isinstance(s, dict) or "kind" not in s:
            return set(), False
        k = s["kind"]
        self.kinds_seen.add(k)
        if k == "CompoundStmt":
            killed = set()
            added = ()
            for st in kids(s):
                kk, new = self.stmt_in_block(st, ctx)
                ft = self.fallthrough if self.fallthrough is not None else kk
                self.fallthrough = None
                killed |= kk
                ctx = self.kill(ctx, ft) + tuple(new)
                added = self.kill(added, ft) + tuple(new)
            self.tail = added
            return killed, self.exits(s)
        kk, _new = self.stmt_in_block(s, ctx)
        self.fallthrough = None
        self.tail = tuple(_new)
        return kk, self.exits(s)

    def take_post(self):
        p, self.post = self.post, []
        return p

    def stmt_in_block(self, s, ctx):
        """one statement of a block: (modified texts, guards that hold after it)"""
        k = s["kind"]
        self.kinds_seen.add(k)
        if k in ("NullStmt", "BreakStmt", "ContinueStmt"):
            return set(), []
        if k == "DeclStmt":
            killed, new = set(), []
            for v in kids(s):
                if v.get("kind") == "VarDecl":
                    kk, nn = self.decl(v, self.kill(ctx, killed) + tuple(new))
                    killed |= kk
                    new += nn
                elif v.get("kind") == "DecompositionDecl":
                    for c in kids(v):
                        if c.get("kind") != "BindingDecl":
                            killed |= self.V(c, ctx)
                elif v.get("kind") in ("TypedefDecl", "TypeAliasDecl", "UsingDecl", "StaticAssertDecl", "CXXRecordDecl",
                                       "UsingDirectiveDecl", "EnumDecl"):
                    pass
                else:
                    raise Refuse("declaration kind %s not handled (in %s)" % (v.get("kind"), self.F().d.qname))
            return killed, new + self.take_post()
        if k == "ReturnStmt":
            killed = set()
            for c in kids(s):
                killed |= self.V(c, ctx)
            return killed, []
        if k == "CompoundStmt":
            killed, _ = self.S(s, ctx)
            return killed, []
        if k == "IfStmt":
            return self.if_stmt(s, ctx)
        if k in ("ForStmt", "WhileStmt", "DoStmt", "CXXForRangeStmt"):
            return self.loop(s, ctx), []
        if k == "SwitchStmt":
            parts = kids(s)
            killed = set()
            for c in parts[:-1]:
                killed |= self.V(c, ctx) if c.get("kind") != "DeclStmt" else self.stmt_in_block(c, ctx)[0]
            body = parts[-1]
            ctx2 = self.kill(ctx, killed)
            # every label is entered with the guards of the switch only (fall-through is possible)
            dry = self.dry(lambda: self.S(body, ctx2)[0])
            ctx3 = self.kill(ctx2, dry)
            kk, _ = self.S(body, ctx3)
            return killed | kk, []
        if k in ("CaseStmt", "DefaultStmt"):
            killed = set()
            for c in kids(s):
                if c.get("kind") in ("ConstantExpr", "IntegerLiteral", "CharacterLiteral", "ImplicitCastExpr",
                                     "DeclRefExpr", "UnaryOperator") and c is kids(s)[0] and k == "CaseStmt":
                    continue
                kk, _ = self.S(c, self.kill(ctx, killed))
                killed |= kk
            return killed, []
        if k == "CXXTryStmt":
            killed = set()
            for c in kids(s):
                kk, _ = self.S(c if c.get("kind") != "CXXCatchStmt" else kids(c)[-1], self.kill(ctx, killed))
                killed |= kk
            return killed, []
        if k == "AttributedStmt":
            return self.stmt_in_block(kids(s)[-1], ctx)
        if k in ("GotoStmt", "LabelStmt", "IndirectGotoStmt", "CoroutineBodyStmt", "GCCAsmStmt", "MSAsmStmt"):
            raise Refuse("statement kind %s not handled (in %s)" % (k, self.F().d.qname))
        # an expression statement
        self.post = []
        kk = self.V(s, ctx)
        return kk, [g for g in self.take_post() if not mentions_any(g, set())]

    def if_stmt(self, s, ctx):
        parts = kids(s)
        killed, new_local = set(), []
        i = 0
        if s.get("hasInit"):
            kk, nn = self.stmt_in_block(parts[0], ctx)
            killed |= kk
            new_local += nn
            i = 1
        if s.get("hasVar"):
            kk, nn = self.stmt_in_block(parts[i], self.kill(ctx, killed) + tuple(new_local))
            killed |= kk
            new_local += nn
            i += 1
        cond = parts[i]
        then = parts[i + 1] if len(parts) > i + 1 else None
        els = parts[i + 2] if len(parts) > i + 2 else None
        if s.get("isConstexpr"):
            pass
        c0 = self.kill(ctx, killed) + tuple(new_local)
        kc = self.V(cond, c0)
        killed |= kc
        c1 = self.kill(c0, kc)
        g = self.G(cond)
        kt = set()
        if then is not None:
            kt, _ = self.S(then, c1 + (g,))
        ke = set()
        if els is not None:
            ke, _ = self.S(els, c1 + (("not", g),))
        t_exits = then is not None and self.exits(then)
        e_exits = els is not None and self.exits(els)
        ft = set(killed)
        if not t_exits:
            ft |= kt
        if not e_exits:
            ft |= ke
        killed |= kt | ke
        after = []
        if not mentions_any(g, ft):
            if t_exits and not e_exits:
                after.append(("not", g))
            elif e_exits and not t_exits:
                after.append(g)
        # the variables declared in the init / condition go out of scope: their guards are not exported
        self.fallthrough = ft
        return killed, after

    def dry(self, f):
        saved = self.emit, list(self.recursive), set(self.edges), self.nframes, list(self.post)
        self.emit = False
        try:
            return f()
        finally:
            self.emit = saved[0]
            self.nframes = saved[3]
            self.post = saved[4]

    def has_break(self, s):
        """a `break` that leaves *this* loop"""
        k = s.get("kind")
        if k == "BreakStmt":
            return True
        if k in ("ForStmt", "WhileStmt", "DoStmt", "CXXForRangeStmt", "SwitchStmt", "LambdaExpr"):
            return False
        return any(self.has_break(c) for c in kids(s))

    def loop(self, s, ctx):
        k = s["kind"]
        inner = s.get("inner", [])
        get = lambda i: inner[i] if i < len(inner) and isinstance(inner[i], dict) and inner[i].get("kind") else None
        killed = set()
        new = []
        if k == "ForStmt":
            init, condvar, cond, inc, body = get(0), get(1), get(2), get(3), get(4)
            if init is not None:
                kk, nn = self.stmt_in_block(init, ctx)
                killed |= kk
                new += nn
            c0 = self.kill(ctx, killed) + tuple(new)

            def once(c):
                out = set()
                cc = c
                if cond is not None:
                    out |= self.V(cond, c)
                    cc = self.kill(c, out) + (self.loop_guard(cond, inc, body),)
                kb = set()
                if body is not None:
                    kb, _ = self.S(body, cc)
                    out |= kb
                if inc is not None:
                    out |= self.V(inc, self.kill(cc, kb))
                return out
            m = self.dry(lambda: once(c0))
            c1 = self.kill(c0, m)
            # the defining equation of the loop variable holds only before the first iteration
            killed |= once(c1)
            return killed
        if k == "WhileStmt":
            parts = kids(s)
            cond, body = parts[-2], parts[-1]

            def once(c):
                out = self.V(cond, c)
                kb, _ = self.S(body, self.kill(c, out) + (self.G(cond),))
                return out | kb
            m = self.dry(lambda: once(ctx))
            return once(self.kill(ctx, m))
        if k == "DoStmt":
            body, cond = kids(s)[0], kids(s)[1]

            def once(c):
                kb, _ = self.S(body, c)
                return kb | self.V(cond, self.kill(c, kb))
            m = self.dry(lambda: once(ctx))
            return once(self.kill(ctx, m))
        # CXXForRangeStmt: [init?, range decl, begin decl, end decl, cond, inc, loop var decl, body]
        init, rng, beg, end, cond, inc, lv, body = (get(i) for i in range(8))
        if init is not None:
            kk, nn = self.stmt_in_block(init, ctx)
            killed |= kk
            new += nn
        c0 = self.kill(ctx, killed) + tuple(new)
        rv = kids(rng)[0] if rng is not None else None
        rtype = tdes(rv) if rv is not None else ""
        if is_std(rtype) or strip_type(rtype).endswith("]"):
            # a std container: begin() .. end() of the same object, nothing to check about the iteration
            kk = self.V(kids(rv)[0], c0) if kids(rv) else set()
            killed |= kk
            c0 = self.kill(c0, kk)
            rtext = self.R(kids(rv)[0]) if kids(rv) else "?"
            self.F().sub["__range" + rv.get("name", "")[7:]] = rtext
            self.F().sub[rv.get("name", "?")] = rtext

            def once(c):
                out = set()
                for v in kids(lv):
                    if v.get("kind") == "VarDecl":
                        # `x` of `for (auto &x : c)` is an element of c: nothing known about it
                        pass
                    elif v.get("kind") == "DecompositionDecl":
                        pass
                kb, _ = self.S(body, c)
                return out | kb
            m = self.dry(lambda: once(c0))
            killed |= once(self.kill(c0, m))
            return killed
        # a class of the set whose begin() / end() are accessors of a std container member (dataframe, columns_info)
        try:
            self.F().sub[rv.get("name", "?")] = self.R(kids(rv)[0])
            pb = self.P(kids(kids(beg)[0])[0]) if beg is not None else None
            pe = self.P(kids(kids(end)[0])[0]) if end is not None else None
        except (Refuse, IndexError):
            pb = pe = None
        if pb is not None and pe is not None and pb[0] == pe[0] and pb[1] == lit(0) and pe[1] == size(pe[0]):
            kk = self.V(kids(rv)[0], c0) if kids(rv) else set()
            killed |= kk
            c0 = self.kill(c0, kk)
            m = self.dry(lambda: self.S(body, c0)[0])
            kb, _ = self.S(body, self.kill(c0, m))
            return killed | kb
        self.F().sub.pop(rv.get("name", "?"), None)
        # an iterator class of the set (pocket_csv::parser): begin / end / != / ++ / * are inlined
        for dcl in (rng, beg, end):
            kk, nn = self.stmt_in_block(dcl, c0)
            killed |= kk
            c0 = self.kill(c0, kk) + tuple(nn)

        def once(c):
            out = self.V(cond, c)
            cc = self.kill(c, out) + (self.G(cond),)
            kk, nn = self.stmt_in_block(lv, cc)
            out |= kk
            cc = self.kill(cc, kk) + tuple(nn)
            kb, _ = self.S(body, cc)
            out |= kb
            out |= self.V(inc, self.kill(c, out))
            return out
        m = self.dry(lambda: once(c0))
        killed |= once(self.kill(c0, m))
        return killed

    def loop_guard(self, cond, inc, body):
        """the guard the condition of a `for` gives its body; the canonical iterator loop
        `for (it = …; it != c.end(); ++it)` (nothing else touches `it` or `c`) yields `it < #c`"""
        g = self.G(cond)
        if g[0] == "ne" and g[1][0] == "var" and g[2][0] == "size" and inc is not None:
            it, c = g[1][1], g[2][1]
            pi = self.peel(inc)
            is_inc = (pi.get("kind") == "CXXOperatorCallExpr" and
                      self.peel(kids(pi)[0]).get("referencedDecl", {}).get("name") == "operator++" and
                      self.R(kids(pi)[1]) == it) or \
                     (pi.get("kind") == "UnaryOperator" and pi.get("opcode") == "++" and self.R(kids(pi)[0]) == it)
            if is_inc and body is not None:
                touched = self.dry(lambda: self.S(body, ())[0])
                if not any(mentions(it, t) or mentions(c, t) or mentions(t, it) and t == it for t in touched) and \
                        it in self.F().itervars and self.F().itervars[it] == c:
                    return ("lt", var(it), size(c))
        return g


class _Passthrough(dict):
    """substitution of a lambda body: every name resolves as in the enclosing frame, except its own
    parameters (`extra`)"""

    def __init__(self, home, walker):
        super().__init__()
        self.home, self.walker, self.extra = home, walker, {}

    def __contains__(self, name):
        return True

    def __getitem__(self, name):
        if name in self.extra:
            return self.extra[name]
        return self.walker.local(name, self.home)

    def get(self, name, default=None):
        return self[name]


def has_return(n):
    if not isinstance(n, dict):
        return False
    if n.get("kind") == "ReturnStmt":
        return True
    if n.get("kind") == "LambdaExpr":
        return False
    return any(has_return(c) for c in n.get("inner", []))


def mentions_any(g, texts):
    return any(mentions(t, x) for t in ge_tokens(g) for x in texts)


def strip_ids(n):
    if isinstance(n, dict):
        return {k: strip_ids(v) for k, v in n.items() if k not in ("id", "loc", "range", "referencedMemberDecl",
                                                                    "previousDecl", "parentDeclContextId", "mangledName")
                and not (k == "referencedDecl")} | ({"ref": n["referencedDecl"].get("name")} if "referencedDecl" in n else {})
    if isinstance(n, list):
        return [strip_ids(x) for x in n]
    return n


# ---------------------------------------------------------------------------------------------
# driver
# ---------------------------------------------------------------------------------------------

def pick_entry(defs, qname, frags):
    c = [d for d in defs if d.qname == qname]
    if frags is not None:
        c = [d for d in c if len(d.params) == len(frags) and all(f in t for f, t in zip(frags, d.ptypes))]
    if len(c) != 1:
        raise Refuse("entry point %s %s: %d candidates" % (qname, frags, len(c)))
    return c[0]


def scan_edges(defs, w):
    """calls between functions of the set, found without inlining (also in functions no entry reaches)"""
    edges = set()
    names = {}
    for d in defs:
        names.setdefault(d.name, []).append(d)

    def visit(n, d):
        if not isinstance(n, dict):
            return
        k = n.get("kind")
        callee = None
        if k == "CXXMemberCallExpr":
            me = w.peel(kids(n)[0])
            if me.get("kind") == "MemberExpr" and kids(me):
                w.stack = [Frame(0, d, "this", {})]
                try:
                    callee = w.resolve_member(tdes(kids(me)[0]), me.get("name"), kids(n)[1:])
                except Refuse:
                    callee = None
        elif k in ("CallExpr", "CXXOperatorCallExpr"):
            ref = w.peel(kids(n)[0]) if kids(n) else {}
            rd = ref.get("referencedDecl", {}) if ref.get("kind") == "DeclRefExpr" else {}
            w.stack = [Frame(0, d, "this", {})]
            try:
                if rd.get("kind") == "FunctionDecl":
                    callee = w.resolve_free(rd, len(kids(n)) - 1)
                elif rd.get("kind") == "CXXMethodDecl" and len(kids(n)) >= 2:
                    callee = w.resolve_member(tdes(kids(n)[1]), rd.get("name"), kids(n)[2:])
            except Refuse:
                callee = None
        elif k in ("CXXConstructExpr", "CXXTemporaryObjectExpr") and not is_std(tdes(n)):
            t = tdes(n)
            w.stack = [Frame(0, d, "this", {})]
            try:
                callee = w.resolve_member(t, strip_type(t).split("<")[0].split("::")[-1], kids(n), kinds=("CXXConstructorDecl",))
            except Refuse:
                callee = None
        if callee is not None:
            edges.add((d.sig(), callee.sig()))
        for c in n.get("inner", []):
            visit(c, d)

    for d in defs:
        for ini in d.inits:
            visit(ini, d)
        if d.body is not None:
            visit(d.body, d)
    w.stack = []
    return edges


def translate():
    with cf.ThreadPoolExecutor(4) as ex:
        dumps = list(ex.map(lambda f: ast_dump(TU, f), FILTERS))
    docs = [d for ds in dumps for d in ds]
    defs = collect_defs(docs)
    if not defs:
        raise Refuse("no function definitions found")
    w = Walker(defs)
    all_edges = scan_edges(defs, w)
    for qn, frags in ENTRIES:
        d = pick_entry(defs, qn, frags)
        w.entry = d.qname.split("::")[-1] + ("(" + ",".join(frags) + ")" if frags else "")
        w.stack = [Frame(1, d, "this", {})]
        w.nframes = 1
        w.reached.add(id(d))
        ctx = ()
        for ini in d.inits:
            for c in kids(ini):
                w.V(c, ctx)
        w.S(d.body, ctx)
        w.stack = []
    # every function on its own as well, for the calls that close a cycle only (functions no entry reaches)
    w.only_never = True
    for d in defs:
        if id(d) in w.reached:
            continue
        w.entry = "(standalone) " + d.qname.split("::")[-1]
        w.stack = [Frame(1, d, "this", {})]
        w.nframes = 1
        for ini in d.inits:
            for c in kids(ini):
                w.V(c, ())
        if d.body is not None:
            w.S(d.body, ())
        w.stack = []
    edges = sorted(all_edges | {e for e in w.edges if e[0] != "<entry>"})
    fns = sorted({d.sig() for d in defs})
    return {"sites": w.sites, "recursive": list(w.recursive), "edges": edges, "functions": fns, "external": w.external}


def render(res):
    o = ["/-", "  GENERATED by tools/translate_reader.py from the clang AST of dataframe.{h,cc}, pocket_csv.h, utility.cc,",
         "  problem.cc, category_set.cc of the working tree — do not edit.  Terms of Vita/C10/Sites.lean.", "-/",
         "import Vita.C10.Sites", "", "namespace Vita.C10.Gen", "open Vita.C10.Sites", ""]
    o.append("/-- every subscript / iterator-arithmetic / pointer-dereference site reached from the entry points, with its")
    o.append("    dominating guards -/")
    o.append("def sites : List SiteRec := [")
    rows = []
    for s in res["sites"]:
        rows.append("  -- %s: %s   [%s]\n  { fn := %s, what := %s, via := %s, kind := .%s, container := %s,\n    idx := %s,\n    guards := [%s],\n    key := %s }"
                    % (s["fn"], s["what"], " && ".join(ge_text(g) for g in s["guards"]) or "no guard",
                       lstr(s["fn"]), lstr(s["what"]), lstr(s["via"]), s["kind"], lstr(s["container"]), ie_lean(s["idx"]),
                       ", ".join(ge_lean(g) for g in s["guards"]), lstr(s["key"])))
    o.append(",\n".join(rows))
    o.append("]")
    o.append("")
    o.append("/-- the functions defined in the reader sources -/")
    o.append("def functions : List String := [" + ", ".join(lstr(f) for f in res["functions"]) + "]")
    o.append("")
    o.append("/-- caller, callee: the calls between them -/")
    o.append("def callEdges : List (String × String) := [" +
             ", ".join("(%s, %s)" % (lstr(a), lstr(b)) for a, b in res["edges"]) + "]")
    o.append("")
    o.append("/-- the calls that close a cycle of the call graph (each is also a site of kind `never`: it has to be unreachable) -/")
    o.append("def recursiveCalls : List (String × String) := [" +
             ", ".join("(%s, %s)" % (lstr(a), lstr(b)) for a, b in res["recursive"]) + "]")
    o.append("")
    o.append("/-- the functions whose body contains a call of the function itself -/")
    o.append("def selfRecursive : List String := [" +
             ", ".join(lstr(a) for a, b in res["edges"] if a == b) + "]")
    o.append("")
    o.append("end Vita.C10.Gen")
    return "\n".join(o) + "\n"


def emit(path):
    """Regenerate `path`; returns (result, changed)."""
    res = translate()
    txt = render(res)
    old = open(path).read() if os.path.exists(path) else None
    if old != txt:
        with open(path, "w") as f:
            f.write(txt)
    return res, old != txt


if __name__ == "__main__":
    r = translate()
    if "--summary" in sys.argv:
        for s in r["sites"]:
            print("%-9s %-45s %-38s idx=%-22s [%s]" % (s["kind"], s["fn"].replace("vita::", "").replace("pocket_csv::", "csv::"),
                                                      s["what"][:38], ie_text(s["idx"])[:22],
                                                      " && ".join(ge_text(g) for g in s["guards"])))
        print("recursive:", r["recursive"])
        print(len(r["sites"]), "sites,", len(r["functions"]), "functions,", len(r["edges"]), "edges")
    else:
        sys.stdout.write(render(r))
